"""C05 — JSGF compilation preserves the language of the grammar.

Lean (SSVerif/Props/C05.lean, all for every grammar / rule table, no bound on nesting or recursion):
  C05_run_iff_der          leftmost-rewriting machine = inductive denotation
  C05_desugar_preserves    the parser actions (groups, optionals, Kleene closures as internal rules) keep the
                           JSGF denotation of every rule
  C05_expand_correct       the mirror of expand_rule/expand_rhs refuses exactly the non-representable tops and
                           otherwise builds an automaton with exactly the rule's language
  C05_compile_correct      both together, against the surface JSGF semantics
  C05_explore_sound, C05_comparison_decides, C05_compiled_language
                           what a passing verified language comparison of a dumped FSG means
  C05_weights_normalised   weights over Q sum to one per rule, normalisation is idempotent
Props/C05Names.lean (the string side of the symbol table, Model/JsgfNames.lean):
  C05_generated_names_distinct   `sprintf "<%s.g%05d>"` is injective in the counter for EVERY grammar name
  C05_generated_names_not_user   a generated name differs from every string not of the shape <grammar.gDIGITS>
  C05_rule_strings_injective     abstract rule names (user i / gen k) are different keys of jsgf->rules
Props/C05Repr.lean:
  C05_representable_fuel_stable, C05_refusal_not_by_fuel   the accept/refuse decision never depends on the recursion bound
  C05_read_string                jsgf_read_string: NULL without a public rule, else the correct FSG of a public rule
Props/C05Graph.lean (Model/JsgfGraph.lean: rule-reference graph of the table, no stack / ntail / fuel):
  C05_representable_iff_graph    the refusal test passes IFF every rule reachable from the root is defined and no reference
                                 that is not last in its alternative lies on a cycle reachable from the root
  C05_graph_decides              the executable representableGB (closure iteration) decides that predicate
  C05_expand_iff_graphB, C05_compile_iff_graph   the compiler mirror builds iff the graph predicate holds
Props/C05Surface.lean:
  C05_surface_graph_partial, C05_compile_needs_surface_graph   one direction on the SURFACE grammar: what is accepted has
                                 every user rule reachable defined and no non-tail reference (tail position through
                                 nested groups/optionals, never under * / +) on a cycle of user rules

Tie / oracle, per generated surface grammar g (printed to JSGF text with comments, quoting, tags, nested
groups, weights), every rule of g used as top:
  (a) rule table dumped from the real scanner+parser (`jsgf->rules`) = `desugar g` up to the numbering of
      internal rules;
  (a') every key of jsgf->rules is the full name of a user rule or exactly the string the Lean `genName` gives for its
      counter, and there are as many generated keys as `desugar g` has internal rules (no two rules under one key);
      identifiers (grammar names incl. dotted package-style ones, rule names, tokens, import names) are drawn from one
      length distribution 1 / typical / 23-40 / 100+ / 300+ / 1000+ bytes, printed into the evidence, with an
      obligation that long grammar names with >= 2 generated rules occurred;
  (b) "the real compiler builds an FSG" = `representable (desugar g) top`;
  (b') the executable graph predicate `representableGB (desugar g) top` (driver op `graph`) = `representable` (the theorem,
      evaluated) = "the real compiler builds an FSG" (unless the model refuses for a weight above 1 only), on every top of
      every grammar of every family (corpus, generated, small-scope, texts); the same predicate read on the surface grammar
      by a second implementation (`surface_graph_accepts`) must agree; the kinds of reference graph that occurred (undefined
      reachable, left / middle recursion, direct / mutual right recursion, right recursion through group/optional/Kleene,
      unreachable bad rule) are printed into the evidence, with an obligation on minimum counts;
  (c) when built: verified `nfaEquiv` of the real FSG (raw and closed, dumped through the real arc iterator)
      against `explore (desugar g) top`; a distinguishing sentence is confirmed by the verified membership
      decision on both sides (implementation-side oracle);
  (c') the raw FSG has exactly the states, links and probabilities of `expandTop (desugar g) top` (the object
      C05_expand_correct is about), modulo fsg_model's merging of duplicate links / dropping of null self-loops;
  (d) first-atom weights after the build = `normaliseRule` over Q (float tolerance); every choice point of
      the raw FSG has outgoing probabilities summing to one;
  (e) the rule stack is empty after every build (a later build of another rule is not influenced);
  (f) `jsgf_read_string` (whole pipeline): NULL iff no public rule / not representable, else the FSG of a
      public rule with that rule's language.
"""
import json, math, os, re
import time
from fractions import Fraction
import vlib

FUEL = 2500          # maximal number of explored sentential forms
MAXPAIRS = 6000      # subset-construction pairs of the equivalence search


# ----------------------------------------------------------------------------
# surface AST
#   exp  = ("t", word_text) | ("r", rule_name) | ("n",) | ("v",) | ("G", alts) | ("O", alts) | ("S", exp) | ("P", exp)
#   alts = [seq, ...] (textual order), seq = [item, ...], item = (weight_text|None, [tag_text...], exp)
#   grammar = {"name": str, "rules": [(name, public, alts)], "header": str}

def exp_depth(e):
    k = e[0]
    if k in ("G", "O"):
        return 1 + max(max(exp_depth(it[2]) for it in s) for s in e[1])
    if k in ("S", "P"):
        return 1 + exp_depth(e[1])
    return 0


def alts_depth(a):
    return max(max(exp_depth(it[2]) for it in s) for s in a)


def walk_exps(a, f):
    for s in a:
        for it in s:
            walk_exp(it[2], f)


def walk_exp(e, f):
    f(e)
    if e[0] in ("G", "O"):
        walk_exps(e[1], f)
    elif e[0] in ("S", "P"):
        walk_exp(e[1], f)


WORDS = ["go", "forward", "ten", "meters", "x", "y1", "stop!", "a.b", "l'eau", "día", "99", "x-y", "&", '"quoted words"',
         '"semi;colon | bar"', '"it\\"s"', "#tag", "public", "grammar", "NULL"]
RULENAMES = ["a", "b", "c", "d", "e", "move", "dir_2", "règle", "R", "x"]
WEIGHT_VALUES = {"1": Fraction(1), "2": Fraction(2), "3": Fraction(3), "0.5": Fraction(1, 2), ".25": Fraction(1, 4),
                 "10": Fraction(10), "1e-2": Fraction(1, 100), "0": Fraction(0), "0.0": Fraction(0),
                 "3.75": Fraction(15, 4), "07": Fraction(7), "2.50": Fraction(5, 2), "100": Fraction(100)}
WEIGHTS = sorted(WEIGHT_VALUES)


def weight_value(t):
    """value `atof(yytext+1)` gives for the weight text (only texts of the fixed pool are generated)"""
    return WEIGHT_VALUES[t]


MAX_STATES = 220      # bound on the number of FSG states the expansion of any rule creates
MAX_CLOSED_ARCS = 3000  # the closed FSG is compared when it has at most this many arcs (null closure is quadratic)


def first_defs(g):
    """(name, public, body) of the first definition of every rule name"""
    seen, out = set(), []
    for nm, pub, body in g["rules"]:
        if nm not in seen:
            seen.add(nm)
            out.append((nm, pub, body))
    return out


def expansion_size(g):
    """upper estimate of the states `expand_rule` creates for the most expensive top rule"""
    rules = {nm: body for nm, _, body in first_defs(g)}
    memo = {}

    def rule(nm, path):
        if nm not in rules or nm in path:
            return 1
        key = (nm, path)
        if key not in memo:
            memo[key] = 2 + alts(rules[nm], path | {nm})
        return memo[key]

    def alts(a, path):
        return sum(sum(exp(it[2], path) for it in s) for s in a)

    def exp(e, path):
        k = e[0]
        if k == "r":
            return rule(e[1], path)
        if k in ("G", "O"):
            return 3 + alts(e[1], path)
        if k in ("S", "P"):
            return 4 + 2 * exp(e[1], path)
        return 1
    return max(rule(nm, frozenset()) for nm in rules)


# Identifier lengths.  The property speaks about every grammar, so every identifier the check invents (grammar
# name, rule names, tokens, import names) draws its length from ONE distribution that contains, besides the usual
# short spellings, lengths beyond every customary fixed buffer (32, 64, 128, 256, 1024 bytes).  "typical" takes the
# hand-picked pools (quoting, UTF-8, keywords as words, ...).
LEN_CLASSES = [("1", 8), ("typical", 57), ("23-40", 20), ("100+", 9), ("300+", 5), ("1000+", 1)]
LEN_RANGE = {"1": (1, 1), "23-40": (23, 40), "100+": (100, 160), "300+": (300, 420), "1000+": (1030, 1100)}
TOKEN_CHARS = list("abcdefghijklmnopqrstuvwxyzABCXYZ0123456789") + list("'-_.!&#,:?%") + ["é", "ß", "日"]
NAME_CHARS = list("abcdefghijklmnopqrstuvwxyzABCXYZ0123456789_-") + ["é", "日"]
SEGMENTS = ["com", "sun", "speech", "app", "numbers", "org", "example", "acme", "navigation", "commands", "en", "v2",
            "grammars", "home", "dialogue", "x"]
GNAMES_TYPICAL = [("g", 40), ("turtle", 20), ("cmds_2", 10), ("com.example.cmds", 30)]
SPEC_GNAME = "com.sun.speech.app.numbers"      # the name used in the JSGF specification's own examples
LONG_GNAME = 24        # bytes; the evidence counts grammars whose name is at least this long ...
MIN_GENERATED = 2      # ... and that have at least this many generated rules (groups, optionals, star/plus)


def byte_len(s):
    return len(s.encode("utf-8", errors="surrogateescape"))


def len_class(n):
    """class of a measured identifier length in bytes (for the evidence)"""
    for lo, hi, nm in [(0, 1, "1"), (2, 22, "2-22"), (23, 40, "23-40"), (41, 99, "41-99"), (100, 299, "100-299"),
                       (300, 999, "300-999")]:
        if lo <= n <= hi:
            return nm
    return "1000+"


def n_generated_rules(g):
    """number of internal rules the parser defines for the grammar: one per group, optional, star, plus"""
    cnt = [0]

    def see(e):
        if e[0] in ("G", "O", "S", "P"):
            cnt[0] += 1
    for _, _, body in g["rules"]:
        walk_exps(body, see)
    return cnt[0]


def looks_generated(nm):
    return re.fullmatch(r"g[0-9]{5,}", nm) is not None


class Gen:
    def __init__(self, rng, stats):
        self.rng, self.stats = rng, stats

    def bump(self, key, sub):
        d = self.stats.setdefault(key, {})
        d[sub] = d.get(sub, 0) + 1

    # -- identifiers ------------------------------------------------------------------------------------------
    def draw_len(self):
        """-> (class, length in characters or None for "take the pool")"""
        cls = self.rng.weighted(LEN_CLASSES)
        if cls == "typical":
            return cls, None
        lo, hi = LEN_RANGE[cls]
        return cls, self.rng.range(lo, hi)

    def chars(self, alphabet, n):
        """n characters; a long identifier is a stem repeated (the stem is redrawn with probability 1/2, so that long
        identifiers of one grammar often share a long prefix) followed by 6 random characters"""
        r = self.rng
        if n <= 16:
            return "".join(r.choice(alphabet) for _ in range(n))
        if getattr(self, "stem", None) is None or any(ch not in alphabet for ch in self.stem) or r.chance(0.5):
            self.stem = "".join(r.choice(alphabet) for _ in range(r.range(3, 9)))
        body = (self.stem * (n // len(self.stem) + 1))[:n - 6]
        return body + "".join(r.choice(alphabet) for _ in range(6))

    def dotted(self, n):
        """package-style name of exactly n characters: segments joined by dots, no empty segment"""
        r = self.rng
        out = r.choice(SEGMENTS)
        while len(out) < n:
            out += "." + r.choice(SEGMENTS)
        out = out[:n]
        if out.endswith("."):
            out = out[:-1] + "x"
        return out

    def ident(self, kind, pooled, taken):
        """an identifier for one slot: the pool spelling `pooled` when the drawn class is "typical", else a generated
        one of the drawn length; never a spelling already in `taken`"""
        r = self.rng
        for _ in range(20):
            cls, n = self.draw_len()
            if n is None:
                s = pooled
            elif kind == "token":
                s = self.chars(TOKEN_CHARS, n)
            elif kind == "rule":
                s = self.chars(NAME_CHARS, n)
            else:   # grammar name, package of an import
                s = SPEC_GNAME if (cls == "23-40" and r.chance(0.25)) else \
                    self.dotted(n) if r.chance(0.75) else self.chars(NAME_CHARS, n)
            if s in taken or (kind == "rule" and (looks_generated(s) or s in ("NULL", "VOID", "undefined", "nowhere"))):
                continue
            return s
        return pooled

    def note_lengths(self, g):
        """measured length distribution (bytes) of every identifier of the grammar, per kind"""
        words, refs = set(), set()

        def see(e):
            if e[0] == "t":
                words.add(e[1])
            elif e[0] == "r":
                refs.add(e[1])
        for _, _, body in g["rules"]:
            walk_exps(body, see)
        L = self.stats.setdefault("identifier_lengths", {})
        for kind, xs in [("grammar name", [g["name"]]), ("rule name", {nm for nm, _, _ in g["rules"]} | refs),
                         ("token", words), ("import name", g.get("imports", []))]:
            d = L.setdefault(kind, {})
            for x in xs:
                n = byte_len(x)
                d[len_class(n)] = d.get(len_class(n), 0) + 1
                d["max"] = max(d.get("max", 0), n)
        ngen = n_generated_rules(g)
        nb = byte_len(g["name"])
        G = self.stats.setdefault("grammar_name_bytes_x_generated_rules", {})
        key = f"name {len_class(nb)} bytes, " + ("0" if ngen == 0 else "1" if ngen == 1 else f">={MIN_GENERATED}") + " generated rules"
        G[key] = G.get(key, 0) + 1
        if ngen >= MIN_GENERATED:
            for lim in (LONG_GNAME, 100, 300):
                if nb >= lim:
                    k = f"name >= {lim} bytes and >= {MIN_GENERATED} generated rules"
                    self.stats.setdefault("long_grammar_names", {})
                    self.stats["long_grammar_names"][k] = self.stats["long_grammar_names"].get(k, 0) + 1

    def atom(self, ctx, last):
        r = self.rng
        k = r.weighted([("t", 60), ("r", ctx["pref"]), ("n", ctx["pnull"]), ("v", ctx["pvoid"])])
        if k == "t":
            return ("t", r.choice(ctx["words"]))
        if k == "r":
            pool = ctx["refs_tail"] if last and ctx["refs_tail"] else ctx["refs"]
            if pool:
                return ("r", r.choice(pool))
            return ("t", r.choice(ctx["words"]))
        return (k,)

    def exp(self, ctx, depth, last):
        r = self.rng
        if depth <= 0 or r.chance(ctx.get("pstop", 0.45)):
            return self.atom(ctx, last)
        k = r.weighted([("G", 35), ("O", 25), ("S", 20), ("P", 20)])
        if k in ("G", "O"):
            return (k, self.alts(ctx, depth - 1, last))
        return (k, self.exp(ctx, depth - 1, False))

    def item(self, ctx, depth, last, weighted):
        r = self.rng
        w = None
        if weighted:
            w = r.choice(WEIGHTS)
        tags = []
        while r.chance(0.08):
            tags.append(r.choice(["tag", "a b", "x=1;", "\\}", "(", "ü", ""]))
        return (w, tags, self.exp(ctx, depth, last))

    def seq(self, ctx, depth, last, weighted):
        n = self.rng.weighted([(1, 40), (2, 35), (3, 20), (4, 5)] if not ctx.get("narrow") else [(1, 60), (2, 35), (3, 5)])
        # JSGF puts weights on alternatives (first item); the parser takes them in front of any item
        return [self.item(ctx, depth, last and i == n - 1,
                          (weighted and i == 0) or (i > 0 and ctx.get("anyweights") and self.rng.chance(0.3)))
                for i in range(n)]

    def alts(self, ctx, depth, last):
        r = self.rng
        n = r.weighted([(1, 45), (2, 35), (3, 15), (4, 5)] if not ctx.get("narrow") else [(1, 65), (2, 30), (3, 5)])
        mode = r.weighted([("none", 70), ("all", 22), ("some", 8)]) if n > 1 or r.chance(0.1) else "none"
        out = []
        for _ in range(n):
            weighted = mode == "all" or (mode == "some" and r.chance(0.5))
            out.append(self.seq(ctx, depth, last, weighted))
        return out

    def grammar(self):
        """a grammar whose expansion (one fresh instance per reference) stays below MAX_STATES states"""
        for _ in range(50):
            g, kind = self.grammar1()
            if expansion_size(g) <= MAX_STATES:
                break
            self.bump("regenerated", "expansion too large")
        self.bump("kind", kind)
        self.note_lengths(g)
        return g

    def grammar1(self):
        r = self.rng
        kind = r.weighted([("acyclic", 34), ("tail", 26), ("anyref", 16), ("hidden", 10), ("odd", 14)])
        nrules = r.weighted([(1, 20), (2, 30), (3, 25), (4, 15), (5, 10)])
        names = list(RULENAMES)
        r.shuffle(names)
        names = names[:nrules]
        for i in range(len(names)):
            names[i] = self.ident("rule", names[i], names[:i])
        words = list(WORDS)
        r.shuffle(words)
        words = words[:r.range(2, 4)]
        for i in range(len(words)):
            words[i] = self.ident("token", words[i], words[:i])
        maxdepth = r.weighted([(0, 8), (1, 16), (2, 22), (3, 20), (4, 14), (5, 10), (6, 10)])
        gname = self.ident("grammar", r.weighted(GNAMES_TYPICAL), [])
        anyweights = r.chance(0.2)
        if anyweights:
            self.bump("widened", "weights in front of later items")
        rules = []
        if kind == "hidden" and nrules >= 2:
            # non-tail recursion hidden behind a chain of tail references (D7 class), decorated
            chain = names[:r.range(2, nrules)]
            for i, nm in enumerate(chain):
                nxt = chain[(i + 1) % len(chain)]
                ctx = dict(words=words, refs=[], refs_tail=[], pref=0, pnull=3, pvoid=2)
                pre = self.seq(ctx, 1, False, False)
                if i == 0:
                    post = self.seq(ctx, 1, False, False) if r.chance(0.8) else []
                    body = [pre + [(None, [], ("r", nxt))] + post, self.seq(ctx, 1, False, False)]
                else:
                    body = [pre + [(None, [], ("r", nxt))]]
                    if r.chance(0.4):
                        body.append(self.seq(ctx, 1, False, False))
                if r.chance(0.5):
                    body.reverse()
                rules.append((nm, i == 0, body))
            for nm in names[len(chain):]:
                ctx = dict(words=words, refs=[], refs_tail=[], pref=0, pnull=3, pvoid=2)
                rules.append((nm, False, self.alts(ctx, 1, True)))
        else:
            for i, nm in enumerate(names):
                later = names[i + 1:]
                ctx = dict(words=words, pnull=r.choice([0, 4, 10]), pvoid=r.choice([0, 0, 3, 8]), pref=25,
                           pstop=0.45 if maxdepth < 4 else 0.15, narrow=maxdepth >= 4, anyweights=anyweights)
                if kind == "acyclic":
                    ctx.update(refs=later, refs_tail=later)
                elif kind == "tail":
                    ctx.update(refs=later, refs_tail=later + names[:i + 1] * 2)
                elif kind == "anyref":
                    ctx.update(refs=names, refs_tail=names)
                else:  # odd: undefined references, <VOID>/<NULL> heavy
                    ctx.update(refs=later + ["undefined", "nowhere"] if r.chance(0.5) else later,
                               refs_tail=later + names[:i + 1], pnull=12, pvoid=12)
                rules.append((nm, False, self.alts(ctx, maxdepth, True)))
        pubs = r.weighted([("first", 70), ("none", 8), ("several", 14), ("last", 8)])
        self.bump("public", pubs)
        out = []
        for i, (nm, _, body) in enumerate(rules):
            p = (pubs == "first" and i == 0) or (pubs == "last" and i == len(rules) - 1) or \
                (pubs == "several" and (i == 0 or r.chance(0.5)))
            out.append((nm, p, body))
        if r.chance(0.12):
            # a rule name defined twice: the table keeps the first definition
            self.bump("widened", "rule name defined twice")
            nm = r.choice(names)
            ctx = dict(words=words, refs=[], refs_tail=[], pref=0, pnull=3, pvoid=2)
            out.insert(r.below(len(out) + 1), (nm, r.chance(0.5), self.alts(ctx, 1, True)))
        g = {"name": gname, "rules": out}
        if r.chance(0.15):
            # imports resolve against nothing (no grammar file can be found): they have no effect
            self.bump("widened", "import statements")
            g["imports"] = [r.choice(["<lib.cmd>", "<a.b.c>", "<x.*>", "<" + gname + ".a>", "<solo>",
                                      "<" + self.ident("import", "lib", []) + r.choice([".cmd", ".*", "." + names[0]]) + ">"])
                            for _ in range(r.range(1, 2))]
        return g, kind


# ----------------------------------------------------------------------------
# printing to JSGF text

S_OPT, S_MUST, S_END, S_RULE = "\ue000", "\ue002", "\ue001", "\ue003"   # private-use marks around separators


def strip_marks(t):
    return t.replace(S_OPT, "").replace(S_MUST, "").replace(S_END, "").replace(S_RULE, "")


class Printer:
    """plain=True: canonical minimal text; otherwise random layout, comments, qualified references.
    `marked(g)` keeps marks around every separator and before every rule (used for shrinking the layout)."""

    def __init__(self, rng=None, plain=True, stats=None):
        self.rng, self.plain, self.stats = rng, plain or rng is None, stats

    def note(self, what):
        if self.stats is not None:
            self.stats["text_features"][what] = self.stats["text_features"].get(what, 0) + 1

    def sp(self, must=False):
        return (S_MUST if must else S_OPT) + self.sp1(must) + S_END

    def sp1(self, must):
        if self.plain:
            return " " if must else ""
        r = self.rng
        k = r.weighted([("one", 55), ("none", 20), ("many", 12), ("nl", 6), ("cc", 5), ("lc", 2)])
        if k == "none" and not must:
            return ""
        if k == "many":
            return r.choice(["  ", " \t ", "   "])
        if k == "nl":
            self.note("newline")
            return r.choice(["\n", "\r\n", "\n    "])
        if k == "cc":
            self.note("c-comment")
            return " /* " + r.choice(["note", "x | y ; <a> =", "* star *", "", "{ [ ("]) + " */ "
        if k == "lc":
            self.note("line-comment")
            return " // " + r.choice(["comment", "<a> = b;", "/* not nested"]) + "\n"
        return " "

    def exp(self, e, gname):
        k = e[0]
        if k == "t":
            return e[1]
        if k == "r":
            if not self.plain and self.rng.chance(0.15):
                self.note("qualified-reference")
                return f"<{gname}.{e[1]}>"
            return f"<{e[1]}>"
        if k == "n":
            return "<NULL>"
        if k == "v":
            return "<VOID>"
        if k == "G":
            return "(" + self.sp() + self.alts(e[1], gname) + self.sp() + ")"
        if k == "O":
            return "[" + self.sp() + self.alts(e[1], gname) + self.sp() + "]"
        return self.exp(e[1], gname) + self.sp() + ("*" if k == "S" else "+")

    def item(self, it, gname):
        w, tags, e = it
        s = ""
        if w is not None:
            s += "/" + w + "/" + self.sp()
        s += self.exp(e, gname)
        for t in tags:
            s += self.sp() + "{" + t + "}"
        return s

    def seq(self, s, gname):
        out = ""
        for i, it in enumerate(s):
            if i:
                out += self.sp(must=True)
            out += self.item(it, gname)
        return out

    def alts(self, a, gname):
        return (self.sp() + "|" + self.sp()).join(self.seq(s, gname) for s in a)

    def marked(self, g):
        gname = g["name"]
        if self.plain:
            head = "#JSGF V1.0;\ngrammar " + gname + ";\n"
        else:
            r = self.rng
            head = r.choice(["#JSGF V1.0;", "#JSGF V1.0 UTF-8;", "#JSGF V1.0 UTF-8 en;", "\ufeff#JSGF V1.0;", "#JSGF;"])
            head += self.sp(must=True)
            head += "grammar" + self.sp(must=True) + gname + self.sp() + ";" + self.sp(must=True)
        out = head
        for imp in g.get("imports", []):
            out += "import" + self.sp(must=True) + imp + self.sp() + ";" + self.sp(must=True)
        for nm, pub, body in g["rules"]:
            out += S_RULE + ("public" + self.sp(must=True) if pub else "") + f"<{nm}>" + self.sp() + "=" + self.sp() + \
                self.alts(body, gname) + self.sp() + ";" + self.sp(must=True)
        return out

    def grammar(self, g):
        return strip_marks(self.marked(g))


def layout_pieces(marked):
    """-> list of [kind, text], kind in txt / opt / must / rule"""
    out, i, cur = [], 0, ""
    while i < len(marked):
        ch = marked[i]
        if ch in (S_OPT, S_MUST):
            if cur:
                out.append(["txt", cur])
                cur = ""
            j = marked.index(S_END, i)
            out.append(["opt" if ch == S_OPT else "must", marked[i + 1:j]])
            i = j + 1
        elif ch == S_RULE:
            if cur:
                out.append(["txt", cur])
                cur = ""
            out.append(["rule", ""])
            i += 1
        else:
            cur += ch
            i += 1
    if cur:
        out.append(["txt", cur])
    return out


def render_pieces(pieces, keep):
    """separators whose index is not in `keep` are replaced by the plainest legal one"""
    out = ""
    for i, (k, t) in enumerate(pieces):
        if k == "txt":
            out += t
        elif k in ("opt", "must"):
            out += t if i in keep else ("" if k == "opt" else " ")
    return out


# ----------------------------------------------------------------------------
# encodings for harness and driver

def hx(s):
    b = s.encode("utf-8", errors="surrogateescape")
    return b.hex() if b else "-"


def unhx(h):
    """bytes -> str, one to one (bytes that are not UTF-8 become lone surrogates)"""
    return "" if h == "-" else bytes.fromhex(h).decode("utf-8", errors="surrogateescape")


def safe(o):
    """printable copy (lone surrogates written as escapes)"""
    if isinstance(o, str):
        return o.encode("utf-8", errors="backslashreplace").decode("utf-8")
    if isinstance(o, dict):
        return {safe(k): safe(v) for k, v in o.items()}
    if isinstance(o, (list, tuple)):
        return [safe(x) for x in o]
    return o


class Ids:
    def __init__(self, g):
        self.rule = {}
        for nm, _, _ in g["rules"]:
            self.rule.setdefault(nm, len(self.rule))
        self.word = {}
        for _, _, body in g["rules"]:
            walk_exps(body, self.see)

    def see(self, e):
        if e[0] == "t":
            self.word.setdefault(e[1], len(self.word))
        elif e[0] == "r":
            self.rule.setdefault(e[1], len(self.rule))


def driver_tokens(g, ids):
    def exp(e):
        k = e[0]
        if k == "t":
            return ["t", str(ids.word[e[1]])]
        if k == "r":
            return ["r", str(ids.rule[e[1]])]
        if k in ("n", "v"):
            return [k]
        if k in ("G", "O"):
            return [k] + alts(e[1])
        return [k] + exp(e[1])

    def alts(a):
        out = [str(len(a))]
        for s in a:
            out.append(str(len(s)))
            for w, tags, e in s:
                q = weight_value(w) if w is not None else Fraction(1)
                out += [str(q.numerator), str(q.denominator), str(len(tags))] + exp(e)
        return out
    toks = [str(len(g["rules"]))]
    for nm, pub, body in g["rules"]:
        toks += [str(ids.rule[nm]), "1" if pub else "0"] + alts(body)
    return toks


# ----------------------------------------------------------------------------
# parsing harness output

def parse_harness(out):
    """-> list of case dicts"""
    cases, cur = [], None
    for line in out.split("\n"):
        w = line.split(" ")
        if w[0] == "case":
            cur = {"id": w[1], "parse": None, "rules": {}, "fsg": [], "stack": [], "read": None, "done": False, "missing": []}
            cases.append(cur)
        elif cur is None:
            continue
        elif w[0] == "parse":
            cur["parse"] = (w[1] == "ok")
            cur["gname"] = unhx(w[2]) if len(w) > 2 else None
        elif w[0] == "rules":
            cur["cur_rules"] = w[1]
            cur["rules"][w[1]] = []
        elif w[0] == "rule":
            alts = []
            if w[3] != "-":
                for alt in w[3].split("|"):
                    atoms = []
                    if alt != "-":
                        for a in alt.split(","):
                            nm, wt, nt = a.split(":")
                            atoms.append((unhx(nm), float(wt), int(nt)))
                    alts.append(atoms)
            cur["rules"][cur["cur_rules"]].append((unhx(w[1]), w[2] == "1", alts))
        elif w[0] == "top":
            cur["missing"].append(unhx(w[1]))
        elif w[0] == "fsg":
            top, kind = unhx(w[1]), w[2]
            if len(w) < 4 or w[3] == "":
                cur["fsg"].append((top, kind, "crash"))
            elif w[3] == "null":
                cur["fsg"].append((top, kind, None))
            else:
                cur["fsg"].append((top, kind, parse_fsg_body(w[3:])))
        elif w[0] == "why" and len(w) == 6:
            cur.setdefault("why", {})[(unhx(w[1]), w[2])] = (w[3] == "1", w[4] == "1", w[5] == "1")
        elif w[0] == "stack":
            cur["stack"].append((unhx(w[1]), int(w[2])))
        elif w[0] == "read":
            if len(w) < 2 or w[1] == "":
                cur["read"] = "crash"
            elif w[1] == "null":
                cur["read"] = None
            else:
                cur["read"] = (unhx(w[1]), parse_fsg_body(w[2:]))
        elif w[0] == "end":
            cur["done"] = True
    return cases


def parse_fsg_body(w):
    n, st, fin, narcs = int(w[0]), int(w[1]), int(w[2]), int(w[3])
    arcs = []
    for a in w[4:4 + narcs]:
        f, t, lp, wd = a.split(":")
        arcs.append((int(f), int(t), int(lp), None if wd == "-" else unhx(wd)))
    return {"n": n, "start": st, "final": fin, "arcs": arcs}


# ----------------------------------------------------------------------------
# canonical rule tables

def canon_table(rules):
    """rules: {name: (pub, [[(atomkey, weight, ntags)]])} with names 'u<n>'/'g<k>'; renumber internal rules
    in order of first visit from the user rules (sorted), alternatives and atoms in stored order."""
    order, ren = [], {}

    def visit(nm):
        if nm not in rules or nm in order:
            return
        order.append(nm)
        for alt in rules[nm][1]:
            for a, _, _ in alt:
                if a.startswith("g") and a[1:].isdigit():
                    if a not in ren:
                        ren[a] = "G%d" % len(ren)
                    visit(a)
    for nm in sorted(k for k in rules if k.startswith("u")):
        visit(nm)
    for nm in sorted(rules):
        if nm not in order:
            ren.setdefault(nm, "X" + nm)
            order.append(nm)
    out = []
    for nm in order:
        pub, alts = rules[nm]
        out.append((ren.get(nm, nm), pub, [[(ren.get(a, a), w, t) for a, w, t in alt] for alt in alts]))
    return out


def c_rname(full, gname, ids):
    """full rule name of the C dump -> model naming (u<i> / g<k>), '?…' when it is neither"""
    inner = full[1:-1]
    if inner.startswith(gname + "."):
        inner = inner[len(gname) + 1:]
    if re.fullmatch(r"g[0-9]{5}", inner):
        return "g%d" % int(inner[1:])
    if inner in ids.rule:
        return "u%d" % ids.rule[inner]
    return "?" + full


def c_table(crules, gname, ids):
    """C dump -> {name: (pub, alts)} in model naming"""
    def rname(full):
        return c_rname(full, gname, ids)
    out = {}
    for nm, pub, alts in crules:
        al = []
        for alt in alts:
            at = []
            for a, w, t in alt:
                if a == "<NULL>":
                    k = "n"
                elif a == "<VOID>":
                    k = "v"
                elif a.startswith("<"):
                    k = rname(a)
                else:
                    k = "t%d" % ids.word[a] if a in ids.word else "?" + a
                at.append((k, w, t))
            al.append(at)
        out[rname(nm)] = (pub, al)
    return out


def m_table(line):
    """driver `table`/`ntable` line -> {name: (pub, alts)} with exact weights"""
    parts = line.split(" | ")[1:]
    out = {}
    for p in parts:
        if not p.strip():
            continue
        nm, pub, alts = p.split(" ")
        al = []
        if alts != "-":
            for alt in alts.split(";"):
                at = []
                if alt != "-":
                    for a in alt.split(","):
                        k, q, t = a.split(":")
                        num, den = q.split("/")
                        at.append((k, Fraction(int(num), int(den)), int(t)))
                al.append(at)
        out[nm] = (pub == "1", al)
    return out


def tables_equal(ct, mt, tol=2e-6, skip_unreachable=False):
    a, b = canon_table(ct), canon_table(mt)
    if skip_unreachable:
        # internal rules of a dropped (repeated) definition are never expanded, hence never normalised
        a = [x for x in a if not x[0].startswith("X")]
        b = [x for x in b if not x[0].startswith("X")]
    if len(a) != len(b):
        return False, f"{len(a)} rules in the implementation, {len(b)} in the model"
    for (n1, p1, al1), (n2, p2, al2) in zip(a, b):
        if n1 != n2 or p1 != p2 or len(al1) != len(al2):
            return False, f"rule {n1}/{n2}: name, public flag or number of alternatives differ"
        for x, y in zip(al1, al2):
            if len(x) != len(y):
                return False, f"rule {n1}: alternative lengths differ"
            for (k1, w1, t1), (k2, w2, t2) in zip(x, y):
                if k1 != k2 or t1 != t2:
                    return False, f"rule {n1}: atom {k1}/{k2} tags {t1}/{t2}"
                if abs(w1 - float(w2)) > tol * max(1.0, abs(float(w2))):
                    return False, f"rule {n1}: weight of {k1}: {w1} vs {float(w2)}"
    return True, ""


# ----------------------------------------------------------------------------
# running one batch

LOGBASE = math.log(1.0001)


def fsg_arcs_tokens(fsg, ids, extra_words):
    toks = []
    for f, t, lp, wd in fsg["arcs"]:
        if wd is None:
            toks.append(f"{f}:{t}:-")
        else:
            if wd not in ids.word:
                extra_words.setdefault(wd, 100000 + len(extra_words))
            toks.append(f"{f}:{t}:{ids.word.get(wd, extra_words.get(wd))}")
    return toks


def run_batch(binp, cases):
    """cases: list of (grammar, text).  Returns list of result dicts (implementation + model observations)."""
    lines = []
    for i, (g, text) in enumerate(cases):
        tops = ",".join(hx(f"<{g['name']}.{nm}>") for nm, _, _ in g["rules"])
        lines.append(f"case {i} {hx(text)} {tops or '-'}")
    results = [None] * len(cases)
    # builds of other working trees may have pruned the cached library: (re)build, this also refreshes its age
    binp = vlib.build_harness("h_c05")
    # the harness may die inside the library; restart after the failing case
    pos = 0
    hcases = []
    while pos < len(cases):
        rc, out, err = vlib.run_bin(binp, stdin_text="\n".join(lines[pos:]) + "\n", timeout=600,
                                    env_extra={"JSGF_PATH": "/nonexistent-verif-c05"})
        got = parse_harness(out)
        for hc in got:
            hc["rc"], hc["err"] = 0, ""
        if rc != 0 and got:
            got[-1]["rc"], got[-1]["err"] = rc, err[-3000:]
        elif rc != 0:
            got.append({"id": str(pos), "parse": None, "rules": {}, "fsg": [], "stack": [], "read": None,
                        "done": False, "rc": rc, "err": err[-3000:], "missing": []})
        hcases += got
        if not got:
            break
        pos += len(got)
    # driver
    dlines, plan, results_skip = [], [], []
    for i, (g, text) in enumerate(cases):
        hc = hcases[i] if i < len(hcases) else None
        ids = Ids(g)
        extra = {}
        dlines.append("gram " + " ".join(driver_tokens(g, ids)))
        plan.append((i, "table", None))
        dlines.append("norm")
        plan.append((i, "norm", None))
        for nm, _, _ in g["rules"]:
            dlines.append(f"rep u{ids.rule[nm]} {FUEL}")
            plan.append((i, "rep", nm))
            dlines.append(f"expand u{ids.rule[nm]}")
            plan.append((i, "expand", nm))
            dlines.append(f"graph u{ids.rule[nm]}")
            plan.append((i, "graph", nm))
        if hc:
            for top, kind, fsg in hc["fsg"]:
                if isinstance(fsg, dict):
                    nm = top[1 + len(g["name"]) + 1:-1]
                    if kind == "closed" and len(fsg["arcs"]) > MAX_CLOSED_ARCS:
                        results_skip.append((i, nm, kind))
                        continue
                    dlines.append(f"cmp u{ids.rule[nm]} {FUEL} {MAXPAIRS} {fsg['n']} {fsg['start']} {fsg['final']} " +
                                  " ".join(fsg_arcs_tokens(fsg, ids, extra)))
                    plan.append((i, "cmp", (nm, kind)))
            if isinstance(hc["read"], tuple):
                top, fsg = hc["read"]
                nm = top[1 + len(g["name"]) + 1:-1]
                if nm in ids.rule and len(fsg["arcs"]) > MAX_CLOSED_ARCS:
                    results_skip.append((i, nm, "read"))
                elif nm in ids.rule:
                    dlines.append(f"cmp u{ids.rule[nm]} {FUEL} {MAXPAIRS} {fsg['n']} {fsg['start']} {fsg['final']} " +
                                  " ".join(fsg_arcs_tokens(fsg, ids, extra)))
                    plan.append((i, "cmp", (nm, "read")))
            q = names_question(hc.get("gname") or g["name"], hc["rules"].get("parsed", []))
            if q:
                dlines.append(q)
                plan.append((i, "names", None))
            # jsgf_read_string against the model's readString: the table dump walks the hash table with the iterator
            # jsgf_read_string uses, so the dump order is the order in which it looks for a public rule
            ord_ = [c_rname(nm, hc.get("gname") or g["name"], ids) for nm, _, _ in hc["rules"].get("parsed", [])]
            ord_ = [x for x in ord_ if not x.startswith("?")]
            if ord_ and hc["parse"]:
                dlines.append("readtop " + ",".join(ord_))
                plan.append((i, "readtop", None))
        dlines.append(f"usernames {hx(g['name'])} " + ",".join(hx(f"<{g['name']}.{nm}>") for nm in ids.rule))
        plan.append((i, "usernames", None))
        results[i] = {"g": g, "text": text, "ids": ids, "h": hc, "m": {"rep": {}, "cmp": {}, "expand": {}, "graph": {}},
                      "extra_words": extra}
    rc, dout, derr = run_driver_retry("\n".join(dlines) + "\n")
    douts = dout.rstrip("\n").split("\n") if dout.strip() else []
    if rc != 0 or len(douts) != len(plan):
        raise DriverFailure(f"driver rc={rc}, {len(douts)} answers for {len(plan)} questions: {derr[-800:]}")
    for i, nm, kind in results_skip:
        results[i]["m"]["cmp"][(nm, kind)] = "skipped-size"
    for (i, what, arg), ans in zip(plan, douts):
        m = results[i]["m"]
        if what == "table":
            m["table_line"] = ans
        elif what == "norm":
            m["norm_line"] = ans
        elif what == "rep":
            m["rep"][arg] = ans
        elif what == "expand":
            m["expand"][arg] = ans
        elif what == "graph":
            m["graph"][arg] = ans
        elif what in ("names", "usernames", "readtop"):
            m[what] = ans
        else:
            m["cmp"][arg] = ans
    return results


class DriverFailure(Exception):
    pass


# the keys of jsgf->rules against the Lean model of the naming (`genName`, `userNamesOK`: Model/JsgfNames.lean, the
# objects of C05_generated_names_distinct / C05_rule_strings_injective)

def generated_counters(gname, crules):
    """counters of the table keys of generated shape `<gname.gDIGITS>` in a rule-table dump"""
    pre = "<" + gname + ".g"
    ks = []
    for nm, _, _ in crules:
        if nm.startswith(pre) and nm.endswith(">") and re.fullmatch(r"[0-9]+", nm[len(pre):-1]):
            ks.append(int(nm[len(pre):-1]))
    return ks


def names_question(gname, crules):
    ks = generated_counters(gname, crules)
    return f"names {hx(gname)} {','.join(map(str, ks))}" if ks else None


def names_problems(gname, crules, user_full, ans, n_model_generated):
    """every key of the dumped table must be the full name of a user rule or exactly the string the Lean `genName`
    gives for its counter; as many generated keys as the model has internal rules"""
    lean = set()
    if ans:
        w = ans.split(" ")
        if w[0] != "names" or len(w) != 2:
            return [("model: no answer to the names question: " + ans[:60], False, "")]
        lean = {unhx(x) for x in w[1].split(",")}
    probs = []
    odd = [nm for nm, _, _ in crules if nm not in user_full and nm not in lean]
    if odd:
        probs.append((f"symbol table key {safe(odd[0])[:120]!r} ({byte_len(odd[0])} bytes) is neither the full name of a user rule "
                      f"nor the name genName gives an internal rule of grammar {safe(gname)[:60]!r} ({len(odd)} such keys)", None, ""))
    ngen = sum(1 for nm, _, _ in crules if nm in lean and nm not in user_full)
    if n_model_generated is not None and ngen != n_model_generated:
        probs.append((f"symbol table key count: {ngen} internal rules under generated names in jsgf->rules, {n_model_generated} in "
                      f"desugar(g) (distinct internal rules entered under one key?)", None, ""))
    return probs


def run_driver_retry(text, timeout=1800):
    """the driver executable is relinked whenever anybody rebuilds the Lean project: wait for it"""
    import time
    last = None
    for _ in range(60):
        try:
            rc, out, err = vlib.run_driver("c05", text, timeout=timeout)
            if rc == 2 and "usage" in err:      # a driver linked without this sub-command (rebuild in progress)
                last = err
                time.sleep(3)
                continue
            return rc, out, err
        except OSError as e:
            last = e
            time.sleep(3)
    raise DriverFailure(f"driver executable not runnable: {last!r}")


# ----------------------------------------------------------------------------
# judging one case

def choice_point_sums(fsg):
    """states of the raw FSG with >= 2 outgoing arcs: sum of arc probabilities"""
    out = {}
    for f, t, lp, wd in fsg["arcs"]:
        out.setdefault(f, []).append(lp)
    res = []
    for st, lps in out.items():
        if len(lps) >= 2:
            res.append((st, sum(math.exp(lp * LOGBASE) for lp in lps), lps))
    return res


def mirror_diff(xs, fsg, ids, extra):
    """compare the driver's `xfsg` answer with a dumped raw FSG: states, and links as a map
    (from, to, word) -> probability (maximum over duplicates; null self-loops dropped, as fsg_model does)"""
    w = xs.split(" ")
    if w[0] != "xfsg":
        return "no answer from the mirror: " + xs[:40]
    if int(w[1]) != fsg["n"]:
        return f"{fsg['n']} states in the implementation, {w[1]} in the mirror"
    if fsg["start"] != 0 or fsg["final"] != 1:
        return f"start/final state {fsg['start']}/{fsg['final']} instead of 0/1"
    model = {}
    for a in w[3:3 + int(w[2])]:
        f, t, lab, q = a.split(":")
        num, den = q.split("/")
        p = int(num) / int(den)
        key = (int(f), int(t), None if lab == "-" else int(lab))
        if key[2] is None and key[0] == key[1]:
            continue
        model[key] = max(model.get(key, 0.0), p)
    impl = {}
    for f, t, lp, wd in fsg["arcs"]:
        wid = None if wd is None else ids.word.get(wd, extra.get(wd, -1))
        impl[(f, t, wid)] = math.exp(lp * LOGBASE) if lp > -10 ** 8 else 0.0
    if set(model) != set(impl):
        only_m = sorted(set(model) - set(impl), key=str)[:3]
        only_i = sorted(set(impl) - set(model), key=str)[:3]
        return f"links only in the mirror {only_m}, only in the implementation {only_i}"
    for k in model:
        if abs(model[k] - impl[k]) > 3e-4 * max(1.0, model[k]):
            return f"probability of link {k}: {impl[k]:.6f} vs {model[k]:.6f}"
    return None


def mass_may_vanish(g):
    """an alternative that starts with <VOID> gets no arc (its share of the probability mass is lost with it), and an
    alternative that is a lone rule reference may become a null self-loop / duplicate null arc that fsg_model drops:
    for such grammars the outgoing probabilities of a choice point are only bounded by one"""
    found = []

    def alts(a):
        for s in a:
            first = s[0][2]
            if first[0] == "v" or (len(s) == 1 and first[0] == "r"):
                found.append(1)
            for it in s:
                exp(it[2])

    def exp(e):
        if e[0] in ("G", "O"):
            alts(e[1])
        elif e[0] in ("S", "P"):
            if e[1][0] == "v":
                found.append(1)
            exp(e[1])
    for _, _, body in g["rules"]:
        alts(body)
    return bool(found)


GRAPH_FIELDS = ["gb", "okr", "closed", "wref", "undef", "usercycle", "nontail", "left", "mutual", "viainternal", "unreachbad"]


def parse_graph_answer(ans):
    w = ans.split(" ")
    if len(w) != 1 + len(GRAPH_FIELDS) or w[0] != "graph" or any(x not in ("0", "1") for x in w[1:]):
        return None
    return {k: x == "1" for k, x in zip(GRAPH_FIELDS, w[1:])}


def graph_kinds(f):
    """kinds of the reference graph below one top rule (from the flags the Lean driver computes on the desugared table);
    a top can be of several kinds"""
    out = []
    if f["undef"]:
        out.append("undefined rule reachable")
    if f["nontail"] and f["left"]:
        out.append("left recursion")
    if f["nontail"] and not f["left"]:
        out.append("middle / other non-tail recursion")
    if f["usercycle"] and not f["nontail"]:
        if f["mutual"]:
            out.append("mutual right recursion")
        if f["viainternal"]:
            out.append("right recursion through group / optional / Kleene")
        if not f["mutual"] and not f["viainternal"]:
            out.append("right recursion, direct")
    if f["nontail"] and not f["usercycle"]:
        out.append("non-tail cycle through internal rules only")
    if f["unreachbad"] and f["gb"]:
        out.append("unreachable bad rule, top accepted")
    if not out:
        out.append("no recursion through a user rule, all defined")
    return out


# minimum number of (grammar, top) pairs per kind in a quick run (thorough: ten times as many)
GRAPH_KIND_MIN_QUICK = {"undefined rule reachable": 30, "left recursion": 80, "middle / other non-tail recursion": 80,
                        "mutual right recursion": 15, "right recursion through group / optional / Kleene": 30,
                        "right recursion, direct": 40, "unreachable bad rule, top accepted": 70}
GRAPH_KINDS_REQUIRED = ["undefined rule reachable", "left recursion", "middle / other non-tail recursion", "mutual right recursion",
                        "right recursion through group / optional / Kleene", "right recursion, direct",
                        "unreachable bad rule, top accepted"]


def judge_case(res):
    """-> list of problems: (kind, impl_violates_property, detail)"""
    g, hc, m, ids = res["g"], res["h"], res["m"], res["ids"]
    probs = []
    names = [nm for nm, _, _ in g["rules"]]
    if hc is None:
        return [("harness produced nothing for the case", False, "")]
    if hc.get("rc"):
        probs.append(("the library crashed / exited / was stopped by a sanitizer", True,
                      {"exit_code": hc["rc"], "stderr_tail": sanitizer_summary(hc["err"])}))
    tl = m.get("table_line", "")
    if not tl.startswith("table 1 "):
        probs.append(("model: tableMatches(desugar g, g) is false", False, tl[:60]))
    if hc["parse"] is False:
        probs.append(("the real front end rejects a valid JSGF text", True, ""))
        return probs
    if hc["parse"] is None:
        return probs
    # (a) rule table
    try:
        ct = c_table(hc["rules"].get("parsed", []), hc["gname"] or g["name"], ids)
        ok, why = tables_equal(ct, m_table(tl))
    except Exception as e:  # malformed dump
        ok, why = False, f"cannot read the rule table dump: {e!r}"
    if not ok:
        probs.append(("rule table built by the real scanner/parser differs from desugar(g)", None, why))
    if hc["missing"]:
        probs.append(("a defined rule is missing from jsgf->rules", None, hc["missing"]))
    # (a') the keys of the table are the strings the naming model gives (no two abstract names under one key)
    if m.get("usernames") != "usernames 1":
        probs.append(("model: userNamesOK is false for the rule names of a generated grammar", False, m.get("usernames", "")[:40]))
    try:
        n_gen = sum(1 for k in m_table(tl) if k.startswith("g"))
    except Exception:
        n_gen = None
    gn = hc["gname"] or g["name"]
    probs += names_problems(gn, hc["rules"].get("parsed", []), {f"<{gn}.{nm}>" for nm in ids.rule}, m.get("names"), n_gen)
    res["names_compared"] = len(generated_counters(gn, hc["rules"].get("parsed", [])))
    # (b) accept/refuse and (c) language
    rep, lasthop = {}, {}
    for nm in names:
        w = m["rep"].get(nm, "").split(" ")
        rep[nm] = (len(w) >= 5 and w[1] == "1")
        lasthop[nm] = (len(w) >= 7 and w[6] == "1")
        if len(w) >= 5 and w[1] == "1" and w[4] == "none":
            probs.append((f"model: representable rule <{nm}> but the exploration found no closed finite set of forms "
                          f"within {FUEL}", False, ""))
    for top, kind, fsg in hc["fsg"]:
        nm = top[1 + len(g["name"]) + 1:-1]
        if fsg == "crash":
            continue
        if fsg is None:
            if rep.get(nm):
                probs.append((f"rule <{nm}> ({kind}) is representable (only right recursion, all rules defined) but the "
                              f"compiler refuses it", True, ""))
            continue
        if not rep.get(nm):
            if lasthop.get(nm):
                probs.append((f"rule <{nm}> ({kind}): non-tail recursion hidden behind a tail reference chain (every reference "
                              f"that closes a cycle is last in its own right-hand side, but a reference on the chain back to its "
                              f"target is not) — the compiler builds an FSG instead of refusing",
                              True, {"fsg": fsg_brief(fsg)}))
            else:
                probs.append((f"rule <{nm}> ({kind}) cannot be represented (undefined rule, or recursion that is not right "
                              f"recursion) but the compiler builds an FSG instead of refusing", True, {"fsg": fsg_brief(fsg)}))
            continue
        ans = m["cmp"].get((nm, kind), "")
        if ans == "equal" or ans == "skipped-size":
            pass
        elif ans.startswith("differ "):
            w = ans.split(" ")
            sent = words_of(w[1], ids, res["extra_words"])
            probs.append((f"rule <{nm}> ({kind} FSG): sentence {sent!r} is "
                          f"{'accepted' if w[2] == 'impl=1' else 'rejected'} by the FSG but "
                          f"{'in' if w[3] == 'spec=1' else 'not in'} the language of the JSGF rule",
                          True, {"sentence": sent, "fsg": fsg_brief(fsg)}))
        else:
            probs.append((f"language comparison for <{nm}> ({kind}) did not complete: {ans[:80]}", False, ""))
    # (b') the graph reading of "the compiler accepts" (C05_representable_iff_graph, C05_graph_decides): the executable graph
    # predicate representableGB must answer as the refusal test `representable` (the theorem, evaluated), and as the real
    # compiler (the tie); a refusal the model attributes to a weight above 1 only (D36, not part of the graph) is set apart
    gkinds = {}
    for nm in names:
        f = parse_graph_answer(m.get("graph", {}).get(nm, ""))
        if f is None:
            probs.append((f"model: no answer to the graph question for <{nm}>", False, m.get("graph", {}).get(nm, "")[:60]))
            continue
        gkinds[nm] = f
        if f["gb"] != f["okr"]:
            probs.append((f"model: representableGB (graph predicate, {f['gb']}) and representable (okRule, {f['okr']}) disagree on "
                          f"<{nm}> — contradicts C05_representable_iff_graph", False, m["graph"][nm]))
        if surface_graph_accepts(g, nm) != f["gb"]:
            probs.append((f"model: the graph predicate on the desugared table ({f['gb']}) and its reading on the surface grammar "
                          f"({not f['gb']}: tail position through nested groups/optionals, never under a Kleene operator) disagree on <{nm}>",
                          False, m["graph"][nm]))
        res["surface_graph_compared"] = res.get("surface_graph_compared", 0) + 1
        if not f["closed"]:
            probs.append((f"model: reachClosed is false for the table of <{nm}> — contradicts reachList_closed", False, ""))
    res["graph"] = gkinds
    for top, kind, fsg in hc["fsg"]:
        nm = top[1 + len(g["name"]) + 1:-1]
        if fsg == "crash" or nm not in gkinds:
            continue
        f = gkinds[nm]
        want = f["gb"] and not f["wref"]
        got = isinstance(fsg, dict)
        res["graph_tie_compared"] = res.get("graph_tie_compared", 0) + 1
        if not got and (top, kind) in hc.get("why", {}):
            # the two clauses of the graph predicate against the two refusal paths of expand_rhs: the compiler stops at the first
            # failure of its depth-first walk and prints exactly one of the two messages (or the weight message after a
            # successful expansion); an "undefined rule" message needs an undefined rule reachable in the graph, an
            # "only right-recursion" message needs a reference that is not last on a reachable cycle
            U, Rm, W = hc["why"][(top, kind)]
            res["refusal_messages_compared"] = res.get("refusal_messages_compared", 0) + 1
            bad = None
            if (1 if U else 0) + (1 if Rm else 0) + (1 if W else 0) != 1:
                bad = f"printed {'no' if not (U or Rm or W) else 'more than one'} refusal message"
            elif U and not f["undef"]:
                bad = "says 'Undefined rule in RHS' but no undefined rule is reachable from the top in the reference graph"
            elif Rm and not f["nontail"]:
                bad = "says 'Only right-recursion is permitted' but no reference that is not last lies on a reachable cycle of the reference graph"
            elif W and not f["wref"]:
                bad = "refuses for a weight although the model does not"
            if bad:
                probs.append((f"graph predicate and the real compiler disagree on <{nm}> ({kind}): the compiler refuses and {bad}",
                              None, {"messages": {"undefined": U, "recursion": Rm, "weight": W}, "graph": m["graph"][nm]}))
        if want != got:
            # when an FSG was built for a grammar the graph predicate rejects, the existing oracle above has already named the
            # violation (language not preserved / not refused); the disagreement itself is a broken tie
            probs.append((f"graph predicate and the real compiler disagree on <{nm}> ({kind}): the reference graph says "
                          f"{'accept' if want else 'refuse'}"
                          f"{' (undefined rule reachable)' if f['undef'] else ''}"
                          f"{' (reference that is not last lies on a cycle)' if f['nontail'] else ''}, the compiler "
                          f"{'builds an FSG' if got else 'refuses'}", None, m["graph"][nm]))
    # (c') the mirror of expand_rule: same states and links as the raw FSG (after fsg_model's merging of duplicate
    # links and dropping of null self-loops)
    for top, kind, fsg in hc["fsg"]:
        if kind != "raw" or fsg == "crash":
            continue
        nm = top[1 + len(g["name"]) + 1:-1]
        xs = m["expand"].get(nm, "")
        if fsg is None or xs == "xnone":
            if (fsg is None) != (xs == "xnone"):
                probs.append((f"mirror of expand_rule and the compiler disagree on refusing <{nm}>", None, xs[:40]))
            continue
        why = mirror_diff(xs, fsg, ids, res["extra_words"])
        res["mirror_compared"] = res.get("mirror_compared", 0) + 1
        if why:
            probs.append((f"raw FSG of <{nm}> differs from the mirror of expand_rule: {why}", None, ""))
    # (e) rule stack
    for top, depth in hc["stack"]:
        if depth != 0:
            probs.append((f"rule stack not empty after building {top} (depth {depth}): a later build is influenced",
                          None, ""))
    # (d) weights
    built_ok = all(isinstance(f, dict) for _, _, f in hc["fsg"]) and hc["fsg"]
    if built_ok and "built" in hc["rules"]:
        try:
            ct = c_table(hc["rules"]["built"], hc["gname"] or g["name"], ids)
            ok, why = tables_equal(ct, m_table(m.get("norm_line", "")), tol=1e-4, skip_unreachable=True)
        except Exception as e:
            ok, why = False, repr(e)
        if not ok:
            probs.append(("first-atom weights after the build differ from normaliseRule over Q", None, why))
    exact = not mass_may_vanish(g)
    res["sum_check"] = "exact" if exact else "upper bound only"
    for top, kind, fsg in hc["fsg"]:
        if kind == "raw" and isinstance(fsg, dict) and rep.get(top[1 + len(g["name"]) + 1:-1]):
            for st, total, lps in choice_point_sums(fsg):
                zero = all(lp < -10 ** 8 for lp in lps)
                tol = 2e-3 * len(lps)
                if total > 1.0 + tol or (exact and not zero and total < 1.0 - tol):
                    probs.append((f"choice point state {st} of the raw FSG of {top}: probabilities sum to {total:.5f}",
                                  None, {"logprobs": lps}))
    # (f) whole pipeline
    pubs = [nm for nm, p, _ in first_defs(g) if p]
    rd = hc["read"]
    # (f') exactly the model's readString (C05_read_string): first public rule in the table's iteration order
    rt = m.get("readtop", "").split(" ")
    if len(rt) == 3 and rt[0] == "readtop" and rd != "crash":
        inv = {"u%d" % v: k for k, v in ids.rule.items()}
        want = None if rt[2] != "1" else inv.get(rt[1])
        got = None if rd is None else rd[0][1 + len(g["name"]) + 1:-1]
        # C05_read_string holds for every order, and its two conclusions are evaluated on the implementation below for
        # whatever public rule it picked; agreement on WHICH public rule is measured, not demanded (the property does not
        # say which one is compiled)
        res["readtop_compared"] = 1 if want == got else 0
        res["readtop_other_choice"] = 0 if want == got else 1
    elif hc["parse"] and rd != "crash":
        probs.append(("model: no answer to the readtop question", False, m.get("readtop", "")[:40]))
    if rd == "crash":
        pass
    elif rd is None:
        if any(rep[nm] for nm in pubs) and all(rep[nm] for nm in pubs):
            probs.append(("jsgf_read_string refuses a grammar whose public rules are all representable", True, ""))
    else:
        top, fsg = rd
        nm = top[1 + len(g["name"]) + 1:-1]
        if not pubs:
            probs.append((f"no public rule, but jsgf_read_string compiles rule {top} instead of refusing", True,
                          {"fsg": fsg_brief(fsg)}))
        elif nm not in pubs:
            probs.append((f"jsgf_read_string compiles the non-public rule {top}", True, ""))
        elif not rep.get(nm):
            probs.append((f"jsgf_read_string compiles {top}, which cannot be represented, instead of refusing", True,
                          {"fsg": fsg_brief(fsg)}))
        else:
            ans = m["cmp"].get((nm, "read"), "")
            if ans.startswith("differ "):
                w = ans.split(" ")
                sent = words_of(w[1], ids, res["extra_words"])
                probs.append((f"jsgf_read_string, rule {top}: sentence {sent!r} is "
                              f"{'accepted' if w[2] == 'impl=1' else 'rejected'} by the FSG but "
                              f"{'in' if w[3] == 'spec=1' else 'not in'} the language of the JSGF rule", True,
                              {"sentence": sent}))
            elif ans not in ("equal", "skipped-size"):
                probs.append((f"language comparison for jsgf_read_string did not complete: {ans[:80]}", False, ""))
    return probs


def sanitizer_summary(err):
    keep = [l for l in err.split("\n") if any(k in l for k in ("ERROR", "SUMMARY", "runtime error", "FATAL", "Assertion", "    #"))]
    return "\n".join(keep[:14]) or err[-600:]


def words_of(s, ids, extra):
    if s == "-":
        return []
    inv = {v: k for k, v in ids.word.items()}
    inv.update({v: k for k, v in extra.items()})
    return [inv.get(int(x), "?" + x) for x in s.split(",")]


def fsg_brief(fsg):
    return {"n_state": fsg["n"], "start": fsg["start"], "final": fsg["final"],
            "arcs": [f"{f}->{t} {wd if wd is not None else 'eps'} {lp}" for f, t, lp, wd in fsg["arcs"][:60]]}


# ----------------------------------------------------------------------------
# shrinking a failing grammar

def shrink_candidates(g):
    """smaller grammars, most aggressive first; import statements are dropped first and otherwise kept"""
    if g.get("imports"):
        yield {"name": g["name"], "rules": g["rules"]}
        for k in range(len(g["imports"])):
            if len(g["imports"]) > 1:
                yield {"name": g["name"], "rules": g["rules"], "imports": g["imports"][:k] + g["imports"][k + 1:]}
        for cand in shrink_candidates1(g):
            cand["imports"] = g["imports"]
            yield cand
    else:
        yield from shrink_candidates1(g)


def shrink_candidates1(g):
    rules = g["rules"]
    # drop a rule
    for i in range(len(rules)):
        if len(rules) > 1:
            yield {"name": g["name"], "rules": rules[:i] + rules[i + 1:]}
    for i, (nm, pub, body) in enumerate(rules):
        for nb in shrink_alts(body):
            yield {"name": g["name"], "rules": rules[:i] + [(nm, pub, nb)] + rules[i + 1:]}
    # a long rule name: rename the rule (definitions and references) to a short unused name
    used = {nm for nm, _, _ in rules}

    def rename_exp(e, a, b):
        if e[0] == "r":
            return ("r", b) if e[1] == a else e
        if e[0] in ("G", "O"):
            return (e[0], rename_alts(e[1], a, b))
        if e[0] in ("S", "P"):
            return (e[0], rename_exp(e[1], a, b))
        return e

    def rename_alts(al, a, b):
        return [[(w, tags, rename_exp(e, a, b)) for w, tags, e in sq] for sq in al]
    refs = set()
    for _, _, body in rules:
        walk_exps(body, lambda e: refs.add(e[1]) if e[0] == "r" else None)
    for nm in sorted(used | refs, key=lambda x: -len(x)):
        if len(nm) > 2:
            short = next((x for x in "abcdefghijk" if x not in used and x not in refs), None)
            if short:
                yield {"name": g["name"], "rules": [(short if n == nm else n, p, rename_alts(b, nm, short)) for n, p, b in rules]}
    if g["name"] != "g":
        yield {"name": "g", "rules": rules}
        # the failure needs the name: shorten it (halve, then character by character from the end)
        nm = g["name"]
        for cut in (len(nm) // 2, len(nm) - 8, len(nm) - 1):
            if 1 <= cut < len(nm):
                short = nm[:cut].rstrip(".") or "g"
                if short != nm:
                    yield {"name": short, "rules": rules}


def shrink_alts(a):
    for i in range(len(a)):
        if len(a) > 1:
            yield a[:i] + a[i + 1:]
    for i, s in enumerate(a):
        for ns in shrink_seq(s):
            yield a[:i] + [ns] + a[i + 1:]


def shrink_seq(s):
    for i in range(len(s)):
        if len(s) > 1:
            yield s[:i] + s[i + 1:]
    for i, (w, tags, e) in enumerate(s):
        if w is not None:
            yield s[:i] + [(None, tags, e)] + s[i + 1:]
        if tags:
            yield s[:i] + [(w, [], e)] + s[i + 1:]
        for ne in shrink_exp(e):
            yield s[:i] + [(w, tags, ne)] + s[i + 1:]
        # splice a group's single alternative into the sequence
        if e[0] == "G" and len(e[1]) == 1:
            yield s[:i] + e[1][0] + s[i + 1:]


def shrink_exp(e):
    k = e[0]
    if k in ("S", "P"):
        yield e[1]
        for ne in shrink_exp(e[1]):
            yield (k, ne)
    elif k in ("G", "O"):
        if len(e[1]) == 1 and len(e[1][0]) == 1:
            yield e[1][0][0][2]
        if k == "O":
            yield ("G", e[1])
        for na in shrink_alts(e[1]):
            yield (k, na)
    elif k == "t" and e[1] != "x":
        yield ("t", "x")


def problem_class(p):
    """stable identifier of the kind of failure (used to keep the same failure while shrinking, to report one
    witness per kind, and as the key of a known finding)"""
    t = p[0]
    table = [("crashed", "crash-in-library"),
             ("front end rejects", "frontend-rejects-valid-text"),
             ("comments are not ignored", "comment-not-ignored"),
             ("text front end: the real scanner/parser", "front-end-accept-reject-differs"),
             ("text front end: grammar name", "front-end-grammar-name-differs"),
             ("text front end: rule table", "front-end-rule-table-differs"),
             ("no public rule, but jsgf_read_string", "read-string-no-public-rule"),
             ("jsgf_read_string compiles the non-public", "read-string-non-public-rule"),
             ("jsgf_read_string compiles", "read-string-not-refused"),
             ("jsgf_read_string refuses", "read-string-refuses-representable"),
             ("jsgf_read_string, rule", "read-string-language-differs"),
             ("hidden behind a tail reference chain", "hidden-non-tail-recursion-not-refused"),
             ("builds an FSG instead of refusing", "not-refused"),
             ("but the compiler refuses it", "refuses-representable"),
             ("but the compiler refuses", "refuses-representable"),
             ("the language of the JSGF rule", "language-differs"),
             ("symbol table key", "generated-name-differs"),
             ("rule table built by the real", "rule-table-differs"),
             ("graph predicate and the real compiler disagree", "graph-tie-broken"),
             ("mirror of expand_rule", "expansion-differs-from-mirror"),
             ("missing from jsgf->rules", "rule-missing"),
             ("rule stack not empty", "rule-stack-not-empty"),
             ("first-atom weights", "weights-differ"),
             ("choice point state", "probability-sum"),
             ("did not complete", "comparison-incomplete"),
             ("model:", "model-self-check")]
    for key, code in table:
        if key in t:
            return code
    return "other"


def finding_key(g, text, cls):
    """identifier of the witness class for known_findings.json (None when the failure is not of a nameable class)"""
    if cls == "hidden-non-tail-recursion-not-refused":
        return "non-tail recursion hidden behind a tail reference chain"
    if cls == "frontend-rejects-valid-text" and re.search(r"\n;", text):
        # the scanner's catch-all pattern `.|\n;` swallows a semicolon that directly follows a newline
        if still_fails(g, re.sub(r"\n;", "\n ;", text), cls) is None:
            return "semicolon directly after a newline"
    return None


def main_problem(probs):
    return sorted(probs, key=lambda p: (p[1] is not True, p[1] is False, problem_class(p)))[0]


def still_fails(g, text, cls):
    try:
        res = run_batch(None, [(g, text)])[0]
        probs = judge_case(res)
    except Exception:
        return None
    return (res, probs) if any(problem_class(p) == cls for p in probs) else None


def shrink(g, cls, budget=200):
    """greedy structural shrinking of the grammar under the plain rendering"""
    plain = Printer(plain=True)
    cur = g
    improved = True
    while improved and budget > 0:
        improved = False
        for cand in shrink_candidates(cur):
            if budget <= 0:
                break
            budget -= 1
            if still_fails(cand, plain.grammar(cand), cls):
                cur, improved = cand, True
                break
    return cur


def shrink_layout(g, marked, cls):
    """the failure needs the layout: find a minimal set of separators to keep, then drop rules"""
    pieces = layout_pieces(marked)
    seps = [i for i, (k, t) in enumerate(pieces) if k in ("opt", "must") and t not in ("", " ")]
    keep = vlib.ddmin(seps, lambda sub: still_fails(g, render_pieces(pieces, set(sub)), cls) is not None, max_tests=120)
    if not still_fails(g, render_pieces(pieces, set(keep)), cls):
        keep = seps
    keep = set(keep)
    # drop whole rules (text segment and AST rule together)
    starts = [i for i, (k, _) in enumerate(pieces) if k == "rule"]
    rules = list(g["rules"])
    segs = [(starts[j], starts[j + 1] if j + 1 < len(starts) else len(pieces)) for j in range(len(starts))]
    alive = list(range(len(rules)))
    for j in range(len(rules)):
        if len(alive) <= 1:
            break
        trial = [x for x in alive if x != j]
        g2 = {"name": g["name"], "rules": [rules[x] for x in trial]}
        text = render_pieces(pieces[:starts[0]], keep) if starts else ""
        for x in trial:
            a, b = segs[x]
            text += "".join(t if (k == "txt" or (a + n) in keep) else ("" if k == "opt" else " " if k == "must" else "")
                            for n, (k, t) in enumerate(pieces[a:b]))
        if still_fails(g2, text, cls):
            alive = trial
    g2 = {"name": g["name"], "rules": [rules[x] for x in alive]}
    text = render_pieces(pieces[:starts[0]], keep) if starts else ""
    for x in alive:
        a, b = segs[x]
        text += "".join(t if (k == "txt" or (a + n) in keep) else ("" if k == "opt" else " " if k == "must" else "")
                        for n, (k, t) in enumerate(pieces[a:b]))
    return g2, text


# ----------------------------------------------------------------------------
# text front end: arbitrary (valid, mutated, malformed) JSGF text through the real scanner/parser and through
# the Lean lexer + pushdown parser (`ssdriver c05 text`), then the whole pipeline on what was accepted

INTERNAL_RE = re.compile(r"^<(.*)\.g([0-9]{5})>$", re.S)


def has_dot_after1(name):
    return "." in name[1:]


def grammar_of(rule_full):
    """extract_grammar_name(rule->name) (untrusted mirror, used only to resolve the raw atom names of the C dump)"""
    copy = rule_full[1:]
    i = copy.rfind(".")
    return copy[:i] if i >= 1 else None


def full_ref(ctx, name):
    if has_dot_after1(name):
        return name
    return name if ctx is None else "<" + ctx + "." + name[1:]


def c_table_text(crules):
    """C dump -> {'r:<full>': (pub, [[(key, weight, ntags)]])}; raw atom names resolved as jsgf_fullname_from_rule does"""
    out = {}
    for nm, pub, alts in crules:
        ctx = grammar_of(nm)
        al = []
        for alt in alts:
            at = []
            for a, w, t in alt:
                if a == "<NULL>":
                    k = "n"
                elif a == "<VOID>":
                    k = "v"
                elif a.startswith("<"):
                    k = "r:" + full_ref(ctx, a)
                else:
                    k = "t:" + a
                at.append((k, w, t))
            al.append(at)
        out["r:" + nm] = (pub, al)
    return out


def m_table_text(line, gname, R, W):
    t = m_table(line)

    def nm(k):
        if k in ("n", "v"):
            return k
        if k[0] == "u":
            return "r:" + R[int(k[1:])]
        if k[0] == "g":
            return "r:<%s.g%05d>" % (gname, int(k[1:]))
        return "t:" + W[int(k[1:])]
    return {nm(k): (pub, [[(nm(a), w, tg) for a, w, tg in alt] for alt in alts]) for k, (pub, alts) in t.items()}


def canon_named(rules):
    """renumber internal rules (<grammar.gNNNNN>) in order of first visit from the user rules"""
    order, ren = [], {}

    def internal(k):
        return k.startswith("r:") and INTERNAL_RE.match(k[2:]) is not None

    def visit(nm):
        if nm not in rules or nm in order:
            return
        order.append(nm)
        for alt in rules[nm][1]:
            for a, _, _ in alt:
                if internal(a):
                    if a not in ren:
                        ren[a] = "G%d" % len(ren)
                    visit(a)
    for nm in sorted(k for k in rules if not internal(k)):
        visit(nm)
    for nm in sorted(rules):
        if nm not in order:
            ren.setdefault(nm, "X" + nm)
            order.append(nm)
    return [(ren.get(nm, nm), rules[nm][0], [[(ren.get(a, a), w, t) for a, w, t in alt] for alt in rules[nm][1]])
            for nm in order]


def tofloat(w):
    try:
        return float(w)
    except OverflowError:
        return float("inf")


def named_tables_equal(ct, mt, tol=3e-6):
    a, b = canon_named(ct), canon_named(mt)
    if len(a) != len(b):
        return False, f"{len(a)} rules in the implementation, {len(b)} in the model"
    for (n1, p1, al1), (n2, p2, al2) in zip(a, b):
        if n1 != n2 or p1 != p2 or len(al1) != len(al2):
            return False, f"rule {n1!r}/{n2!r}: name, public flag or number of alternatives differ"
        for x, y in zip(al1, al2):
            if len(x) != len(y):
                return False, f"rule {n1!r}: alternative lengths differ"
            for (k1, w1, t1), (k2, w2, t2) in zip(x, y):
                if k1 != k2 or t1 != t2:
                    return False, f"rule {n1!r}: atom {k1!r}/{k2!r} tags {t1}/{t2}"
                f2 = tofloat(w2)
                if not (w1 == f2 or abs(w1 - f2) <= tol * max(1.0, abs(f2))):
                    return False, f"rule {n1!r}: weight of {k1!r}: {w1} vs {f2}"
    return True, ""


MUT_PIECES = [";", "|", "(", ")", "[", "]", "*", "+", "=", "{t}", "{a\\}b}", "{", "}", "/2/", "/0.5/", "/1e-2/", "/", "//",
              "<x>", "<NULL>", "<VOID>", "<a>", "<g.a>", "<a.b>", "<", ">", "public", "grammar", "import <a.b>;",
              "import <c>;", "#JSGF", "x", "y", '"q r"', '"', "\\", "/* c */", "/*", "*/", "// c\n", "\n", " ", "\n;",
              "<a> = x;", "public <p> = <a> y;", "<a> = z;", "/3/", "/.5/", "/e-1/", "/1.5/ <a>", "x /2/ <a>", "x /0.5/ <NULL>",
              "(x /2/ (y))", "grammar h;", "#JSGF V1.0;"]
MUT_BYTES = [b";", b"|", b"(", b")", b"[", b"]", b"*", b"+", b"=", b"{", b"}", b"/", b"<", b">", b'"', b"\\", b"\n", b" ",
             b"\t", b"\r", b"#", b".", b"e", b"-", b"0", b"9", b"x", b"\xc3", b"\xef", b"\xbb", b"\xbf", b"\x01", b"\x7f", b"\xff"]


def mutate_text(rng, marked, stats):
    """token-level (pieces of the printer) and byte-level mutations of a valid text -> bytes"""
    pieces = [t for k, t in layout_pieces(marked) if k != "rule"]
    nm = rng.weighted([(1, 50), (2, 30), (3, 15), (5, 5)])
    kind = rng.weighted([("token", 55), ("byte", 35), ("both", 10)])
    stats["mutation_kind"][kind] = stats["mutation_kind"].get(kind, 0) + 1
    if kind in ("token", "both"):
        for _ in range(nm):
            op = rng.weighted([("delete", 25), ("insert", 40), ("dup", 10), ("swap", 10), ("replace", 15)])
            if not pieces:
                break
            i = rng.below(len(pieces))
            if op == "delete":
                del pieces[i]
            elif op == "insert":
                pieces.insert(i, rng.choice(MUT_PIECES) + rng.choice(["", " "]))
            elif op == "dup":
                pieces.insert(i, pieces[i])
            elif op == "swap" and i + 1 < len(pieces):
                pieces[i], pieces[i + 1] = pieces[i + 1], pieces[i]
            elif op == "replace":
                pieces[i] = rng.choice(MUT_PIECES)
    data = bytearray("".join(pieces).encode("utf-8"))
    if kind in ("byte", "both"):
        for _ in range(nm):
            op = rng.weighted([("delete", 30), ("insert", 35), ("replace", 25), ("truncate", 10)])
            if not data:
                break
            i = rng.below(len(data))
            if op == "delete":
                del data[i]
            elif op == "insert":
                data[i:i] = rng.choice(MUT_BYTES)
            elif op == "replace":
                data[i:i + 1] = rng.choice(MUT_BYTES)
            else:
                del data[i:]
    return bytes(data.replace(b"\x00", b" "))


class TextIds:
    """name tables of the model's parse (`tparse` answer)"""

    def __init__(self, R, W):
        self.R, self.W = R, W
        self.rule = {n: i for i, n in enumerate(R)}
        self.word = {w: i for i, w in enumerate(W)}


def run_text_batch(texts):
    """texts: list of bytes.  Real front end + builds of every user rule, Lean front end + model pipeline."""
    binp = vlib.build_harness("h_c05")
    lines = [f"case {i} {t.hex() or '-'} *" for i, t in enumerate(texts)]
    hcases, pos = [], 0
    while pos < len(texts):
        rc, out, err = vlib.run_bin(binp, stdin_text="\n".join(lines[pos:]) + "\n", timeout=900,
                                    env_extra={"JSGF_PATH": "/nonexistent-verif-c05"})
        got = parse_harness(out)
        for hc in got:
            hc["rc"], hc["err"] = 0, ""
        if rc != 0 and got:
            got[-1]["rc"], got[-1]["err"] = rc, err[-3000:]
        elif rc != 0:
            got.append({"id": str(pos), "parse": None, "rules": {}, "fsg": [], "stack": [], "read": None,
                        "done": False, "rc": rc, "err": err[-3000:], "missing": []})
        hcases += got
        if not got:
            break
        pos += len(got)
    # first driver pass: parse only (the name tables are needed to phrase the other questions)
    rc, dout, derr = run_driver_retry("\n".join(f"text {t.hex() or '-'}" for t in texts) + "\n")
    d1 = dout.rstrip("\n").split("\n") if dout.strip() else []
    if rc != 0 or len(d1) != len(texts):
        raise DriverFailure(f"driver (text) rc={rc}, {len(d1)} answers for {len(texts)} texts: {derr[-600:]}")
    results, dlines, plan = [], [], []
    for i, t in enumerate(texts):
        hc = hcases[i] if i < len(hcases) else None
        ans = d1[i]
        res = {"text": t, "h": hc, "m_parse": ans, "ids": None, "rep": {}, "expand": {}, "cmp": {}, "graph": {}, "extra_words": {}}
        results.append(res)
        if not ans.startswith("tparse "):
            continue
        head, _, _ = ans.partition(" | ")
        w = head.split(" ")
        gname = unhx(w[1])
        R = [unhx(x) for x in w[2][2:].split(",")] if len(w[2]) > 2 else []
        W = [unhx(x) for x in w[3][2:].split(",")] if len(w[3]) > 2 else []
        ids = TextIds(R, W)
        res["ids"], res["gname"] = ids, gname
        if hc is None or not hc.get("parse"):
            continue
        dlines.append(f"text {t.hex() or '-'}")
        plan.append((i, "text", None))
        q = names_question(gname, hc["rules"].get("parsed", []))
        if q:
            dlines.append(q)
            plan.append((i, "names", None))
        for top, kind, fsg in hc["fsg"]:
            if kind != "raw" or top not in ids.rule:
                continue
            u = ids.rule[top]
            dlines.append(f"rep u{u} {FUEL}")
            plan.append((i, "rep", top))
            dlines.append(f"expand u{u}")
            plan.append((i, "expand", top))
            dlines.append(f"graph u{u}")
            plan.append((i, "graph", top))
        for top, kind, fsg in hc["fsg"]:
            if isinstance(fsg, dict) and top in ids.rule:
                if kind == "closed" and len(fsg["arcs"]) > MAX_CLOSED_ARCS:
                    res["cmp"][(top, kind)] = "skipped-size"
                    continue
                if fsg["n"] > 4 * MAX_STATES:
                    res["cmp"][(top, kind)] = "skipped-size"
                    continue
                dlines.append(f"cmp u{ids.rule[top]} {FUEL} {MAXPAIRS} {fsg['n']} {fsg['start']} {fsg['final']} " +
                              " ".join(fsg_arcs_tokens(fsg, ids, res["extra_words"])))
                plan.append((i, "cmp", (top, kind)))
    if dlines:
        rc, dout, derr = run_driver_retry("\n".join(dlines) + "\n")
        d2 = dout.rstrip("\n").split("\n") if dout.strip() else []
        if rc != 0 or len(d2) != len(plan):
            raise DriverFailure(f"driver rc={rc}, {len(d2)} answers for {len(plan)} questions: {derr[-600:]}")
        for (i, what, arg), ans in zip(plan, d2):
            if what == "names":
                results[i]["names"] = ans
            elif what != "text":
                results[i][what][arg] = ans
    return results


def judge_text(res):
    """problems of one text case: (what, implementation_violates_property, detail)"""
    hc, ans = res["h"], res["m_parse"]
    probs = []
    if hc is None:
        return [("harness produced nothing for the case", False, "")]
    if hc.get("rc"):
        probs.append(("the library crashed / exited / was stopped by a sanitizer", True,
                      {"exit_code": hc["rc"], "stderr_tail": sanitizer_summary(hc["err"])}))
    if hc["parse"] is None:
        return probs
    m_ok = ans.startswith("tparse ")
    if hc["parse"] != m_ok:
        probs.append((f"text front end: the real scanner/parser {'accepts' if hc['parse'] else 'rejects'} the text, the Lean "
                      f"lexer/parser {'accepts' if m_ok else 'rejects'} it", None, ""))
        return probs
    if not m_ok:
        return probs
    ids, gname = res["ids"], res["gname"]
    if (hc.get("gname") or "") != gname:
        probs.append((f"text front end: grammar name {hc.get('gname')!r} vs {gname!r}", None, ""))
    try:
        ct = c_table_text(hc["rules"].get("parsed", []))
        mt = m_table_text(ans, gname, ids.R, ids.W)
        ok, why = named_tables_equal(ct, mt)
    except Exception as e:
        ok, why = False, f"cannot compare the rule tables: {e!r}"
    if not ok:
        probs.append(("text front end: rule table built by the real scanner/parser differs from the Lean parse + desugar", None, why))
    head = ans.partition(" | ")[0].split(" ")
    res["user_names_ok"] = "K=1" in head
    try:
        n_gen = sum(1 for k in m_table(ans) if k.startswith("g"))
    except Exception:
        n_gen = None
    crules = hc["rules"].get("parsed", [])
    probs += names_problems(gname, crules, set(ids.R), res.get("names"), n_gen if res["user_names_ok"] else None)
    res["names_compared"] = len(generated_counters(gname, crules))
    if not ok:
        return probs
    rep = {}
    for top, a in res["rep"].items():
        w = a.split(" ")
        rep[top] = len(w) >= 5 and w[1] == "1"
        if rep[top] and w[4] == "none":
            probs.append((f"model: rule {top} builds but the exploration found no closed finite set of forms", False, ""))
    # the graph reading of accept/refuse (as in judge_case (b')), on the table the Lean front end parsed from the text
    for top, kind, fsg in hc["fsg"]:
        if fsg == "crash" or top not in ids.rule:
            continue
        f = parse_graph_answer(res["graph"].get(top, ""))
        if f is None:
            probs.append((f"model: no answer to the graph question for {top}", False, res["graph"].get(top, "")[:60]))
            continue
        if f["gb"] != f["okr"] or not f["closed"]:
            probs.append((f"model: representableGB and representable (okRule) disagree on {top} — contradicts "
                          f"C05_representable_iff_graph", False, res["graph"][top]))
        res["graph_tie_compared"] = res.get("graph_tie_compared", 0) + 1
        if (f["gb"] and not f["wref"]) != isinstance(fsg, dict):
            probs.append((f"graph predicate and the real compiler disagree on {top} ({kind}): the reference graph says "
                          f"{'accept' if f['gb'] and not f['wref'] else 'refuse'}, the compiler "
                          f"{'builds an FSG' if isinstance(fsg, dict) else 'refuses'}", None, res["graph"][top]))
    for top, kind, fsg in hc["fsg"]:
        if fsg == "crash" or top not in ids.rule:
            continue
        if fsg is None:
            if rep.get(top):
                probs.append((f"rule {top} ({kind}) is representable but the compiler refuses it", True, ""))
            continue
        if not rep.get(top):
            probs.append((f"rule {top} ({kind}) cannot be represented but the compiler builds an FSG instead of refusing", True,
                          {"fsg": fsg_brief(fsg)}))
            continue
        if kind == "raw":
            why = mirror_diff(res["expand"].get(top, ""), fsg, ids, res["extra_words"])
            res["mirror_compared"] = res.get("mirror_compared", 0) + 1
            if why:
                probs.append((f"raw FSG of {top} differs from the mirror of expand_rule: {why}", None, ""))
        a = res["cmp"].get((top, kind), "")
        if a.startswith("differ "):
            w = a.split(" ")
            sent = words_of(w[1], ids, res["extra_words"])
            probs.append((f"rule {top} ({kind} FSG): sentence {sent!r} is {'accepted' if w[2] == 'impl=1' else 'rejected'} by the "
                          f"FSG but {'in' if w[3] == 'spec=1' else 'not in'} the language of the JSGF rule", True,
                          {"sentence": sent, "fsg": fsg_brief(fsg)}))
        elif a not in ("equal", "skipped-size"):
            probs.append((f"language comparison for {top} ({kind}) did not complete: {a[:80]}", False, ""))
    for top, depth in hc["stack"]:
        if depth != 0:
            probs.append((f"rule stack not empty after building {top} (depth {depth}): a later build is influenced", None, ""))
    return [(safe(a), b, safe(d)) for a, b, d in probs]


def text_stream(c, gen, stats, ntexts, failed, fail_count, machinery):
    """valid random-layout texts, their mutations, and hand-written odd texts"""
    rng = c.rng
    batch, labels = [], []
    st = stats.setdefault("text_stream", {"texts": 0, "accepted_by_both": 0, "rejected_by_both": 0, "built": 0,
                                          "refused": 0, "comparisons": 0})
    stats.setdefault("mutation_kind", {})

    def flush():
        if not batch:
            return
        try:
            results = run_text_batch(batch)
        except DriverFailure as e:
            machinery.append(str(e))
            batch.clear()
            labels.clear()
            return
        for res, lab in zip(results, labels):
            st["texts"] += 1
            probs = judge_text(res)
            hc = res["h"] or {}
            if lab.startswith("text written by the Lean") and hc.get("parse") is False:
                probs.append(("the real front end rejects a valid JSGF text (written by the Lean pretty-printer)", True, ""))
            if hc.get("parse") is True and res["m_parse"].startswith("tparse "):
                st["accepted_by_both"] += 1
            elif hc.get("parse") is False and not res["m_parse"].startswith("tparse "):
                st["rejected_by_both"] += 1
            for _, _, f in hc.get("fsg", []):
                st["built" if isinstance(f, dict) else "refused"] += 1
            st["comparisons"] += sum(1 for v in res["cmp"].values() if v == "equal")
            stats["mirror_compared"] = stats.get("mirror_compared", 0) + res.get("mirror_compared", 0)
            stats["names_compared"] = stats.get("names_compared", 0) + res.get("names_compared", 0)
            st["graph_predicate_vs_compiler_compared"] = st.get("graph_predicate_vs_compiler_compared", 0) + res.get("graph_tie_compared", 0)
            if res.get("user_names_ok") is False:
                st["user_name_of_generated_shape"] = st.get("user_name_of_generated_shape", 0) + 1
            if probs:
                key = text_finding_key(res)
                cls = "text: " + problem_class(main_problem(probs)) + (" [" + key + "]" if key else "")
                fail_count[cls] = fail_count.get(cls, 0) + 1
                if cls not in failed:
                    failed[cls] = (res, probs, None, lab)
        batch.clear()
        labels.clear()
    for t in HAND_TEXTS:
        batch.append(t.encode("utf-8") if isinstance(t, str) else t)
        labels.append("hand-written text")
    printed_q = []
    for i in range(ntexts):
        g = gen.grammar()
        marked = Printer(rng, plain=rng.chance(0.2), stats=None).marked(g)
        if i % 6 == 0:
            printed_q.append(g)
            if len(printed_q) >= 40 or i >= ntexts - 6:
                # texts written by the Lean pretty-printer (the object of C05_parse_print)
                rc, dout, derr = run_driver_retry("\n".join("print " + " ".join(driver_tokens(x, Ids(x))) for x in printed_q) + "\n")
                for line in dout.rstrip("\n").split("\n"):
                    w = line.split(" ")
                    if len(w) == 4 and w[0] == "printed":
                        st["lean_printed"] = st.get("lean_printed", 0) + 1
                        if w[1] != "1" or w[2] != "1":
                            machinery.append("Lean printer: side conditions or dynamic round trip failed: " + line[:200])
                        batch.append(bytes.fromhex(w[3]))
                        labels.append("text written by the Lean pretty-printer")
                    else:
                        machinery.append("Lean printer gave no text: " + line[:100])
                printed_q = []
        if rng.chance(0.25):
            batch.append(strip_marks(marked).encode("utf-8"))
            labels.append("valid text")
        else:
            batch.append(mutate_text(rng, marked, stats))
            labels.append("mutated text")
        if len(batch) >= 250:
            flush()
            if sum(v for k, v in fail_count.items() if k.startswith("text: ")) >= 40:
                break
    flush()


HAND_TEXTS = [
    "#JSGF V1.0; grammar g; public <a> = x; // public <b> = y;", "#JSGF V1.0; grammar g; public <a> = x; // the public rule",
    "#JSGF V1.0; grammar g; public <a> = x // y\n | z //\n ; //", "#JSGF V1.0; grammar g; public <a> = x //", "#JSGF V1.0; grammar g; public <a> = // /2/ \n /3/ x ;",
    "", "#JSGF V1.0;", "#JSGF V1.0; grammar g;", "#JSGF V1.0; grammar g; import <a.b>;", "#JSGF V1.0; grammar g; import <a.b>; <a> = x;",
    "#JSGF V1.0; grammar g; <a> = x; import <a.b>;", "#JSGF V1.0 a b c; grammar g; <a> = x;", "#JSGF V1.0 a b c d; grammar g; <a> = x;",
    "#JSGF; grammar g; public <a> = x", "#JSGF; grammar g; public <a> = ;", "#JSGF; grammar g; public <a> = x | ;",
    "#JSGF; grammar g; public <a> = ( ) ;", "#JSGF; grammar g; public <a> = x {t} * ;", "#JSGF; grammar g; public <a> = x * {t} {u} + ;",
    "#JSGF; grammar g; public <a> = /2/ /3/ x ;", "#JSGF; grammar g; public <a> = /2/ {t} x ;", "#JSGF; grammar g; public <a> = /2/ ( x | y ) * ;",
    "#JSGF; grammar g; public <a> = x /2/ y ;", "#JSGF; grammar g; public <a> = x /2/ <b> ; <b> = y;", "#JSGF; grammar g; public <a> = x /0.5/ <b> /0.25/ <NULL> ; <b> = y;",
    "#JSGF; grammar g; public <a> = x ; <a> = y ; <b> = <a> ;", "#JSGF; grammar g; <a> = (x) ; <a> = (y) (z) ; public <b> = <a> (w) ;",
    "#JSGF; grammar g; public <a> = <g.b> <b> <x.b> ; <b> = y ; <x.b> = z ;", "#JSGF; grammar g; public <x.a> = <b> (<b>) <b>* ; <b> = y ; <x.b> = z ;",
    "#JSGF; grammar a.b; public <c> = <d> ; <d> = y ;", "#JSGF; grammar g; public <.a> = <b> ; <b> = y ;",
    "#JSGF; grammar g; public <a> = \"x y\" \"x\\\" z\" \"u\\\\\" v\" w ;", "#JSGF; grammar g; public <a> = x\"y z\" ;", "#JSGF; grammar g; public <a> = \"unterminated ;",
    "#JSGF; grammar g; public <a> = x {a\\}b} {c} {d\\\\} e} ;", "#JSGF; grammar g; public <a> = x {unterminated ;", "#JSGF; grammar g; public <a> = x } ;",
    "#JSGF; grammar g; public <a> = x /* c */ y // d\n z ;", "#JSGF; grammar g; public <a> = x // no newline at the end ;", "#JSGF; grammar g; /* c ; */ public <a> = x ; // e",
    "#JSGF; grammar g; public <a> = x /* unterminated ;", "#JSGF; grammar g; public <a> = x //;\n;", "#JSGF; grammar g; public <a> = x /**/ y /***/ z ;",
    "junk #JSGF; more junk grammar g; 123 public <a> = x ; trailing junk", "#JSGF; grammarg; public<a>=x;", "#JSGF; grammar g; publicx <a> = x ;",
    "#JSGF; grammar g; public <a\nb> = <a\nb> x | y ;", "#JSGF; grammar g; public <a> = <> x ;", "#JSGF; grammar g; public <a> = < x ;", "#JSGF; grammar g; public <a> = x > ;",
    "#JSGF; grammar g; public <a> = /1.5e-1/ x | /e-1/ y | // z\n /5e-/ w | /.5/ v | /5./ u ;", "#JSGF; grammar g; public <a> = /1.2.3/ x ;", "#JSGF; grammar g; public <a> = /12 x ;",
    "#JSGF; grammar g; public <a> = x\n; <b> = y\r\n;\n", "﻿#JSGF V1.0; grammar g; public <a> = x;", "﻿ #JSGF V1.0; grammar g; public <a> = x;",
    "#JSGF; #JSGF; grammar g; public <a> = x;", "#JSGF; grammar g; grammar h; public <a> = x;", "#JSGF; grammar g; public public <a> = x;",
    "#JSGF; grammar g; public <a> = x = y ;", "#JSGF; grammar g; public <a> = [ x ) ;", "#JSGF; grammar g; public <a> = ( x ] ;", "#JSGF; grammar g; public <a> = (( x ) ;",
    "#JSGF; grammar g; public <a> = [ [ x ]* ]+ ( ( y ) ) ;", "#JSGF; grammar g; public <a> = * x ;", "#JSGF; grammar g; public <a> = x | * ;",
    "#JSGF; grammar g; public <a> = <NULL> <VOID> <NULL>* <VOID>+ [<NULL>] ;", "#JSGF; grammar g; public <a> = grammar import public #JSGF ;",
    "#JSGF; grammar \"q r\"; public <a> = x;", "#JSGF; grammar <g>; public <a> = x;", "#JSGF; grammar g h; public <a> = x;",
]


# ----------------------------------------------------------------------------
# the check

def report(c, res, probs, label, marked=None, do_shrink=True):
    """record the obligation failure and the violation for one failing case (shrunk when possible)"""
    g, text = res["g"], res["text"]
    cls = problem_class(main_problem(probs))
    if do_shrink:
        try:
            plain_text = Printer(plain=True).grammar(g)
            if still_fails(g, plain_text, cls):
                small = shrink(g, cls)
                got = still_fails(small, Printer(plain=True).grammar(small), cls)
                if got:
                    res, probs = got
            elif marked is not None:
                g2, t2 = shrink_layout(g, marked, cls)
                got = still_fails(g2, t2, cls)
                if got:
                    res, probs = got
        except DriverFailure:
            pass
    g, text = res["g"], res["text"]
    main = ([p for p in probs if problem_class(p) == cls] or [main_problem(probs)])[0]
    impl = main[1] is True or any(p[1] is True for p in probs)
    key = finding_key(g, text, cls)
    if key and any(kf.get("property") == c.prop and kf.get("status", "open") == "open" and kf.get("key") == key
                   for kf in vlib.known_findings()):
        c.violation({}, impl, finding_key=key)
        return True
    # problems with impl = None (table / weights / stack / probability differences) are correspondence failures:
    # the implementation deviates from the model; only language / refusal / crash / rejection differences are
    # counted as the implementation breaking the property on this input.
    c.oblige(f"correspondence model = implementation ({label}; {problem_class(main)})", False,
             {"problems": [p[0] for p in probs][:6], "jsgf": text})
    hc = res["h"] or {}
    c.violation({"kind": "JSGF grammar", "failure_class": problem_class(main), "what": main[0],
                 "jsgf_text": text, "grammar": g,
                 "problems": [{"class": problem_class(p), "what": p[0], "implementation_violates_property": p[1],
                               "detail": p[2]} for p in probs],
                 "implementation": {"parse": hc.get("parse"),
                                    "built": [(t, k, "FSG" if isinstance(f, dict) else f) for t, k, f in hc.get("fsg", [])],
                                    "rule_stack_depth_after_build": hc.get("stack"),
                                    "jsgf_read_string": "FSG of " + hc["read"][0] if isinstance(hc.get("read"), tuple) else hc.get("read")},
                 "model": {"representable": res["m"]["rep"], "comparison": {f"{k[0]}/{k[1]}": v for k, v in res["m"]["cmp"].items()}},
                 "implementation_violates_property": impl,
                 "finding_key": key,
                 "how_to_rerun": "python3 tools/check.py C05 --replay <this file>"}, impl, tag=problem_class(main),
                finding_key=key)
    return False


def comment_oracle(text):
    """implementation against itself: a final `// …` comment without newline must change nothing.  Returns a
    description when removing that comment changes what the real front end builds, else None.  Only used for
    texts where the `//` certainly starts a comment (no quote or tag before it, not inside `<…>`)."""
    if b"\n" in text[text.rfind(b"//"):] or b"//" not in text:
        return None
    i = text.rfind(b"//")
    pre = text[:i]
    if b'"' in pre or b"{" in pre or b"/" in pre.replace(b"*/", b"").replace(b"/*", b""):
        return None
    if pre.rfind(b"<") > pre.rfind(b">"):
        return None
    if not (pre == b"" or pre[-1:] in b" \t\n;"):
        return None
    a, b = run_text_batch([text, pre + b"\n"])
    ha, hb = a["h"], b["h"]
    if ha is None or hb is None:
        return None
    ta = (ha["parse"], sorted((n, p, str(al)) for n, p, al in ha["rules"].get("parsed", [])))
    tb = (hb["parse"], sorted((n, p, str(al)) for n, p, al in hb["rules"].get("parsed", [])))
    if ta != tb:
        return ("removing the final `//` comment changes what the real front end builds: with the comment "
                f"parse={ha['parse']} rules={[x[0] for x in ta[1]]}, without it parse={hb['parse']} rules={[x[0] for x in tb[1]]}")
    return None


TEXT_KEY_EOF_COMMENT = "line comment at end of input without newline"


def text_finding_key(res):
    """the failure needs a `//` on a last line without newline, and disappears when the newline is added"""
    t = res["text"]
    last = t[t.rfind(b"\n") + 1:]
    if b"//" not in last:
        return None
    try:
        r2 = run_text_batch([t + b"\n"])[0]
        return TEXT_KEY_EOF_COMMENT if not judge_text(r2) else None
    except Exception:
        return None


def report_text(c, res, probs, label):
    """violation report for a text case, shrunk byte-wise"""
    cls = problem_class(main_problem(probs))

    def fails(bs):
        try:
            r = run_text_batch([bytes(bs)])[0]
            return any(problem_class(p) == cls for p in judge_text(r))
        except Exception:
            return False
    data = list(res["text"])
    try:
        small = vlib.ddmin(data, fails, max_tests=220)
        r2 = run_text_batch([bytes(small)])[0]
        p2 = judge_text(r2)
        if any(problem_class(p) == cls for p in p2):
            res, probs = r2, p2
    except DriverFailure:
        pass
    try:
        why = comment_oracle(res["text"])
    except DriverFailure:
        why = None
    if why:
        probs = probs + [("comments are not ignored: " + why, True, "")]
    main = ([p for p in probs if problem_class(p) == cls] or [main_problem(probs)])[0]
    impl = any(p[1] is True for p in probs)
    text = res["text"]
    hc = res["h"] or {}
    key = text_finding_key(res)
    if key and any(kf.get("property") == c.prop and kf.get("status", "open") == "open" and kf.get("key") == key
                   for kf in vlib.known_findings()):
        c.violation({}, impl, finding_key=key)
        return True
    c.oblige(f"correspondence model = implementation ({label}; {cls})", False,
             {"problems": [p[0] for p in probs][:6], "text": text.decode("utf-8", errors="backslashreplace")})
    c.violation({"kind": "JSGF text", "finding_key": key, "failure_class": "text: " + cls, "what": main[0], "text_hex": text.hex(),
                 "jsgf_text": text.decode("utf-8", errors="backslashreplace"),
                 "problems": [{"class": problem_class(p), "what": p[0], "implementation_violates_property": p[1],
                               "detail": p[2]} for p in probs],
                 "implementation": {"parse": hc.get("parse"),
                                    "built": [(t, k, "FSG" if isinstance(f, dict) else f) for t, k, f in hc.get("fsg", [])]},
                 "model": {"parse": res["m_parse"][:300], "builds": res["rep"]},
                 "implementation_violates_property": impl,
                 "how_to_rerun": "python3 tools/check.py C05 --replay <this file>"}, impl, tag="text-" + cls,
                finding_key=key)
    return False


def account(stats, res, probs):
    hc, m, g = res["h"], res["m"], res["g"]
    st = stats
    st["rules_hist"][len(g["rules"])] = st["rules_hist"].get(len(g["rules"]), 0) + 1
    d = max(alts_depth(b) for _, _, b in g["rules"])
    st["depth_hist"][d] = st["depth_hist"].get(d, 0) + 1
    feats = set()

    def see(e):
        feats.add({"t": "token", "r": "reference", "n": "<NULL>", "v": "<VOID>", "G": "group", "O": "optional",
                   "S": "star", "P": "plus"}[e[0]])
    for _, _, b in g["rules"]:
        walk_exps(b, see)
        for s in b:
            for w, tags, _ in s:
                if w is not None:
                    feats.add("weight")
                    if weight_value(w) == 0:
                        feats.add("weight 0")
                    if weight_value(w) > 1:
                        feats.add("weight > 1")
                if tags:
                    feats.add("tag")
    names = {nm for nm, _, _ in g["rules"]}

    def undefd(e):
        if e[0] == "r" and e[1] not in names:
            feats.add("undefined reference")
    for _, _, b in g["rules"]:
        walk_exps(b, undefd)
    for f in feats:
        st["features"][f] = st["features"].get(f, 0) + 1
    for nm, ans in m["rep"].items():
        w = ans.split(" ")
        if len(w) >= 5:
            key = "representable" if w[1] == "1" else "not representable"
            st["model_decision"][key] = st["model_decision"].get(key, 0) + 1
            if w[4].isdigit():
                st["max_forms"] = max(st["max_forms"], int(w[4]))
                st["forms_total"] += int(w[4])
    if hc:
        for top, kind, fsg in hc["fsg"]:
            key = "built" if isinstance(fsg, dict) else ("refused" if fsg is None else "crash")
            st["impl_decision"][key] = st["impl_decision"].get(key, 0) + 1
            if isinstance(fsg, dict):
                st["max_fsg_states"] = max(st["max_fsg_states"], fsg["n"])
                st["max_fsg_arcs"] = max(st["max_fsg_arcs"], len(fsg["arcs"]))
        key = "FSG" if isinstance(hc["read"], tuple) else str(hc["read"])
        st["read_string"][key] = st["read_string"].get(key, 0) + 1
    for k, ans in m["cmp"].items():
        key = ans.split(" ")[0]
        st["comparisons"][key] = st["comparisons"].get(key, 0) + 1
    st["graph_tie_compared"] = st.get("graph_tie_compared", 0) + res.get("graph_tie_compared", 0)
    st["surface_graph_compared"] = st.get("surface_graph_compared", 0) + res.get("surface_graph_compared", 0)
    st["refusal_messages_compared"] = st.get("refusal_messages_compared", 0) + res.get("refusal_messages_compared", 0)
    if hc:
        RM = st.setdefault("refusal_messages", {})
        for (top, kind), (U, Rm, W) in hc.get("why", {}).items():
            if kind == "raw":
                k = "+".join(x for x, b in (("undefined rule", U), ("only right-recursion", Rm), ("weight above 1", W)) if b) or "none"
                RM[k] = RM.get(k, 0) + 1
    if hc:
        st["graph_tie_expected"] = st.get("graph_tie_expected", 0) + sum(1 for _, _, f in hc["fsg"] if f != "crash")
        verdict = {}
        for top, kind, fsg in hc["fsg"]:
            if kind == "raw" and fsg != "crash":
                verdict[top[1 + len(g["name"]) + 1:-1]] = "compiler builds" if isinstance(fsg, dict) else "compiler refuses"
        GK = st.setdefault("graph_kinds", {}).setdefault(st.get("_family", "generated"), {})
        for nm, f in res.get("graph", {}).items():
            for k in graph_kinds(f):
                d = GK.setdefault(k, {})
                v = ("graph accepts, " if f["gb"] else "graph refuses, ") + verdict.get(nm, "not built")
                if f["wref"]:
                    v += " (weight above 1)"
                d[v] = d.get(v, 0) + 1
    st["mirror_compared"] = st.get("mirror_compared", 0) + res.get("mirror_compared", 0)
    st["names_compared"] = st.get("names_compared", 0) + res.get("names_compared", 0)
    st["readtop_compared"] = st.get("readtop_compared", 0) + res.get("readtop_compared", 0)
    st["readtop_other_choice"] = st.get("readtop_other_choice", 0) + res.get("readtop_other_choice", 0)
    if res.get("names_compared", 0) >= MIN_GENERATED and byte_len(g["name"]) >= LONG_GNAME and not probs:
        st["long_name_tables_agreeing"] = st.get("long_name_tables_agreeing", 0) + 1
    sc = res.get("sum_check", "not run")
    st["probability_sum_check"][sc] = st["probability_sum_check"].get(sc, 0) + 1
    rc = recursion_class(g)
    st["recursion"][rc] = st["recursion"].get(rc, 0) + 1


def new_stats():
    return {"kind": {}, "public": {}, "rules_hist": {}, "depth_hist": {}, "features": {}, "model_decision": {},
            "impl_decision": {}, "read_string": {}, "comparisons": {}, "text_features": {}, "probability_sum_check": {},
            "recursion": {}, "max_forms": 0, "forms_total": 0, "max_fsg_states": 0, "max_fsg_arcs": 0}


def surface_graph_accepts(g, top):
    """the graph predicate read on the SURFACE grammar (second, untrusted implementation, compared with the Lean
    representableGB on the desugared table for every top): nodes are the user rules (first definitions); a reference is a
    tail reference iff it is the last item of its sequence and every enclosing group / optional is the last item of its
    sequence in turn; anything under a Kleene star or plus is not (it is followed by the operator's own loop).  Accepted
    iff no undefined rule is reachable from `top` and no reference that is not a tail reference lies on a cycle reachable
    from `top`."""
    rules = {nm: body for nm, _, body in first_defs(g)}
    edges = {nm: set() for nm in rules}     # (target, is_tail)

    def alts(a, src, last_ctx):
        for sq in a:
            for i, it in enumerate(sq):
                exp(it[2], src, last_ctx and i == len(sq) - 1)

    def exp(e, src, last):
        if e[0] == "r":
            edges[src].add((e[1], last))
        elif e[0] in ("G", "O"):
            alts(e[1], src, last)
        elif e[0] in ("S", "P"):
            exp(e[1], src, False)
    for nm, body in rules.items():
        alts(body, nm, True)

    def reach(a):
        seen, todo = {a}, [a]
        while todo:
            x = todo.pop()
            for t, _ in edges.get(x, ()):
                if t not in seen:
                    seen.add(t)
                    todo.append(t)
        return seen
    if top not in rules:
        return False
    R = reach(top)
    if any(x not in rules for x in R):
        return False
    return not any((not tail) and r in reach(t) for r in R for t, tail in edges[r])


def recursion_class(g):
    """untrusted classification of the reference graph of the surface grammar, for the measured distribution only:
    every cycle is classified by the positions of its references (all last = tail)"""
    rules = {nm: body for nm, _, body in first_defs(g)}
    edges = {nm: set() for nm in rules}     # (target, is_last, is_first)

    def alts(a, src, last_ctx, first_ctx):
        for s in a:
            for i, it in enumerate(s):
                exp(it[2], src, last_ctx and i == len(s) - 1, first_ctx and i == 0)

    def exp(e, src, last, first):
        if e[0] == "r" and e[1] in rules:
            edges[src].add((e[1], last, first))
        elif e[0] in ("G", "O"):
            alts(e[1], src, last, first)
        elif e[0] in ("S", "P"):
            exp(e[1], src, False, first)
    for nm, body in rules.items():
        alts(body, nm, True, True)
    # reachability
    reach = {nm: {t for t, _, _ in edges[nm]} for nm in rules}
    changed = True
    while changed:
        changed = False
        for nm in rules:
            new = set(reach[nm])
            for t in list(reach[nm]):
                new |= reach[t]
            if new != reach[nm]:
                reach[nm], changed = new, True
    cyc = [nm for nm in rules if nm in reach[nm]]
    if not cyc:
        return "no recursion"
    nontail = any((not last) for nm in cyc for t, last, first in edges[nm] if nm in reach[t] or t == nm)
    left = any(first and not last for nm in cyc for t, last, first in edges[nm] if nm in reach[t] or t == nm)
    selfonly = all(t == nm for nm in cyc for t, _, _ in edges[nm] if nm in reach[t] or t == nm)
    if not nontail:
        return "tail recursion only (self)" if selfonly else "tail recursion only (through several rules)"
    if left:
        return "left recursion"
    return "embedded recursion (one rule)" if selfonly else "embedded recursion (through several rules)"


def small_scope(atoms, max_alts_a):
    """every grammar `<a> = A; <b> = B;` with A of <= max_alts_a alternatives, B one alternative, alternatives of
    <= 2 atoms over `atoms`"""
    seqs = [[a] for a in atoms] + [[a, b] for a in atoms for b in atoms]
    bodies_a = [[s] for s in seqs]
    if max_alts_a >= 2:
        bodies_a += [[s, t] for s in seqs for t in seqs]
    for A in bodies_a:
        for B in seqs:
            yield {"name": "g", "rules": [("a", True, [[(None, [], e) for e in s] for s in A]),
                                          ("b", False, [[(None, [], e) for e in B]])]}


def check(c):
    c.trusted += ["harness/h_c05.c + tools/props/c05.py (generator, JSGF printer, canonicalisation of rule tables, diff)",
                  "jsgf_scanner.c / jsgf_parser.c are generated code: the Lean lexer (start conditions, longest match, patterns) and the pushdown "
                  "parser mirror the .l/.y sources and are tied by running both on generated, Lean-printed, hand-written and mutated texts "
                  "(accept/reject, grammar name, rule table, then the whole pipeline)",
                  "word identity: the FSG word of a token is the token text as written (quoted tokens keep their quotes)",
                  "fsg_model_arcs / fsg_arciter_* as the observer of the FSG; logmath only for the probability sums",
                  "clang ASan/UBSan as observer of memory errors during parsing/expansion"]
    c.assumptions += ["weights may stand in front of any item (as jsgf_parser.y takes them); a rule reference / <NULL> that is not first in "
                      "its alternative and has a weight above 1 is refused by jsgf_build_fsg (D36) and by the model (`buildRaw`); weights in "
                      "(1, 1.0002) (log-quantisation decides) and weights of 39 digits and more (infinite in single precision) are outside the quantifier",
                      "a rule name defined twice keeps its first definition (hash_table_enter), in the model as in the code; user rule names of the "
                      "shape g<digits> (collision with internal names; decidable test looksGenerated / userNamesOK, evaluated by the driver on every "
                      "grammar and text) are outside the quantifier; every other name is inside it whatever its length: internal names are proved "
                      "pairwise different and different from user names for every grammar name (C05_generated_names_distinct, "
                      "C05_rule_strings_injective) and every key of the real table is compared with the Lean genName",
                      "import statements are resolved against nothing: the harness sets JSGF_PATH to a directory that does not exist, so an "
                      "import has no effect (a reference to the imported rule is then an undefined rule); importing from grammar files is outside the quantifier",
                      "a zero-weight alternative is compared structurally (the arc exists with log-zero probability)",
                      "the compiler may refuse any rule whose reference graph has a cycle through a non-final reference "
                      "(even when <VOID>/<NULL> make the language regular); `representable` is that syntactic test",
                      "closed FSGs with more than %d arcs are not compared (null closure is quadratic); the raw FSG always is"
                      % MAX_CLOSED_ARCS,
                      "text front end: byte strings without NUL (the API takes a C string); the Lean lexer/parser model is the repaired scanner (D46, D64)"]
    if not c.lean_obligations():
        # a theorem / generated-width obligation no longer checks: search for a failing input with the oracle that needs no
        # model (big-grammar family: closed-form language decided on the FSG the real code produced)
        try:
            vlib.build_harness("h_c05")
            big_grammar_family(c, new_stats())
        except Exception:
            pass
        return
    vlib.build_harness("h_c05")
    stats = new_stats()
    gen = Gen(c.rng, stats)
    evaluations = 0
    distinct = set()
    failed = {}          # class -> (res, probs, marked, label)
    fail_count = {}
    machinery = []

    def process(cases, label):
        nonlocal evaluations
        stats["_family"] = "corpus" if label == "corpus" else "small-scope exhaustive" if label.startswith("small-scope") else "generated"
        try:
            results = run_batch(None, [(g, t) for g, t, _ in cases])
        except DriverFailure as e:
            machinery.append(str(e))
            return
        for res, (_, _, marked) in zip(results, cases):
            evaluations += 1
            probs = judge_case(res)
            account(stats, res, probs)
            if probs:
                cls = problem_class(main_problem(probs))
                key = finding_key(res["g"], res["text"], cls)
                grp = cls + (" [" + key + "]" if key else "")
                fail_count[grp] = fail_count.get(grp, 0) + 1
                if grp not in failed:
                    failed[grp] = (res, probs, marked, label)

    # corpus first
    corpus = sorted((vlib.ROOT / "corpus" / "C05").glob("*.json"))
    ccases = []
    for f in corpus:
        obj = json.loads(f.read_text())
        if obj.get("kind") == "big-grammar":
            if not replay_big(c, obj):
                c.oblige(f"corpus case {f.name} passes", False)
            evaluations += 1
            continue
        g = fix_grammar(obj["grammar"])
        ccases.append((g, obj.get("jsgf_text") or Printer(plain=True).grammar(g), None))
    if ccases:
        process(ccases, "corpus")
    okbig = big_grammar_family(c, stats)
    c.oblige("big-grammar family: for grammars whose expansion allocates more than 2^15 and more than 2^16 states (thorough: 2^17) "
             "the raw FSG accepts exactly the k phrases of the grammar (all accepted, acyclic, k start->final paths) and the closed "
             "FSG accepts all of them and none of the sampled prefixes / suffixes / splices / concatenations", okbig,
             stats.get("big_grammar_family"))
    evaluations += len(stats.get("big_grammar_family", []))
    ncases = 1200 if c.tier == "quick" else 20000
    batch = []
    for i in range(ncases):
        if sum(fail_count.values()) >= 60:
            break
        g = gen.grammar()
        pr = Printer(c.rng, plain=c.rng.chance(0.25), stats=stats)
        marked = pr.marked(g)
        text = strip_marks(marked)
        distinct.add(text)
        if len(c.samples) < 4 and i % 37 == 0:
            c.samples.append(text[:400])
        batch.append((g, text, marked))
        if len(batch) >= 150 or i == ncases - 1:
            process(batch, f"generated batch ending at case {i}")
            batch = []
    if batch:
        process(batch, "generated, last batch")
    exhaustive = 0
    if not fail_count:
        atoms_q = [("t", "x"), ("r", "a"), ("r", "b"), ("v",), ("n",)]
        atoms_t = [("t", "x"), ("r", "a"), ("r", "b"), ("n",), ("v",), ("r", "u")]
        stream = small_scope(atoms_q, 1) if c.tier == "quick" else small_scope(atoms_t, 2)
        plain = Printer(plain=True)
        batch = []
        for g in stream:
            batch.append((g, plain.grammar(g), None))
            exhaustive += 1
            if len(batch) >= 500:
                process(batch, "small-scope exhaustive")
                batch = []
                if fail_count:
                    break
        if batch and not fail_count:
            process(batch, "small-scope exhaustive")
    if not fail_count:
        text_stream(c, gen, stats, 900 if c.tier == "quick" else 30000, failed, fail_count, machinery)
    for msg in machinery:
        c.oblige("model driver runs", False, msg)
    # one shrunk witness per failure class, implementation-side classes first
    order = sorted(failed, key=lambda k: (main_problem(failed[k][1])[1] is not True, k))
    known = set()
    for grp in order[:6]:
        res, probs, marked, label = failed[grp]
        if grp.startswith("text: "):
            if report_text(c, res, probs, label):
                known.add(grp)
        elif report(c, res, probs, label, marked):
            known.add(grp)
    unexplained = {k: v for k, v in fail_count.items() if k not in known}
    c.oblige("correspondence: real scanner/parser/expansion (ASan/UBSan) agree with the model on every generated grammar "
             "(rule table, accept/refuse, language of raw and closed FSG, weights, rule stack, jsgf_read_string)",
             not unexplained and not machinery, {"failing cases per class": fail_count, "known findings": sorted(known)})
    # the measured distribution must contain what the quantifier "every grammar" is claimed for: long grammar names
    # together with several generated rules (their names share the long prefix), checked only on complete runs
    longs = stats.get("long_grammar_names", {})
    need = {f"name >= {LONG_GNAME} bytes and >= {MIN_GENERATED} generated rules": 30 if c.tier == "quick" else 300,
            f"name >= 100 bytes and >= {MIN_GENERATED} generated rules": 10 if c.tier == "quick" else 100,
            f"name >= 300 bytes and >= {MIN_GENERATED} generated rules": 3 if c.tier == "quick" else 30}
    if sum(fail_count.values()) < 40:
        c.oblige("input distribution: grammars with a long name (>= %d, >= 100, >= 300 bytes) and >= %d generated rules occurred, "
                 "and for such grammars the real symbol table was compared key by key with the naming model"
                 % (LONG_GNAME, MIN_GENERATED),
                 all(longs.get(k, 0) >= v for k, v in need.items()) and
                 (bool(fail_count) or stats.get("long_name_tables_agreeing", 0) >= need[f"name >= {LONG_GNAME} bytes and >= {MIN_GENERATED} generated rules"] // 2),
                 {"generated": longs, "required at least": need,
                  "long-name tables with >= 2 generated keys agreeing with the model": stats.get("long_name_tables_agreeing", 0)})
    # the graph reading of accept/refuse: evaluated on every (grammar, top) pair, and every kind of reference graph occurred
    gk = {fam: {k: dict(sorted(v.items())) for k, v in sorted(d.items())} for fam, d in sorted(stats.get("graph_kinds", {}).items())}
    gk_total = {k: sum(v.values()) for k, v in gk.get("generated", {}).items()}
    gk_need = GRAPH_KIND_MIN_QUICK if c.tier == "quick" else {k: 10 * v for k, v in GRAPH_KIND_MIN_QUICK.items()}
    c.oblige("tie: the graph predicate representableGB (C05_graph_decides) was compared with the real compiler's accept/refuse "
             "decision on every build that did not crash, and with the refusal test `representable` on every (grammar, top) pair",
             stats.get("graph_tie_compared", 0) > 0 and stats.get("graph_tie_compared", 0) == stats.get("graph_tie_expected", 0),
             {"compared": stats.get("graph_tie_compared", 0), "builds": stats.get("graph_tie_expected", 0)})
    if sum(fail_count.values()) < 40:
        c.oblige("input distribution: every kind of rule-reference graph occurred (undefined rule reachable, left recursion, other "
                 "non-tail recursion, direct / mutual right recursion, right recursion through a group / optional / Kleene operator, "
                 "bad rule that the top cannot reach)",
                 all(gk_total.get(k, 0) >= v for k, v in gk_need.items()),
                 {"(grammar, top) pairs per kind in the generated family": gk_total, "required at least": gk_need})
    nontrivial = stats["comparisons"].get("equal", 0) + stats["comparisons"].get("differ", 0)
    c.cov.update({"evaluations": evaluations, "distinct_nontrivial": len(distinct) + exhaustive,
                  "rule": "distinct generated JSGF texts (1-5 rules, nesting depth 0-6, identifiers of 1 to 1100 bytes incl. package-style "
                          "grammar names, rule graphs with repeated references, "
                          "tail/non-tail/left/hidden recursion, undefined rules, <NULL>/<VOID>, weights, tags, comments, quoting) "
                          "plus the exhaustive two-rule small scope; every rule of every grammar is built as top (raw and closed)",
                  "verified_language_comparisons": nontrivial, "small_scope_exhaustive_grammars": exhaustive,
                  "corpus_cases": len(ccases), "generator_kind": stats["kind"], "public_rule_choice": stats["public"],
                  "recursion_shape_of_surface_grammar": stats["recursion"],
                  "rules_per_grammar": {str(k): v for k, v in sorted(stats["rules_hist"].items())},
                  "nesting_depth": {str(k): v for k, v in sorted(stats["depth_hist"].items())},
                  "grammars_with_feature": stats["features"], "text_features": stats["text_features"],
                  "model_decision_per_top": stats["model_decision"], "implementation_decision_per_build": stats["impl_decision"],
                  "jsgf_read_string": stats["read_string"], "comparison_verdicts": stats["comparisons"],
                  "probability_sum_check_per_grammar": stats["probability_sum_check"],
                  "raw_fsgs_equal_to_mirror_of_expand_rule": stats.get("mirror_compared", 0),
                  "graph_predicate_vs_real_compiler_builds_compared": stats.get("graph_tie_compared", 0),
                  "graph_predicate_on_table_equal_to_surface_reading_tops_compared": stats.get("surface_graph_compared", 0),
                  "refusal_message_vs_graph_clause_compared": stats.get("refusal_messages_compared", 0),
                  "refusal_messages_of_the_real_compiler_raw_builds": stats.get("refusal_messages", {}),
                  "reference_graph_kind_per_grammar_and_top_x_compiler_verdict": gk,
                  "identifier_length_bytes_per_kind": stats.get("identifier_lengths", {}),
                  "identifier_length_classes_drawn": {k: f"{w}%" for k, w in LEN_CLASSES},
                  "grammar_name_bytes_x_generated_rules": dict(sorted(stats.get("grammar_name_bytes_x_generated_rules", {}).items())),
                  "long_grammar_names_with_generated_rules": stats.get("long_grammar_names", {}),
                  "long_name_tables_agreeing_with_naming_model": stats.get("long_name_tables_agreeing", 0),
                  "generated_table_keys_equal_to_lean_genName": stats.get("names_compared", 0),
                  "jsgf_read_string_equal_to_model_readString": stats.get("readtop_compared", 0),
                  "jsgf_read_string_other_rule_or_verdict_than_model_readString": stats.get("readtop_other_choice", 0),
                  "regenerated_by_generator": stats.get("regenerated", {}),
                  "widened_quantifier_cases": stats.get("widened", {}),
                  "max_explored_forms": stats["max_forms"], "explored_forms_total": stats["forms_total"],
                  "max_fsg_states": stats["max_fsg_states"], "max_fsg_arcs": stats["max_fsg_arcs"],
                  "text_front_end_stream": stats.get("text_stream", {}), "text_mutation_kinds": stats.get("mutation_kind", {}),
                  "big_grammar_family(closed-form language; states crossing 2^15 / 2^16 / 2^17)": stats.get("big_grammar_family"),
                  "failing_cases_per_class": fail_count})


# ----------------------------------------------------------------------------
# big-grammar family (close-c05c18): counts crossing integer widths on the compile path.  Grammars with a CLOSED-FORM
# language — k distinct phrases of n words — big enough that the expansion allocates more than 2^15 / 2^16 / 2^17 states.
# The language of the produced FSG is decided completely, without the model driver (whose explored-forms comparison is
# for small grammars): on the RAW FSG (one arc per expansion link) every phrase is accepted, the graph is acyclic and the
# number of start->final paths is exactly k  =>  the FSG accepts exactly the k phrases;  on the CLOSED FSG (what the decoder
# gets) every phrase is accepted and sampled non-members (proper prefixes, proper suffixes, cross-phrase splices, doubled
# phrases, the empty sentence) are refused.

BIG_STYLES = ("flat", "rules", "groups", "shared-vocabulary")


def big_grammar(style, k, n, seed):
    """(JSGF text, top rule full name, list of the k phrases as tuples of words) — deterministic in its arguments"""
    import random
    r = random.Random(seed * 1000003 + k * 31 + n)
    phrases = []
    if style == "shared-vocabulary":
        vocab = [f"v{j}" for j in range(40)]
        seen = set()
        while len(phrases) < k:
            ph = tuple(r.choice(vocab) for _ in range(n))
            if ph not in seen:
                seen.add(ph)
                phrases.append(ph)
    else:
        # small vocabulary (fsg_model_word_add searches the vocabulary linearly): phrase i spells i in base `base`, one
        # word per digit position, padded with filler words — distinct phrases, heavily shared words
        base = r.choice([7, 10, 16])
        d = 1
        while base ** d < k:
            d += 1
        d = max(d, min(n, 2))
        fill = ["over", "and", "out", "right", "now", "then", "go", "on"]
        phrases = [tuple([f"{chr(97 + j)}{(i // base ** j) % base}" for j in range(d)] +
                         [fill[j % len(fill)] for j in range(max(0, n - d))]) for i in range(k)]
    if style == "rules":
        body = "".join(f"<p{i}> = {' '.join(ph)};\n" for i, ph in enumerate(phrases))
        top = "public <s> = " + " | ".join(f"<p{i}>" for i in range(k)) + ";\n"
        text = "#JSGF V1.0;\ngrammar big;\n" + top + body
    elif style == "groups":
        # every phrase as ( first half ) ( second half ): one generated rule per group
        h = max(1, n // 2)
        alts = [f"( {' '.join(ph[:h])} ) " + (f"( {' '.join(ph[h:])} )" if ph[h:] else "") for ph in phrases]
        text = "#JSGF V1.0;\ngrammar big;\npublic <s> = " + "\n | ".join(alts) + ";\n"
    else:
        text = "#JSGF V1.0;\ngrammar big;\npublic <s> = " + "\n | ".join(" ".join(ph) for ph in phrases) + ";\n"
    return text, "<big.s>", phrases


def fsg_sim(fsg):
    """acceptance test on a dumped FSG (epsilon arcs = arcs without a word)"""
    word, eps = {}, {}
    for f, t, _, w in fsg["arcs"]:
        if w is None:
            eps.setdefault(f, []).append(t)
        else:
            word.setdefault((f, w), []).append(t)

    cl = {}

    def eclose(x):
        r = cl.get(x)
        if r is None:
            S, todo = {x}, [x]
            while todo:
                y = todo.pop()
                for z in eps.get(y, ()):
                    if z not in S:
                        S.add(z)
                        todo.append(z)
            r = cl[x] = frozenset(S)
        return r
    steps = {}

    def step(S, w):
        r = steps.get((S, w))
        if r is None:
            T = set()
            for x in S:
                for t in word.get((x, w), ()):
                    T |= eclose(t)
            r = steps[(S, w)] = frozenset(T)
        return r

    def accepts(sent):
        S = eclose(fsg["start"])
        for w in sent:
            S = step(S, w)
            if not S:
                return False
        return fsg["final"] in S
    return accepts


def fsg_path_count(fsg):
    """number of start->final paths (None when a cycle is reachable from the start state)"""
    out = {}
    for f, t, _, w in fsg["arcs"]:
        out.setdefault(f, []).append(t)
    start, final = fsg["start"], fsg["final"]
    color, order, stack = {start: 1}, [], [(start, 0)]
    while stack:
        x, i = stack.pop()
        succ = out.get(x, ())
        if i < len(succ):
            stack.append((x, i + 1))
            y = succ[i]
            cy = color.get(y, 0)
            if cy == 1:
                return None
            if cy == 0:
                color[y] = 1
                stack.append((y, 0))
        else:
            color[x] = 2
            order.append(x)
    cnt = {}
    for x in order:          # post-order: successors first
        cnt[x] = (1 if x == final else 0) + sum(cnt[y] for y in out.get(x, ()))
    return cnt[start]


def big_probes(phrases, seed, nprobe):
    """(sentence, kind) probes that are NOT in the language unless the set lookup says so"""
    import random
    r = random.Random(seed + 17)
    k = len(phrases)
    pr = [((), "empty sentence")]
    idx = sorted(set([0, 1, k - 1, k // 2] + [r.randrange(k) for _ in range(nprobe)]))
    for i in idx:
        ph = phrases[i]
        j = phrases[r.randrange(k)]
        if len(ph) > 1:
            cut = r.randrange(1, len(ph))
            pr.append((ph[:cut], "proper prefix"))
            pr.append((ph[cut:], "proper suffix"))
            pr.append((ph[:cut] + j[cut:], "cross-phrase splice"))
            pr.append((ph[:1], "first word only"))
            pr.append((ph[-1:], "last word only"))
        pr.append((ph + j, "two phrases concatenated"))
        pr.append((ph + ph[-1:], "phrase + one more word"))
    return pr


def big_eval(style, k, n, seed, scratch, tag):
    """runs one instance on the real code; returns (info dict, failure dict or None)"""
    text, top, phrases = big_grammar(style, k, n, seed)
    path = scratch / f"big_{tag}.gram"
    path.write_text(text)
    binp = vlib.build_harness("h_c05")
    t0 = time.time()
    rc, out, err = vlib.run_bin(binp, stdin_text=f"bigfile {tag} {path} {hx(top)}\n", timeout=1800,
                                env_extra={"JSGF_PATH": "/nonexistent-verif-c05"})
    info = {"style": style, "phrases": k, "words_per_phrase": n, "seed": seed, "jsgf_bytes": len(text), "seconds_real_code": round(time.time() - t0, 1),
            "alternatives_of_the_top_rule": k, "user_rules": k + 1 if style == "rules" else 1,
            "generated_group_rules": (2 * k if n > 1 else k) if style == "groups" else 0}
    fsgs = {}
    for l in out.split("\n"):
        w = l.split()
        if len(w) >= 4 and w[0] == "bigfsg" and w[2] in ("raw", "closed"):
            fsgs[w[2]] = None if w[3] == "null" else parse_fsg_body(w[3:])
    base = {"kind": "big-grammar", "style": style, "phrases": k, "words_per_phrase": n, "seed": seed,
            "grammar_head": text[:300], "how_to_rerun": "python3 tools/check.py C05 --replay <this file>"}
    if rc != 0 or "raw" not in fsgs or "closed" not in fsgs:
        return info, dict(base, what=f"the compiler crashed / gave no FSG for a legal grammar of {k} phrases: rc={rc} {out[-200:]} {sanitizer_summary(err)}",
                          implementation=True)
    if fsgs["raw"] is None or fsgs["closed"] is None:
        return info, dict(base, what="jsgf_build_fsg refused a legal non-recursive grammar", implementation=True)
    info.update({"raw_states": fsgs["raw"]["n"], "raw_arcs": len(fsgs["raw"]["arcs"]), "closed_arcs": len(fsgs["closed"]["arcs"])})
    member = set(phrases)
    for kind in ("raw", "closed"):
        f = fsgs[kind]
        bad_arc = [a for a in f["arcs"] if not (0 <= a[0] < f["n"] and 0 <= a[1] < f["n"])]
        if bad_arc:
            return info, dict(base, what=f"{kind} FSG has an arc outside its {f['n']} states: {bad_arc[0][:2]}", implementation=True)
        acc = fsg_sim(f)
        for ph in phrases:
            if not acc(ph):
                return info, dict(base, fsg=kind, sentence=list(ph), in_jsgf_language=True, fsg_accepts=False, implementation=True,
                                  what=f"{kind} FSG ({f['n']} states) refuses a sentence of the grammar")
        for sent, pk in big_probes(phrases, seed, 60):
            want = tuple(sent) in member
            if acc(sent) != want:
                return info, dict(base, fsg=kind, sentence=list(sent), probe_kind=pk, in_jsgf_language=want, fsg_accepts=not want,
                                  implementation=True,
                                  what=f"{kind} FSG ({f['n']} states) accepts a word sequence the grammar does not denote ({pk})" if not want
                                  else f"{kind} FSG refuses a sentence of the grammar")
    paths = fsg_path_count(fsgs["raw"])
    info["raw_start_to_final_paths"] = paths
    if paths != k:
        return info, dict(base, fsg="raw", implementation=True, start_to_final_paths=paths,
                          what=(f"raw FSG has a cycle reachable from the start state: it accepts infinitely many word sequences, the grammar denotes {k}"
                                if paths is None else
                                f"raw FSG has {paths} start->final paths, the grammar denotes exactly {k} sentences (each by one derivation)"))
    return info, None


def big_plan(rng, tier):
    """instances (style, k, n): every run crosses 2^16 expansion states; thorough crosses 2^15 / 2^16 / 2^17 with every style"""
    n = rng.choice([7, 9, 12])
    per = {"flat": n, "shared-vocabulary": n, "rules": n + 2, "groups": n + 4}     # states per phrase (+ 2 for the top rule)
    plan = []
    if tier == "quick":
        st = rng.choice(BIG_STYLES)
        plan.append((st, (66000 + rng.range(0, 6000)) // per[st] + 1, n))
        st = rng.choice(BIG_STYLES)
        plan.append((st, (33000 + rng.range(0, 3000)) // per[st] + 1, n))
        # a COUNT other than the states crossing 2^15: alternatives of one rule / user rules / generated (group) rules
        st = rng.choice(["flat", "rules", "groups"])
        plan.append((st, (33000 if st != "groups" else 16500) + rng.range(0, 1500), 4))
    else:
        for st in BIG_STYLES:
            for target in (33500, 64000, 67000, 132000):
                plan.append((st, (target + rng.range(0, 4000)) // per[st] + 1, n))
        for st in ("flat", "rules", "groups"):
            for cnt in (33000, 66000):
                plan.append((st, (cnt if st != "groups" else cnt // 2) + rng.range(0, 1500), 4 if cnt < 60000 else 5))
        plan.append(("groups", 51000 + rng.range(0, 1500), 5))      # > 100 000 generated rules: internal names of six digits
    return plan


def big_grammar_family(c, stats):
    infos, ok = [], True
    for i, (style, k, n) in enumerate(big_plan(c.rng, c.tier)):
        seed = c.rng.range(1, 10 ** 6)
        info, fail = big_eval(style, k, n, seed, c.scratch, f"b{i}")
        infos.append(info)
        if fail:
            ok = False
            # smallest failing phrase count on the same style (a few halvings; the runs are seconds each)
            lo, hi = 1, k
            for _ in range(5):
                mid = (lo + hi) // 2
                if mid <= lo:
                    break
                _, f2 = big_eval(style, mid, n, seed, c.scratch, f"b{i}s")
                if f2:
                    hi, fail = mid, f2
                else:
                    lo = mid
            impl = fail.pop("implementation", True)
            fail["implementation_violates_property"] = impl
            c.violation(fail, impl)
            break
    stats["big_grammar_family"] = infos
    if ok and not any(i.get("raw_states", 0) > 65536 for i in infos):
        c.oblige("input distribution: the big-grammar family contained an expansion of more than 2^16 states", False, infos)
    return ok


def replay_big(c, obj):
    info, fail = big_eval(obj["style"], obj["phrases"], obj["words_per_phrase"], obj["seed"], c.scratch, "replay")
    if fail:
        impl = fail.pop("implementation", True)
        fail["implementation_violates_property"] = impl
        c.violation(fail, impl)
    c.cov.update({"evaluations": 1, "distinct_nontrivial": 1, "big_grammar_family": [info]})
    return fail is None


def fix_grammar(g):
    """JSON round trip turns tuples into lists"""
    def exp(e):
        k = e[0]
        if k in ("G", "O"):
            return (k, alts(e[1]))
        if k in ("S", "P"):
            return (k, exp(e[1]))
        return tuple(e)

    def alts(a):
        return [[(it[0], list(it[1]), exp(it[2])) for it in s] for s in a]
    out = {"name": g["name"], "rules": [(r[0], bool(r[1]), alts(r[2])) for r in g["rules"]]}
    if g.get("imports"):
        out["imports"] = list(g["imports"])
    return out


def replay(c, path):
    c.lean_obligations()
    vlib.build_harness("h_c05")
    obj = json.loads(open(path).read())
    if obj.get("kind") == "big-grammar":
        replay_big(c, obj)
        return
    if "text_hex" in obj:
        res = run_text_batch([bytes.fromhex(obj["text_hex"])])[0]
        probs = judge_text(res)
        if probs:
            report_text(c, res, probs, "replay")
        c.oblige("replayed text: implementation agrees with the model", not probs, [p[0] for p in probs])
        c.cov.update({"evaluations": 1, "distinct_nontrivial": 1})
        return
    g = fix_grammar(obj["grammar"])
    text = obj.get("jsgf_text") or Printer(plain=True).grammar(g)
    res = run_batch(None, [(g, text)])[0]
    probs = judge_case(res)
    if probs:
        report(c, res, probs, "replay", do_shrink=False)
    c.oblige("replayed grammar: implementation agrees with the model", not probs, [p[0] for p in probs])
    c.cov.update({"evaluations": 1, "distinct_nontrivial": 1})
