"""C05 — JSGF compilation preserves the language of the grammar.

Lean: SSVerif/Props/C05.lean (machine = denotation for every rule table; explored automaton accepts
exactly the rule's denotation; a table that passes `tableMatches` has the JSGF denotation of the
surface grammar; a passing `nfaEquiv` comparison means language equality; weights over Q).

Tie / oracle, per generated surface grammar g (printed to JSGF text with comments, quoting, tags,
nested groups, weights):
  (a) rule table dumped from the real scanner+parser (`jsgf->rules`) = `desugar g` up to the numbering of
      internal rules;
  (b) for every rule as top: "the real compiler builds an FSG" = `representable (desugar g) top`;
  (c) when built: verified `nfaEquiv` of the real FSG (raw and closed, dumped through the real arc iterator)
      against `explore (desugar g) top`; a distinguishing sentence is confirmed by the verified membership
      decision on both sides;
  (d) first-atom weights after the build = `normaliseRule` over Q (float tolerance); every choice point of
      the raw FSG has outgoing probabilities summing to one;
  (e) the rule stack is empty after every build (a later build of another rule is not influenced);
  (f) `jsgf_read_string` (whole pipeline): NULL iff no public rule / not representable, else the FSG of a
      public rule with that rule's language.
"""
import json, math, os, re
from fractions import Fraction
import vlib

FUEL = 2500          # maximal number of explored sentential forms
MAXPAIRS = 6000      # subset-construction pairs of the equivalence search


# ----------------------------------------------------------------------------
# surface AST
#   exp  = ("t", word_text) | ("r", rule_name) | ("n",) | ("v",) | ("G", alts) | ("O", alts) | ("S", exp) | ("P", exp)
#   alts = [seq, ...] (textual order), seq = [item, ...], item = (weight_text|None, [tag_text...], exp)
#   grammar = {"name": str, "rules": [(name, public, alts)], "header": str}

def exp_depth(e):
    k = e[0]
    if k in ("G", "O"):
        return 1 + max(max(exp_depth(it[2]) for it in s) for s in e[1])
    if k in ("S", "P"):
        return 1 + exp_depth(e[1])
    return 0


def alts_depth(a):
    return max(max(exp_depth(it[2]) for it in s) for s in a)


def walk_exps(a, f):
    for s in a:
        for it in s:
            walk_exp(it[2], f)


def walk_exp(e, f):
    f(e)
    if e[0] in ("G", "O"):
        walk_exps(e[1], f)
    elif e[0] in ("S", "P"):
        walk_exp(e[1], f)


WORDS = ["go", "forward", "ten", "meters", "x", "y1", "stop!", "a.b", "l'eau", "día", "99", "x-y", "&", '"quoted words"',
         '"semi;colon | bar"', '"it\\"s"', "#tag", "public", "grammar", "NULL"]
RULENAMES = ["a", "b", "c", "d", "e", "move", "dir_2", "règle", "R", "x"]
WEIGHT_VALUES = {"1": Fraction(1), "2": Fraction(2), "3": Fraction(3), "0.5": Fraction(1, 2), ".25": Fraction(1, 4),
                 "10": Fraction(10), "1e-2": Fraction(1, 100), "0": Fraction(0), "0.0": Fraction(0),
                 "3.75": Fraction(15, 4), "07": Fraction(7), "2.50": Fraction(5, 2), "100": Fraction(100)}
WEIGHTS = sorted(WEIGHT_VALUES)


def weight_value(t):
    """value `atof(yytext+1)` gives for the weight text (only texts of the fixed pool are generated)"""
    return WEIGHT_VALUES[t]


MAX_STATES = 260      # bound on the number of FSG states the expansion of any rule creates
MAX_CLOSED_ARCS = 5000  # the closed FSG is compared when it has at most this many arcs (null closure is quadratic)


def expansion_size(g):
    """upper estimate of the states `expand_rule` creates for the most expensive top rule"""
    rules = {nm: body for nm, _, body in g["rules"]}
    memo = {}

    def rule(nm, path):
        if nm not in rules or nm in path:
            return 1
        key = (nm, path)
        if key not in memo:
            memo[key] = 2 + alts(rules[nm], path | {nm})
        return memo[key]

    def alts(a, path):
        return sum(sum(exp(it[2], path) for it in s) for s in a)

    def exp(e, path):
        k = e[0]
        if k == "r":
            return rule(e[1], path)
        if k in ("G", "O"):
            return 3 + alts(e[1], path)
        if k in ("S", "P"):
            return 4 + 2 * exp(e[1], path)
        return 1
    return max(rule(nm, frozenset()) for nm in rules)


class Gen:
    def __init__(self, rng, stats):
        self.rng, self.stats = rng, stats

    def bump(self, key, sub):
        d = self.stats.setdefault(key, {})
        d[sub] = d.get(sub, 0) + 1

    def atom(self, ctx, last):
        r = self.rng
        k = r.weighted([("t", 60), ("r", ctx["pref"]), ("n", ctx["pnull"]), ("v", ctx["pvoid"])])
        if k == "t":
            return ("t", r.choice(ctx["words"]))
        if k == "r":
            pool = ctx["refs_tail"] if last and ctx["refs_tail"] else ctx["refs"]
            if pool:
                return ("r", r.choice(pool))
            return ("t", r.choice(ctx["words"]))
        return (k,)

    def exp(self, ctx, depth, last):
        r = self.rng
        if depth <= 0 or r.chance(0.45):
            return self.atom(ctx, last)
        k = r.weighted([("G", 35), ("O", 25), ("S", 20), ("P", 20)])
        if k in ("G", "O"):
            return (k, self.alts(ctx, depth - 1, last))
        return (k, self.exp(ctx, depth - 1, False))

    def item(self, ctx, depth, last, weighted):
        r = self.rng
        w = None
        if weighted:
            w = r.choice(WEIGHTS)
        tags = []
        while r.chance(0.08):
            tags.append(r.choice(["tag", "a b", "x=1;", "\\}", "(", "ü", ""]))
        return (w, tags, self.exp(ctx, depth, last))

    def seq(self, ctx, depth, last, weighted):
        n = self.rng.weighted([(1, 40), (2, 35), (3, 20), (4, 5)])
        return [self.item(ctx, depth, last and i == n - 1, weighted and i == 0) for i in range(n)]

    def alts(self, ctx, depth, last):
        r = self.rng
        n = r.weighted([(1, 45), (2, 35), (3, 15), (4, 5)])
        mode = r.weighted([("none", 70), ("all", 22), ("some", 8)]) if n > 1 or r.chance(0.1) else "none"
        out = []
        for _ in range(n):
            weighted = mode == "all" or (mode == "some" and r.chance(0.5))
            out.append(self.seq(ctx, depth, last, weighted))
        return out

    def grammar(self):
        """a grammar whose expansion (one fresh instance per reference) stays below MAX_STATES states"""
        for _ in range(50):
            g, kind = self.grammar1()
            if expansion_size(g) <= MAX_STATES:
                break
            self.bump("regenerated", "expansion too large")
        self.bump("kind", kind)
        return g

    def grammar1(self):
        r = self.rng
        kind = r.weighted([("acyclic", 34), ("tail", 26), ("anyref", 16), ("hidden", 10), ("odd", 14)])
        nrules = r.weighted([(1, 20), (2, 30), (3, 25), (4, 15), (5, 10)])
        names = list(RULENAMES)
        r.shuffle(names)
        names = names[:nrules]
        words = list(WORDS)
        r.shuffle(words)
        words = words[:r.range(2, 4)]
        maxdepth = r.weighted([(0, 10), (1, 20), (2, 25), (3, 20), (4, 12), (5, 8), (6, 5)])
        gname = r.weighted([("g", 70), ("turtle", 15), ("com.example.cmds", 15)])
        rules = []
        if kind == "hidden" and nrules >= 2:
            # non-tail recursion hidden behind a chain of tail references (D7 class), decorated
            chain = names[:r.range(2, nrules)]
            for i, nm in enumerate(chain):
                nxt = chain[(i + 1) % len(chain)]
                ctx = dict(words=words, refs=[], refs_tail=[], pref=0, pnull=3, pvoid=2)
                pre = self.seq(ctx, 1, False, False)
                if i == 0:
                    post = self.seq(ctx, 1, False, False) if r.chance(0.8) else []
                    body = [pre + [(None, [], ("r", nxt))] + post, self.seq(ctx, 1, False, False)]
                else:
                    body = [pre + [(None, [], ("r", nxt))]]
                    if r.chance(0.4):
                        body.append(self.seq(ctx, 1, False, False))
                if r.chance(0.5):
                    body.reverse()
                rules.append((nm, i == 0, body))
            for nm in names[len(chain):]:
                ctx = dict(words=words, refs=[], refs_tail=[], pref=0, pnull=3, pvoid=2)
                rules.append((nm, False, self.alts(ctx, 1, True)))
        else:
            for i, nm in enumerate(names):
                later = names[i + 1:]
                ctx = dict(words=words, pnull=r.choice([0, 4, 10]), pvoid=r.choice([0, 0, 3, 8]), pref=25)
                if kind == "acyclic":
                    ctx.update(refs=later, refs_tail=later)
                elif kind == "tail":
                    ctx.update(refs=later, refs_tail=later + names[:i + 1] * 2)
                elif kind == "anyref":
                    ctx.update(refs=names, refs_tail=names)
                else:  # odd: undefined references, <VOID>/<NULL> heavy
                    ctx.update(refs=later + ["undefined", "nowhere"] if r.chance(0.5) else later,
                               refs_tail=later + names[:i + 1], pnull=12, pvoid=12)
                rules.append((nm, False, self.alts(ctx, maxdepth, True)))
        pubs = r.weighted([("first", 70), ("none", 8), ("several", 14), ("last", 8)])
        self.bump("public", pubs)
        out = []
        for i, (nm, _, body) in enumerate(rules):
            p = (pubs == "first" and i == 0) or (pubs == "last" and i == len(rules) - 1) or \
                (pubs == "several" and (i == 0 or r.chance(0.5)))
            out.append((nm, p, body))
        return {"name": gname, "rules": out}, kind


# ----------------------------------------------------------------------------
# printing to JSGF text

class Printer:
    """plain=True: canonical minimal text; otherwise random layout, comments, qualified references"""

    def __init__(self, rng=None, plain=True, stats=None):
        self.rng, self.plain, self.stats = rng, plain or rng is None, stats

    def note(self, what):
        if self.stats is not None:
            self.stats["text_features"][what] = self.stats["text_features"].get(what, 0) + 1

    def sp(self, must=False):
        if self.plain:
            return " " if must else ""
        r = self.rng
        k = r.weighted([("one", 55), ("none", 20), ("many", 12), ("nl", 6), ("cc", 5), ("lc", 2)])
        if k == "none" and not must:
            return ""
        if k == "many":
            return r.choice(["  ", " \t ", "   "])
        if k == "nl":
            return r.choice(["\n", "\r\n", "\n    "])
        if k == "cc":
            self.note("c-comment")
            return " /* " + r.choice(["note", "x | y ; <a> =", "* star *", "", "{ [ ("]) + " */ "
        if k == "lc":
            self.note("line-comment")
            return " // " + r.choice(["comment", "<a> = b;", "/* not nested"]) + "\n"
        return " "

    def exp(self, e, gname):
        k = e[0]
        if k == "t":
            return e[1]
        if k == "r":
            if not self.plain and self.rng.chance(0.15):
                self.note("qualified-reference")
                return f"<{gname}.{e[1]}>"
            return f"<{e[1]}>"
        if k == "n":
            return "<NULL>"
        if k == "v":
            return "<VOID>"
        if k == "G":
            return "(" + self.sp() + self.alts(e[1], gname) + self.sp() + ")"
        if k == "O":
            return "[" + self.sp() + self.alts(e[1], gname) + self.sp() + "]"
        return self.exp(e[1], gname) + self.sp() + ("*" if k == "S" else "+")

    def item(self, it, gname):
        w, tags, e = it
        s = ""
        if w is not None:
            s += "/" + w + "/" + self.sp()
        s += self.exp(e, gname)
        for t in tags:
            s += self.sp() + "{" + t + "}"
        return s

    def seq(self, s, gname):
        out = ""
        for i, it in enumerate(s):
            if i:
                out += self.sp(must=True) or " "
            out += self.item(it, gname)
        return out

    def alts(self, a, gname):
        return (self.sp() + "|" + self.sp()).join(self.seq(s, gname) for s in a)

    def grammar(self, g):
        gname = g["name"]
        if self.plain:
            head = "#JSGF V1.0;\ngrammar " + gname + ";\n"
        else:
            r = self.rng
            head = r.choice(["#JSGF V1.0;", "#JSGF V1.0 UTF-8;", "#JSGF V1.0 UTF-8 en;", "\ufeff#JSGF V1.0;", "#JSGF;"])
            head += self.sp(must=True) or "\n"
            head += "grammar" + (self.sp(must=True) or " ") + gname + self.sp() + ";" + self.sp(must=True)
        out = head
        for nm, pub, body in g["rules"]:
            out += ("public" + (self.sp(must=True) or " ") if pub else "") + f"<{nm}>" + self.sp() + "=" + self.sp() + \
                self.alts(body, gname) + self.sp() + ";" + (self.sp(must=True) or "\n")
        return out


# ----------------------------------------------------------------------------
# encodings for harness and driver

def hx(s):
    b = s.encode("utf-8")
    return b.hex() if b else "-"


def unhx(h):
    return "" if h == "-" else bytes.fromhex(h).decode("utf-8", errors="replace")


class Ids:
    def __init__(self, g):
        self.rule = {nm: i for i, (nm, _, _) in enumerate(g["rules"])}
        self.word = {}
        for _, _, body in g["rules"]:
            walk_exps(body, self.see)

    def see(self, e):
        if e[0] == "t":
            self.word.setdefault(e[1], len(self.word))
        elif e[0] == "r":
            self.rule.setdefault(e[1], len(self.rule))


def driver_tokens(g, ids):
    def exp(e):
        k = e[0]
        if k == "t":
            return ["t", str(ids.word[e[1]])]
        if k == "r":
            return ["r", str(ids.rule[e[1]])]
        if k in ("n", "v"):
            return [k]
        if k in ("G", "O"):
            return [k] + alts(e[1])
        return [k] + exp(e[1])

    def alts(a):
        out = [str(len(a))]
        for s in a:
            out.append(str(len(s)))
            for w, tags, e in s:
                q = weight_value(w) if w is not None else Fraction(1)
                out += [str(q.numerator), str(q.denominator), str(len(tags))] + exp(e)
        return out
    toks = [str(len(g["rules"]))]
    for nm, pub, body in g["rules"]:
        toks += [str(ids.rule[nm]), "1" if pub else "0"] + alts(body)
    return toks


# ----------------------------------------------------------------------------
# parsing harness output

def parse_harness(out):
    """-> list of case dicts"""
    cases, cur = [], None
    for line in out.split("\n"):
        w = line.split(" ")
        if w[0] == "case":
            cur = {"id": w[1], "parse": None, "rules": {}, "fsg": [], "stack": [], "read": None, "done": False, "missing": []}
            cases.append(cur)
        elif cur is None:
            continue
        elif w[0] == "parse":
            cur["parse"] = (w[1] == "ok")
            cur["gname"] = unhx(w[2]) if len(w) > 2 else None
        elif w[0] == "rules":
            cur["cur_rules"] = w[1]
            cur["rules"][w[1]] = []
        elif w[0] == "rule":
            alts = []
            if w[3] != "-":
                for alt in w[3].split("|"):
                    atoms = []
                    if alt != "-":
                        for a in alt.split(","):
                            nm, wt, nt = a.split(":")
                            atoms.append((unhx(nm), float(wt), int(nt)))
                    alts.append(atoms)
            cur["rules"][cur["cur_rules"]].append((unhx(w[1]), w[2] == "1", alts))
        elif w[0] == "top":
            cur["missing"].append(unhx(w[1]))
        elif w[0] == "fsg":
            top, kind = unhx(w[1]), w[2]
            if len(w) < 4 or w[3] == "":
                cur["fsg"].append((top, kind, "crash"))
            elif w[3] == "null":
                cur["fsg"].append((top, kind, None))
            else:
                cur["fsg"].append((top, kind, parse_fsg_body(w[3:])))
        elif w[0] == "stack":
            cur["stack"].append((unhx(w[1]), int(w[2])))
        elif w[0] == "read":
            if len(w) < 2 or w[1] == "":
                cur["read"] = "crash"
            elif w[1] == "null":
                cur["read"] = None
            else:
                cur["read"] = (unhx(w[1]), parse_fsg_body(w[2:]))
        elif w[0] == "end":
            cur["done"] = True
    return cases


def parse_fsg_body(w):
    n, st, fin, narcs = int(w[0]), int(w[1]), int(w[2]), int(w[3])
    arcs = []
    for a in w[4:4 + narcs]:
        f, t, lp, wd = a.split(":")
        arcs.append((int(f), int(t), int(lp), None if wd == "-" else unhx(wd)))
    return {"n": n, "start": st, "final": fin, "arcs": arcs}


# ----------------------------------------------------------------------------
# canonical rule tables

def canon_table(rules):
    """rules: {name: (pub, [[(atomkey, weight, ntags)]])} with names 'u<n>'/'g<k>'; renumber internal rules
    in order of first visit from the user rules (sorted), alternatives and atoms in stored order."""
    order, ren = [], {}

    def visit(nm):
        if nm not in rules or nm in order:
            return
        order.append(nm)
        for alt in rules[nm][1]:
            for a, _, _ in alt:
                if a.startswith("g") and a[1:].isdigit():
                    if a not in ren:
                        ren[a] = "G%d" % len(ren)
                    visit(a)
    for nm in sorted(k for k in rules if k.startswith("u")):
        visit(nm)
    for nm in sorted(rules):
        if nm not in order:
            ren.setdefault(nm, "X" + nm)
            order.append(nm)
    out = []
    for nm in order:
        pub, alts = rules[nm]
        out.append((ren.get(nm, nm), pub, [[(ren.get(a, a), w, t) for a, w, t in alt] for alt in alts]))
    return out


def c_table(crules, gname, ids):
    """C dump -> {name: (pub, alts)} in model naming"""
    def rname(full):
        inner = full[1:-1]
        if inner.startswith(gname + "."):
            inner = inner[len(gname) + 1:]
        if re.fullmatch(r"g[0-9]{5}", inner):
            return "g%d" % int(inner[1:])
        if inner in ids.rule:
            return "u%d" % ids.rule[inner]
        return "?" + full
    out = {}
    for nm, pub, alts in crules:
        al = []
        for alt in alts:
            at = []
            for a, w, t in alt:
                if a == "<NULL>":
                    k = "n"
                elif a == "<VOID>":
                    k = "v"
                elif a.startswith("<"):
                    k = rname(a)
                else:
                    k = "t%d" % ids.word[a] if a in ids.word else "?" + a
                at.append((k, w, t))
            al.append(at)
        out[rname(nm)] = (pub, al)
    return out


def m_table(line):
    """driver `table`/`ntable` line -> {name: (pub, alts)} with exact weights"""
    parts = line.split(" | ")[1:]
    out = {}
    for p in parts:
        if not p.strip():
            continue
        nm, pub, alts = p.split(" ")
        al = []
        if alts != "-":
            for alt in alts.split(";"):
                at = []
                if alt != "-":
                    for a in alt.split(","):
                        k, q, t = a.split(":")
                        num, den = q.split("/")
                        at.append((k, Fraction(int(num), int(den)), int(t)))
                al.append(at)
        out[nm] = (pub == "1", al)
    return out


def tables_equal(ct, mt, tol=2e-6):
    a, b = canon_table(ct), canon_table(mt)
    if len(a) != len(b):
        return False, f"{len(a)} rules in the implementation, {len(b)} in the model"
    for (n1, p1, al1), (n2, p2, al2) in zip(a, b):
        if n1 != n2 or p1 != p2 or len(al1) != len(al2):
            return False, f"rule {n1}/{n2}: name, public flag or number of alternatives differ"
        for x, y in zip(al1, al2):
            if len(x) != len(y):
                return False, f"rule {n1}: alternative lengths differ"
            for (k1, w1, t1), (k2, w2, t2) in zip(x, y):
                if k1 != k2 or t1 != t2:
                    return False, f"rule {n1}: atom {k1}/{k2} tags {t1}/{t2}"
                if abs(w1 - float(w2)) > tol * max(1.0, abs(float(w2))):
                    return False, f"rule {n1}: weight of {k1}: {w1} vs {float(w2)}"
    return True, ""


# ----------------------------------------------------------------------------
# running one batch

LOGBASE = math.log(1.0001)


def fsg_arcs_tokens(fsg, ids, extra_words):
    toks = []
    for f, t, lp, wd in fsg["arcs"]:
        if wd is None:
            toks.append(f"{f}:{t}:-")
        else:
            if wd not in ids.word:
                extra_words.setdefault(wd, 100000 + len(extra_words))
            toks.append(f"{f}:{t}:{ids.word.get(wd, extra_words.get(wd))}")
    return toks


def run_batch(binp, cases):
    """cases: list of (grammar, text).  Returns list of result dicts (implementation + model observations)."""
    lines = []
    for i, (g, text) in enumerate(cases):
        tops = ",".join(hx(f"<{g['name']}.{nm}>") for nm, _, _ in g["rules"])
        lines.append(f"case {i} {hx(text)} {tops or '-'}")
    results = [None] * len(cases)
    # builds of other working trees may have pruned the cached library: (re)build, this also refreshes its age
    binp = vlib.build_harness("h_c05")
    # the harness may die inside the library; restart after the failing case
    pos = 0
    hcases = []
    while pos < len(cases):
        rc, out, err = vlib.run_bin(binp, stdin_text="\n".join(lines[pos:]) + "\n", timeout=600)
        got = parse_harness(out)
        for hc in got:
            hc["rc"], hc["err"] = 0, ""
        if rc != 0 and got:
            got[-1]["rc"], got[-1]["err"] = rc, err[-3000:]
        elif rc != 0:
            got.append({"id": str(pos), "parse": None, "rules": {}, "fsg": [], "stack": [], "read": None,
                        "done": False, "rc": rc, "err": err[-3000:], "missing": []})
        hcases += got
        if not got:
            break
        pos += len(got)
    # driver
    dlines, plan, results_skip = [], [], []
    for i, (g, text) in enumerate(cases):
        hc = hcases[i] if i < len(hcases) else None
        ids = Ids(g)
        extra = {}
        dlines.append("gram " + " ".join(driver_tokens(g, ids)))
        plan.append((i, "table", None))
        dlines.append("norm")
        plan.append((i, "norm", None))
        for nm, _, _ in g["rules"]:
            dlines.append(f"rep u{ids.rule[nm]} {FUEL}")
            plan.append((i, "rep", nm))
        if hc:
            for top, kind, fsg in hc["fsg"]:
                if isinstance(fsg, dict):
                    nm = top[1 + len(g["name"]) + 1:-1]
                    if kind == "closed" and len(fsg["arcs"]) > MAX_CLOSED_ARCS:
                        results_skip.append((i, nm, kind))
                        continue
                    dlines.append(f"cmp u{ids.rule[nm]} {FUEL} {MAXPAIRS} {fsg['n']} {fsg['start']} {fsg['final']} " +
                                  " ".join(fsg_arcs_tokens(fsg, ids, extra)))
                    plan.append((i, "cmp", (nm, kind)))
            if isinstance(hc["read"], tuple):
                top, fsg = hc["read"]
                nm = top[1 + len(g["name"]) + 1:-1]
                if nm in ids.rule and len(fsg["arcs"]) > MAX_CLOSED_ARCS:
                    results_skip.append((i, nm, "read"))
                elif nm in ids.rule:
                    dlines.append(f"cmp u{ids.rule[nm]} {FUEL} {MAXPAIRS} {fsg['n']} {fsg['start']} {fsg['final']} " +
                                  " ".join(fsg_arcs_tokens(fsg, ids, extra)))
                    plan.append((i, "cmp", (nm, "read")))
        results[i] = {"g": g, "text": text, "ids": ids, "h": hc, "m": {"rep": {}, "cmp": {}}, "extra_words": extra}
    rc, dout, derr = run_driver_retry("\n".join(dlines) + "\n")
    douts = dout.rstrip("\n").split("\n") if dout.strip() else []
    if rc != 0 or len(douts) != len(plan):
        raise DriverFailure(f"driver rc={rc}, {len(douts)} answers for {len(plan)} questions: {derr[-800:]}")
    for i, nm, kind in results_skip:
        results[i]["m"]["cmp"][(nm, kind)] = "skipped-size"
    for (i, what, arg), ans in zip(plan, douts):
        m = results[i]["m"]
        if what == "table":
            m["table_line"] = ans
        elif what == "norm":
            m["norm_line"] = ans
        elif what == "rep":
            m["rep"][arg] = ans
        else:
            m["cmp"][arg] = ans
    return results


class DriverFailure(Exception):
    pass


def run_driver_retry(text, timeout=1800):
    """the driver executable is relinked whenever anybody rebuilds the Lean project: wait for it"""
    import time
    last = None
    for _ in range(60):
        try:
            rc, out, err = vlib.run_driver("c05", text, timeout=timeout)
            if rc == 2 and "usage" in err:      # a driver linked without this sub-command (rebuild in progress)
                last = err
                time.sleep(3)
                continue
            return rc, out, err
        except OSError as e:
            last = e
            time.sleep(3)
    raise DriverFailure(f"driver executable not runnable: {last!r}")


# ----------------------------------------------------------------------------
# judging one case

def choice_point_sums(fsg):
    """states of the raw FSG with >= 2 outgoing arcs: sum of arc probabilities"""
    out = {}
    for f, t, lp, wd in fsg["arcs"]:
        out.setdefault(f, []).append(lp)
    res = []
    for st, lps in out.items():
        if len(lps) >= 2:
            res.append((st, sum(math.exp(lp * LOGBASE) for lp in lps), lps))
    return res


def judge_case(res):
    """-> list of problems: (kind, impl_violates_property, detail)"""
    g, hc, m, ids = res["g"], res["h"], res["m"], res["ids"]
    probs = []
    names = [nm for nm, _, _ in g["rules"]]
    if hc is None:
        return [("harness produced nothing for the case", False, "")]
    if hc.get("rc"):
        probs.append(("the library crashed / exited / was stopped by a sanitizer", True,
                      {"exit_code": hc["rc"], "stderr_tail": sanitizer_summary(hc["err"])}))
    tl = m.get("table_line", "")
    if not tl.startswith("table 1 1 "):
        probs.append(("model: tableMatches(desugar g, g) or namesDistinct is false", False, tl[:60]))
    if hc["parse"] is False:
        probs.append(("the real front end rejects a valid JSGF text", True, ""))
        return probs
    if hc["parse"] is None:
        return probs
    # (a) rule table
    try:
        ct = c_table(hc["rules"].get("parsed", []), hc["gname"] or g["name"], ids)
        ok, why = tables_equal(ct, m_table(tl))
    except Exception as e:  # malformed dump
        ok, why = False, f"cannot read the rule table dump: {e!r}"
    if not ok:
        probs.append(("rule table built by the real scanner/parser differs from desugar(g)", None, why))
    if hc["missing"]:
        probs.append(("a defined rule is missing from jsgf->rules", None, hc["missing"]))
    # (b) accept/refuse and (c) language
    rep = {}
    for nm in names:
        w = m["rep"].get(nm, "").split(" ")
        rep[nm] = (len(w) >= 5 and w[1] == "1")
        if len(w) >= 5 and w[1] == "1" and w[4] == "none":
            probs.append((f"model: representable rule <{nm}> but the exploration found no closed finite set of forms "
                          f"within {FUEL}", False, ""))
    for top, kind, fsg in hc["fsg"]:
        nm = top[1 + len(g["name"]) + 1:-1]
        if fsg == "crash":
            continue
        if fsg is None:
            if rep.get(nm):
                probs.append((f"rule <{nm}> ({kind}) is representable (only right recursion, all rules defined) but the "
                              f"compiler refuses it", True, ""))
            continue
        if not rep.get(nm):
            probs.append((f"rule <{nm}> ({kind}) cannot be represented (undefined rule, or recursion that is not right "
                          f"recursion along the whole reference chain) but the compiler builds an FSG instead of refusing",
                          True, {"fsg": fsg_brief(fsg)}))
            continue
        ans = m["cmp"].get((nm, kind), "")
        if ans == "equal" or ans == "skipped-size":
            pass
        elif ans.startswith("differ "):
            w = ans.split(" ")
            sent = words_of(w[1], ids, res["extra_words"])
            probs.append((f"rule <{nm}> ({kind} FSG): sentence {sent!r} is "
                          f"{'accepted' if w[2] == 'impl=1' else 'rejected'} by the FSG but "
                          f"{'in' if w[3] == 'spec=1' else 'not in'} the language of the JSGF rule",
                          True, {"sentence": sent, "fsg": fsg_brief(fsg)}))
        else:
            probs.append((f"language comparison for <{nm}> ({kind}) did not complete: {ans[:80]}", False, ""))
    # (e) rule stack
    for top, depth in hc["stack"]:
        if depth != 0:
            probs.append((f"rule stack not empty after building {top} (depth {depth}): a later build is influenced",
                          None, ""))
    # (d) weights
    built_ok = all(isinstance(f, dict) for _, _, f in hc["fsg"]) and hc["fsg"]
    if built_ok and "built" in hc["rules"]:
        try:
            ct = c_table(hc["rules"]["built"], hc["gname"] or g["name"], ids)
            ok, why = tables_equal(ct, m_table(m.get("norm_line", "")), tol=1e-4)
        except Exception as e:
            ok, why = False, repr(e)
        if not ok:
            probs.append(("first-atom weights after the build differ from normaliseRule over Q", None, why))
    for top, kind, fsg in hc["fsg"]:
        if kind == "raw" and isinstance(fsg, dict) and rep.get(top[1 + len(g["name"]) + 1:-1]):
            for st, total, lps in choice_point_sums(fsg):
                zero = all(lp < -10 ** 8 for lp in lps)
                if not zero and abs(total - 1.0) > 2e-3 * len(lps):
                    # merged duplicate arcs / dropped self-loops are legitimate reasons only for tail self references
                    probs.append((f"choice point state {st} of the raw FSG of {top}: probabilities sum to {total:.5f}",
                                  None, {"logprobs": lps}))
    # (f) whole pipeline
    pubs = [nm for nm, p, _ in g["rules"] if p]
    rd = hc["read"]
    if rd == "crash":
        pass
    elif rd is None:
        if any(rep[nm] for nm in pubs) and all(rep[nm] for nm in pubs):
            probs.append(("jsgf_read_string refuses a grammar whose public rules are all representable", True, ""))
    else:
        top, fsg = rd
        nm = top[1 + len(g["name"]) + 1:-1]
        if not pubs:
            probs.append((f"no public rule, but jsgf_read_string compiles rule {top} instead of refusing", True,
                          {"fsg": fsg_brief(fsg)}))
        elif nm not in pubs:
            probs.append((f"jsgf_read_string compiles the non-public rule {top}", True, ""))
        elif not rep.get(nm):
            probs.append((f"jsgf_read_string compiles {top}, which cannot be represented, instead of refusing", True,
                          {"fsg": fsg_brief(fsg)}))
        else:
            ans = m["cmp"].get((nm, "read"), "")
            if ans.startswith("differ "):
                w = ans.split(" ")
                sent = words_of(w[1], ids, res["extra_words"])
                probs.append((f"jsgf_read_string, rule {top}: sentence {sent!r} is "
                              f"{'accepted' if w[2] == 'impl=1' else 'rejected'} by the FSG but "
                              f"{'in' if w[3] == 'spec=1' else 'not in'} the language of the JSGF rule", True,
                              {"sentence": sent}))
            elif ans not in ("equal", "skipped-size"):
                probs.append((f"language comparison for jsgf_read_string did not complete: {ans[:80]}", False, ""))
    return probs


def sanitizer_summary(err):
    keep = [l for l in err.split("\n") if any(k in l for k in ("ERROR", "SUMMARY", "runtime error", "FATAL", "Assertion", "    #"))]
    return "\n".join(keep[:14]) or err[-600:]


def words_of(s, ids, extra):
    if s == "-":
        return []
    inv = {v: k for k, v in ids.word.items()}
    inv.update({v: k for k, v in extra.items()})
    return [inv.get(int(x), "?" + x) for x in s.split(",")]


def fsg_brief(fsg):
    return {"n_state": fsg["n"], "start": fsg["start"], "final": fsg["final"],
            "arcs": [f"{f}->{t} {wd if wd is not None else 'eps'} {lp}" for f, t, lp, wd in fsg["arcs"][:60]]}


# ----------------------------------------------------------------------------
# shrinking a failing grammar

def shrink_candidates(g):
    """smaller grammars, most aggressive first"""
    rules = g["rules"]
    # drop a rule
    for i in range(len(rules)):
        if len(rules) > 1:
            yield {"name": g["name"], "rules": rules[:i] + rules[i + 1:]}
    for i, (nm, pub, body) in enumerate(rules):
        for nb in shrink_alts(body):
            yield {"name": g["name"], "rules": rules[:i] + [(nm, pub, nb)] + rules[i + 1:]}
    if g["name"] != "g":
        yield {"name": "g", "rules": rules}


def shrink_alts(a):
    for i in range(len(a)):
        if len(a) > 1:
            yield a[:i] + a[i + 1:]
    for i, s in enumerate(a):
        for ns in shrink_seq(s):
            yield a[:i] + [ns] + a[i + 1:]


def shrink_seq(s):
    for i in range(len(s)):
        if len(s) > 1:
            yield s[:i] + s[i + 1:]
    for i, (w, tags, e) in enumerate(s):
        if w is not None:
            yield s[:i] + [(None, tags, e)] + s[i + 1:]
        if tags:
            yield s[:i] + [(w, [], e)] + s[i + 1:]
        for ne in shrink_exp(e):
            yield s[:i] + [(w, tags, ne)] + s[i + 1:]
        # splice a group's single alternative into the sequence
        if e[0] == "G" and len(e[1]) == 1:
            yield s[:i] + e[1][0] + s[i + 1:]


def shrink_exp(e):
    k = e[0]
    if k in ("S", "P"):
        yield e[1]
        for ne in shrink_exp(e[1]):
            yield (k, ne)
    elif k in ("G", "O"):
        if len(e[1]) == 1 and len(e[1][0]) == 1:
            yield e[1][0][0][2]
        if k == "O":
            yield ("G", e[1])
        for na in shrink_alts(e[1]):
            yield (k, na)
    elif k == "t" and e[1] != "x":
        yield ("t", "x")


def problem_class(p):
    """stable class of a problem, used to keep the same failure while shrinking"""
    kind = p[0]
    kind = re.sub(r"<[^>]*>", "<R>", kind)
    kind = re.sub(r"sentence \[.*?\] is", "sentence S is", kind)
    kind = re.sub(r"\(raw FSG\)|\(closed FSG\)|\(raw\)|\(closed\)", "(K)", kind)
    kind = re.sub(r"state \d+ .*", "state", kind)
    kind = re.sub(r"\(depth \d+\)", "", kind)
    kind = re.sub(r"accepted|rejected", "A/R", kind)
    kind = re.sub(r"not in|\bin\b", "in?", kind)
    return kind


def shrink(binp, g, cls, budget=160):
    plain = Printer(plain=True)
    cur = g
    improved = True
    while improved and budget > 0:
        improved = False
        for cand in shrink_candidates(cur):
            if budget <= 0:
                break
            budget -= 1
            try:
                res = run_batch(binp, [(cand, plain.grammar(cand))])[0]
                probs = judge_case(res)
            except Exception:
                continue
            if any(problem_class(p) == cls for p in probs):
                cur, improved = cand, True
                break
    return cur


# ----------------------------------------------------------------------------
# the check

def report(c, binp, res, probs, label, do_shrink=True):
    """record obligations / violations for one failing case"""
    g, text = res["g"], res["text"]
    main = sorted(probs, key=lambda p: (p[1] is not True, p[0]))[0]
    cls = problem_class(main)
    small, stext, sprobs = g, text, probs
    if do_shrink:
        # first try the plain rendering of the same grammar (is the text layout needed?)
        try:
            plain_text = Printer(plain=True).grammar(g)
            r2 = run_batch(binp, [(g, plain_text)])[0]
            p2 = judge_case(r2)
            if any(problem_class(p) == cls for p in p2):
                small = shrink(binp, g, cls)
                stext = Printer(plain=True).grammar(small)
                r3 = run_batch(binp, [(small, stext)])[0]
                sprobs = judge_case(r3)
                res = r3
        except DriverFailure:
            pass
    impl = any(p[1] is True for p in sprobs)
    # problems with impl = None (table / weights / stack differences) are correspondence failures: the
    # implementation deviates from the model; they count as a violation of the property only together
    # with a language / refusal difference.
    c.oblige(f"correspondence model = implementation ({label})", False,
             {"problems": [p[0] for p in sprobs][:6], "jsgf": stext})
    hc = res["h"] or {}
    c.violation({"kind": "JSGF grammar", "jsgf_text": stext, "grammar": small,
                 "problems": [{"what": p[0], "implementation_violates_property": p[1], "detail": p[2]} for p in sprobs],
                 "implementation": {"parse": hc.get("parse"),
                                    "built": [(t, k, "FSG" if isinstance(f, dict) else f) for t, k, f in hc.get("fsg", [])],
                                    "rule_stack_depth_after_build": hc.get("stack"),
                                    "jsgf_read_string": "FSG of " + hc["read"][0] if isinstance(hc.get("read"), tuple) else hc.get("read")},
                 "model": {"representable": res["m"]["rep"], "comparison": {f"{k[0]}/{k[1]}": v for k, v in res["m"]["cmp"].items()}},
                 "implementation_violates_property": impl,
                 "how_to_rerun": "python3 tools/check.py C05 --replay <this file>"}, impl)


def account(stats, res, probs):
    hc, m, g = res["h"], res["m"], res["g"]
    st = stats
    st["rules_hist"][len(g["rules"])] = st["rules_hist"].get(len(g["rules"]), 0) + 1
    d = max(alts_depth(b) for _, _, b in g["rules"])
    st["depth_hist"][d] = st["depth_hist"].get(d, 0) + 1
    feats = set()

    def see(e):
        feats.add({"t": "token", "r": "reference", "n": "<NULL>", "v": "<VOID>", "G": "group", "O": "optional",
                   "S": "star", "P": "plus"}[e[0]])
    for _, _, b in g["rules"]:
        walk_exps(b, see)
        for s in b:
            for w, tags, _ in s:
                if w is not None:
                    feats.add("weight")
                    if weight_value(w) == 0:
                        feats.add("weight 0")
                    if weight_value(w) > 1:
                        feats.add("weight > 1")
                if tags:
                    feats.add("tag")
    names = {nm for nm, _, _ in g["rules"]}

    def undefd(e):
        if e[0] == "r" and e[1] not in names:
            feats.add("undefined reference")
    for _, _, b in g["rules"]:
        walk_exps(b, undefd)
    for f in feats:
        st["features"][f] = st["features"].get(f, 0) + 1
    for nm, ans in m["rep"].items():
        w = ans.split(" ")
        if len(w) >= 5:
            key = "representable" if w[1] == "1" else "not representable"
            st["model_decision"][key] = st["model_decision"].get(key, 0) + 1
            if w[4].isdigit():
                st["max_forms"] = max(st["max_forms"], int(w[4]))
                st["forms_total"] += int(w[4])
    if hc:
        for top, kind, fsg in hc["fsg"]:
            key = "built" if isinstance(fsg, dict) else ("refused" if fsg is None else "crash")
            st["impl_decision"][key] = st["impl_decision"].get(key, 0) + 1
            if isinstance(fsg, dict):
                st["max_fsg_states"] = max(st["max_fsg_states"], fsg["n"])
                st["max_fsg_arcs"] = max(st["max_fsg_arcs"], len(fsg["arcs"]))
        key = "FSG" if isinstance(hc["read"], tuple) else str(hc["read"])
        st["read_string"][key] = st["read_string"].get(key, 0) + 1
    for k, ans in m["cmp"].items():
        key = ans.split(" ")[0]
        st["comparisons"][key] = st["comparisons"].get(key, 0) + 1


def new_stats():
    return {"kind": {}, "public": {}, "rules_hist": {}, "depth_hist": {}, "features": {}, "model_decision": {},
            "impl_decision": {}, "read_string": {}, "comparisons": {}, "text_features": {}, "max_forms": 0,
            "forms_total": 0, "max_fsg_states": 0, "max_fsg_arcs": 0}


def recursion_class(g):
    """untrusted classification for the measured distribution only"""
    names = [nm for nm, _, _ in g["rules"]]
    return None


def small_scope(atoms, max_alts_a):
    """every grammar `<a> = A; <b> = B;` with A of <= max_alts_a alternatives, B one alternative, alternatives of
    <= 2 atoms over `atoms`"""
    seqs = [[a] for a in atoms] + [[a, b] for a in atoms for b in atoms]
    bodies_a = [[s] for s in seqs]
    if max_alts_a >= 2:
        bodies_a += [[s, t] for s in seqs for t in seqs]
    for A in bodies_a:
        for B in seqs:
            yield {"name": "g", "rules": [("a", True, [[(None, [], e) for e in s] for s in A]),
                                          ("b", False, [[(None, [], e) for e in B]])]}


def check(c):
    c.trusted += ["harness/h_c05.c + tools/props/c05.py (generator, JSGF printer, canonicalisation of rule tables, diff)",
                  "the generated scanner/parser are not modelled line by line: they are tied through the rule-table diff",
                  "word identity: the FSG word of a token is the token text as written (quoted tokens keep their quotes)",
                  "fsg_model_arcs / fsg_arciter_* as the observer of the FSG; logmath only for the probability sums",
                  "clang ASan/UBSan as observer of memory errors during parsing/expansion"]
    c.assumptions += ["weights are written on the first item of an alternative (JSGF places weights on alternatives); "
                      "a weight > 1 on a later rule reference makes fsg_model_null_trans_add call E_FATAL and is outside the quantifier",
                      "rule names are distinct within a grammar and do not have the form gNNNNN; imports are not generated",
                      "a zero-weight alternative is compared structurally (the arc exists with log-zero probability)",
                      "the compiler may refuse any rule whose reference graph has a cycle through a non-final reference "
                      "(even when <VOID>/<NULL> make the language regular); `representable` is that syntactic test"]
    if not c.lean_obligations():
        return
    binp = vlib.build_harness("h_c05")
    stats = new_stats()
    gen = Gen(c.rng, stats)
    failures = 0
    evaluations = 0
    distinct = set()

    def process(cases, label, do_shrink=True):
        nonlocal failures, evaluations
        try:
            results = run_batch(binp, cases)
        except DriverFailure as e:
            c.oblige(f"model driver runs ({label})", False, str(e))
            failures += 1
            return
        for res in results:
            evaluations += 1
            probs = judge_case(res)
            account(stats, res, probs)
            if probs and failures < 3:
                failures += 1
                report(c, binp, res, probs, label, do_shrink)
            elif probs:
                failures += 1

    # corpus first
    corpus = sorted((vlib.ROOT / "corpus" / "C05").glob("*.json"))
    ccases = []
    for f in corpus:
        obj = json.loads(f.read_text())
        g = fix_grammar(obj["grammar"])
        ccases.append((g, obj.get("jsgf_text") or Printer(plain=True).grammar(g)))
    if ccases:
        process(ccases, "corpus", do_shrink=False)
    ncases = 260 if c.tier == "quick" else 9000
    batch = []
    for i in range(ncases):
        if failures >= 3:
            break
        g = gen.grammar()
        pr = Printer(c.rng, plain=c.rng.chance(0.25), stats=stats)
        text = pr.grammar(g)
        distinct.add(text)
        if len(c.samples) < 4 and i % 37 == 0:
            c.samples.append(text[:400])
        batch.append((g, text))
        if len(batch) >= 130 or i == ncases - 1:
            process(batch, f"generated batch ending at case {i}")
            batch = []
    exhaustive = 0
    if failures == 0:
        atoms_q = [("t", "x"), ("r", "a"), ("r", "b"), ("v",)]
        atoms_t = [("t", "x"), ("r", "a"), ("r", "b"), ("n",), ("v",), ("r", "u")]
        stream = small_scope(atoms_q, 1) if c.tier == "quick" else small_scope(atoms_t, 2)
        plain = Printer(plain=True)
        batch = []
        for g in stream:
            batch.append((g, plain.grammar(g)))
            exhaustive += 1
            if len(batch) >= 400:
                process(batch, "small-scope exhaustive", do_shrink=False)
                batch = []
                if failures:
                    break
        if batch and not failures:
            process(batch, "small-scope exhaustive", do_shrink=False)
    c.oblige("correspondence: real scanner/parser/expansion (ASan/UBSan) agree with the model on every generated grammar "
             "(rule table, accept/refuse, language of raw and closed FSG, weights, rule stack, jsgf_read_string)",
             failures == 0, f"{failures} failing cases")
    nontrivial = stats["comparisons"].get("equal", 0) + stats["comparisons"].get("differ", 0)
    c.cov.update({"evaluations": evaluations, "distinct_nontrivial": len(distinct) + exhaustive,
                  "rule": "distinct generated JSGF texts (1-5 rules, nesting depth 0-6, rule graphs with repeated references, "
                          "tail/non-tail/left/hidden recursion, undefined rules, <NULL>/<VOID>, weights, tags, comments, quoting) "
                          "plus the exhaustive two-rule small scope; every rule of every grammar is built as top (raw and closed)",
                  "verified_language_comparisons": nontrivial, "small_scope_exhaustive_grammars": exhaustive,
                  "corpus_cases": len(ccases), "generator_kind": stats["kind"], "public_rule_choice": stats["public"],
                  "rules_per_grammar": {str(k): v for k, v in sorted(stats["rules_hist"].items())},
                  "nesting_depth": {str(k): v for k, v in sorted(stats["depth_hist"].items())},
                  "grammars_with_feature": stats["features"], "text_features": stats["text_features"],
                  "model_decision_per_top": stats["model_decision"], "implementation_decision_per_build": stats["impl_decision"],
                  "jsgf_read_string": stats["read_string"], "comparison_verdicts": stats["comparisons"],
                  "max_explored_forms": stats["max_forms"], "explored_forms_total": stats["forms_total"],
                  "max_fsg_states": stats["max_fsg_states"], "max_fsg_arcs": stats["max_fsg_arcs"],
                  "failing_cases": failures})


def fix_grammar(g):
    """JSON round trip turns tuples into lists"""
    def exp(e):
        k = e[0]
        if k in ("G", "O"):
            return (k, alts(e[1]))
        if k in ("S", "P"):
            return (k, exp(e[1]))
        return tuple(e)

    def alts(a):
        return [[(it[0], list(it[1]), exp(it[2])) for it in s] for s in a]
    return {"name": g["name"], "rules": [(r[0], bool(r[1]), alts(r[2])) for r in g["rules"]]}


def replay(c, path):
    c.lean_obligations()
    binp = vlib.build_harness("h_c05")
    obj = json.loads(open(path).read())
    g = fix_grammar(obj["grammar"])
    text = obj.get("jsgf_text") or Printer(plain=True).grammar(g)
    res = run_batch(binp, [(g, text)])[0]
    probs = judge_case(res)
    if probs:
        report(c, binp, res, probs, "replay", do_shrink=False)
    c.oblige("replayed grammar: implementation agrees with the model", not probs, [p[0] for p in probs])
    c.cov.update({"evaluations": 1, "distinct_nontrivial": 1})
