"""C06 byte-order family (implementation-side tie of Model/FeSwap.lean + Props/C06Swap.lean).

The Lean theorem says: for every call schedule, both sample types, dither on/off, swap on/off,
 (a) between calls every valid cell fe->overflow_samps[0..num_overflow_samps) holds float32(sample/32768) of source
     sample (consumed_so_far - num_overflow_samps + i) in INPUT byte order (byte-reversed iff fe->swap),
 (b) fe->spch cells are host-order values,
 (c) the windows are the canonical ones, so swapping does not change the output.
This family evaluates exactly these three statements on the real fe_process_int16 / fe_process_float32 / fe_end
through the harness ops `swcfg` / `swp` (harness/h_c06.c): two front ends with the same parameters, A with
input_endian = host order fed the raw signal, B with the opposite input_endian fed the signal whose every sample is
byte-reversed, same call schedule, the one global dither generator re-seeded (s3_rand_seed) before each run.

What is NOT claimed: independence of the frames from the chunking when dither is on.  That is false by design:
fe_read_frame_* (first frame of a call, read_overflow_frame, fe_end) draws one random number per sample of the whole
window, fe_shift_frame_* only for the frame_shift new samples, so the number (and the position) of draws depends on
where the calls are cut.  The probe at the end of swap_family records this on the real code.
"""
import time
import vlib

SWAP_CONFIGS = ["default", "tiny", "small", "r8k", "nolap"]
SEED = 4242
PATHS = {"overflow_append onto a non-empty carry": lambda c: c["p"] == "O",
         "overflow_append onto an empty carry": lambda c: c["p"] == "o",
         "read_overflow_frame": lambda c: c["p"] == "r",
         "direct first frame": lambda c: c["p"] == "d",
         "create_overflow_frame": lambda c: c["q"] == "c",
         "append_overflow_frame": lambda c: c["q"] == "p",
         "output-limited call (limit < dry-run count)": lambda c: c["limit"] < c["dry"],
         "call completes exactly one frame (carry + chunk == frame_size)": lambda c: c["exact"]}
REQUIRED = ["overflow_append onto a non-empty carry", "read_overflow_frame", "create_overflow_frame",
            "append_overflow_frame", "output-limited call (limit < dry-run count)",
            "call completes exactly one frame (carry + chunk == frame_size)", "fe_end short frame",
            "single big chunk"]


def spec_str(specs):
    return " ".join(f"{n}:{','.join(map(str, l)) if l else '-'}" for n, l in specs)


def fill(specs, N):
    """append what is left of the signal as one dry-run chunk"""
    used = sum(n for n, _ in specs)
    if used > N:
        out, acc = [], 0
        for n, l in specs:
            if acc + n > N:
                break
            out.append((n, l))
            acc += n
        specs, used = out, acc
    return specs + ([(N - used, [])] if N - used > 0 else [])


def schedules(rng, S, H, N, quick):
    """list of (label, specs) for a signal of N samples, frame size S, shift H"""
    out = [("single big chunk", [(N, [])])]
    if N < S:
        a = max(1, N // 3)
        out.append(("short chunks only, frame comes from fe_end", fill([(a, []), (a, [])], N)))
        out.append(("one-sample drip", [(1, [])] * N))
        return out
    a = max(1, S // 4)
    # several consecutive chunks each too short to complete a frame, then exactly the completion, again
    out.append(("short chunks onto carry, then exact completion",
                fill([(a, []), (a, []), (a, []), (S - 3 * a, []), (1, []), (max(1, H // 2), []), (max(1, H - 1 - H // 2), [])], N)))
    out.append(("exact frames", fill([(S, [])] + [(H, [])] * 4 + [(2 * H, []), (H, [])], N)))
    # carry > shift, then a chunk that yields one frame and leaves data in the overflow buffer: append_overflow_frame
    if S > 2 * H or S - 1 > H:
        c0 = S - 1
        out.append(("append_overflow_frame after a long carry",
                    fill([(c0, []), (1, []), (c0 - H if c0 - H > 0 else 1, []), (H, []), (1, []), (H, []), (2, [])], N)))
    # output-limited calls leaving a carry / leaving the block unconsumed
    big = min(N, 3 * S + H)
    out.append(("limits 1,0 then dry-run", fill([(a, []), (big, [1, 0])], N)))
    out.append(("limits 0,1,1 then dry-run", fill([(big, [0, 1, 1]), (a, []), (a, [])], N)))
    out.append(("limit 2 then short chunks", fill([(S + 2 * H + 1, [2]), (1, []), (1, []), (H, [1])], N)))
    if H > 1:
        out.append(("one-sample drip then rest", fill([(1, [])] * min(S + H + 2, 60 if quick else 600), N)))
    nrand = 8 if quick else 40
    for _ in range(nrand):
        specs, acc = [], 0
        while acc < N and len(specs) < 40:
            k = rng.choice(["lt", "lt", "H", "S", "S1", "big", "one"])
            n = {"lt": rng.range(1, max(1, S - 1)), "H": H, "S": S, "S1": S + rng.choice([-1, 1]),
                 "big": rng.range(S, 3 * S + H), "one": 1}[k]
            n = max(1, min(n, N - acc))
            lim = []
            if rng.chance(0.3):
                lim = [rng.choice([0, 1, 1, 2, 3]) for _ in range(rng.range(1, 2))]
            specs.append((n, lim))
            acc += n
        out.append(("random", fill(specs, N)))
    return out


def parse_swp(line, S):
    w = line.split()
    if len(w) < 4 or w[0] != "swp":
        return None
    kv = dict(x.split("=", 1) for x in w[2:] if "=" in x)
    calls = []
    for rec in (kv.get("calls", "") or "").split(","):
        f = rec.split("/")
        if len(f) != 7:
            continue
        dry, limit, cons, got, nb, na = map(int, f[:6])
        calls.append({"dry": dry, "limit": limit, "cons": cons, "got": got, "nb": nb, "na": na, "p": f[6][0],
                      "q": f[6][1], "e": f[6][2] if len(f[6]) > 2 else w[1],
                      "exact": got == 1 and nb + cons == S and cons > 0})
    return {"ok": kv.get("ok") == "1", "fail": kv.get("fail", "?"), "frames": int(kv.get("frames", -1)),
            "nend": int(kv.get("nend", -1)), "ref": kv.get("ref", "-"), "hash": kv.get("hash", ""), "calls": calls}


def fail_class(item):
    if item.startswith("swap-flags"):
        return "flags"
    if "-ovf-tag" in item or "-spch-host-order" in item or "-novf-range" in item or "-spch-range" in item:
        return "tags"
    if item.startswith("frames-B-vs-single"):
        return "ref"
    return "equal"


def swap_family(c, binp, rng, sizes, quick, cfg_kv):
    """Runs the family, records the obligations on c and the counts in c.cov['swap_family']."""
    t0 = time.time()
    ops, ctx = [], []          # ctx[i] = (swcfg line, sig line, label, cid, dither, enc) for swp ops, else None
    kinds = [0, 1, 2, 3]
    for cid in SWAP_CONFIGS:
        if cid not in sizes:
            continue
        S, H = sizes[cid]
        kv = cfg_kv[cid]
        for dither in (0, 1):
            cfgl = f"swcfg {cid} {dither} {SEED} {kv}".rstrip()
            ops.append(cfgl)
            ctx.append(None)
            sigs = [(min(3000, 6 * S + 3 * H + rng.range(1, H)), rng.range(1, 10 ** 6), rng.choice(kinds)),
                    (max(2, S - 1 - rng.range(0, max(0, min(S - 3, H)))), rng.range(1, 10 ** 6), 2)]
            for N, sseed, kind in sigs:
                sigl = f"sig {N} {sseed} {kind}"
                ops.append(sigl)
                ctx.append(None)
                for label, specs in schedules(rng, S, H, N, quick):
                    for enc in "ifxy":   # x / y: mixed run, int16 and float32 entry points alternate per chunk
                        ops.append(f"swp {enc} 1 {spec_str(specs)}")
                        ctx.append((cfgl, sigl, label, cid, dither, enc))
    # the dither probe: same signal, two partitions, dither on / off
    probe_at = len(ops)
    S, H = sizes["default"]
    for dither in (1, 0):
        ops += [f"swcfg default {dither} {SEED}", "sig 3000 5 1", "swp i 1 3000:-", "swp i 1 1000:- 2000:-"]
        ctx += [None] * 4
    rc, out, err = vlib.run_bin(binp, stdin_text="\n".join(ops) + "\n", timeout=600)
    lines = [l for l in out.split("\n") if l and not l.startswith("#")]
    st = {"runs": 0, "failed": 0, "by_configuration": {}, "by_enc_dither": {}, "by_pattern": {}, "paths": {},
          "input_endian": None, "swap_flags": {}, "seed": SEED, "calls": 0,
          "mixed_encoding": {f"dither {d}": {"runs": 0, "runs with a carry written through one entry point and "
                                             "extended or read through the other": 0,
                                             "carry written by int16 call, extended by float32 call (overflow_append)": 0,
                                             "carry written by float32 call, extended by int16 call (overflow_append)": 0,
                                             "carry written by int16 call, read by float32 call (read_overflow_frame)": 0,
                                             "carry written by float32 call, read by int16 call (read_overflow_frame)": 0}
                             for d in (0, 1)}}
    fails = {"flags": [], "tags": [], "equal": [], "ref": []}
    flags_ok, ninit = True, 0
    crashed = rc != 0 or len(lines) != len(ops)
    for i, l in enumerate(lines[:len(ops)]):
        if ops[i].startswith("swcfg"):
            w = l.split()
            kvs = dict(x.split("=", 1) for x in w if "=" in x)
            good = len(w) >= 6 and w[2] == "size" and kvs.get("swapA") == "0" and kvs.get("swapB") not in (None, "0")
            ninit += 1
            if i < probe_at:
                st["input_endian"] = {"host (front end A)": kvs.get("host"),
                                      "front end B": "big" if kvs.get("host") == "little" else "little"}
                st["swap_flags"][f"A={kvs.get('swapA')} B={kvs.get('swapB')}"] = \
                    st["swap_flags"].get(f"A={kvs.get('swapA')} B={kvs.get('swapB')}", 0) + 1
            if not good:
                flags_ok = False
                fails["flags"].append({"ops": [ops[i]], "output": l})
            continue
        if ctx[i] is None:
            continue
        cfgl, sigl, label, cid, dither, enc = ctx[i]
        r = parse_swp(l, sizes[cid][0])
        key = f"enc {enc}, dither {dither}"
        st["runs"] += 1
        st["by_configuration"][cid] = st["by_configuration"].get(cid, 0) + 1
        st["by_pattern"][label] = st["by_pattern"].get(label, 0) + 1
        pe = st["paths"].setdefault(key, {k: 0 for k in list(PATHS) + ["fe_end short frame", "single big chunk"]})
        st["by_enc_dither"][key] = st["by_enc_dither"].get(key, 0) + 1
        if r is None:
            fails["equal"].append({"ops": [cfgl, sigl, ops[i]], "output": l})
            continue
        st["calls"] += len(r["calls"])
        for call in r["calls"]:
            for k, pred in PATHS.items():
                if pred(call):
                    pe[k] += 1
        if enc in "xy":
            mx = st["mixed_encoding"][f"dither {dither}"]
            mx["runs"] += 1
            prev, handed = None, 0
            for call in r["calls"]:
                if call["cons"] <= 0:
                    continue
                if prev is not None and call["nb"] > 0 and call["e"] != prev and call["p"] in "Or":
                    handed += 1
                    mx[f"carry written by {'int16' if prev == 'i' else 'float32'} call, "
                       + (f"extended by {'int16' if call['e'] == 'i' else 'float32'} call (overflow_append)"
                          if call["p"] == "O" else
                          f"read by {'int16' if call['e'] == 'i' else 'float32'} call (read_overflow_frame)")] += 1
                prev = call["e"]
            if handed:
                mx["runs with a carry written through one entry point and extended or read through the other"] += 1
        if r["nend"] == 1:
            pe["fe_end short frame"] += 1
        if len(r["calls"]) == 1 and r["calls"][0]["got"] >= 2:
            pe["single big chunk"] += 1
        bad = None
        if not r["ok"]:
            bad = fail_class(r["fail"])
        elif dither == 0 and r["ref"] != "1":
            bad = "ref"
        if bad:
            st["failed"] += 1
            fails[bad].append({"ops": [cfgl, sigl, ops[i]], "output": l[:1500], "pattern": label})
    if crashed:
        k = min(len(lines), len(ops) - 1)
        j = k
        while j >= 0 and ctx[j] is None:
            j -= 1
        case = [ctx[j][0], ctx[j][1], ops[k]] if j >= 0 and ops[k].startswith("swp") else ops[max(0, k - 2):k + 1]
        fails["equal"].append({"ops": case, "output": f"harness exit code {rc}, {len(lines)} of {len(ops)} answers",
                               "stderr_tail": err[-1500:]})
    # probe
    probe = {}
    pl = lines[probe_at:probe_at + 8] if len(lines) >= probe_at + 8 else []
    if len(pl) == 8:
        for base, name in ((0, "dither on"), (4, "dither off")):
            a, b = parse_swp(pl[base + 2], S), parse_swp(pl[base + 3], S)
            probe[name] = {"one call of 3000 samples": a and a["hash"], "calls of 1000 + 2000 samples": b and b["hash"],
                           "same frames": bool(a and b and a["hash"] == b["hash"])}
    st["dither_chunk_dependence_probe"] = probe
    st["wall_seconds"] = round(time.time() - t0, 2)

    def viol(kind, f):
        c.violation({"kind": "swap-" + kind, "ops": f["ops"], "implementation_output": f.get("output"),
                     "stderr_tail": f.get("stderr_tail", ""), "pattern": f.get("pattern", ""),
                     "explanation": "byte-order family: front end A (input_endian = host order, raw signal) and front "
                                    "end B (opposite input_endian, every sample byte-reversed) are run on the same call "
                                    "schedule; the `fail=` item of the swp answer names the first statement that does "
                                    "not hold (ovf-tag: byte order / source index of an overflow_samps cell; "
                                    "spch-host-order: a cell of fe->spch; frames-B-vs-A / call-log / frame-count: the two "
                                    "runs differ; frames-B-vs-single-call-reference)",
                     "how_to_rerun": "python3 tools/check.py C06 --replay <this file>   (or pipe the three ops into "
                                     "the h_c06 harness)"}, True, tag="replay-swap-" + kind)

    first = {k: (v[0] if v else None) for k, v in fails.items()}
    c.oblige("byte-order family: both front ends initialise for every configuration and dither setting; fe->swap == 0 "
             "with input_endian = host order and fe->swap != 0 with the opposite order",
             flags_ok and ninit > 0 and not fails["flags"], first["flags"] or "")
    c.oblige("byte-order family: after EVERY fe_process call, on both front ends, every valid cell "
             "fe->overflow_samps[i], i < num_overflow_samps, holds float32(sample/32768) of source sample "
             "(consumed so far - num_overflow_samps + i) in INPUT byte order (bytes reversed iff fe->swap); after every "
             "call that returned a frame and after fe_end, fe->spch holds the last window as HOST-order values "
             "(bitwise with dither off; value or value+1, int16 wrap-around at 32767 included, with dither on)",
             not fails["tags"] and st["runs"] > 0, first["tags"] or "")
    c.oblige("byte-order family: the opposite-order front end fed the byte-reversed signal returns bitwise the same "
             "frames, the same frame count and the same per-call (dry-run count, consumed, frames, num_overflow_samps) "
             "as the host-order front end fed the raw signal — dither off, and dither on with the generator re-seeded "
             "with the same seed before each run; no crash, no sanitizer report",
             not fails["equal"] and st["runs"] > 0, first["equal"] or "")
    c.oblige("byte-order family, dither off: the frames of the opposite-order run are bitwise equal to the single-call "
             "reference of the host-order front end", not fails["ref"] and st["runs"] > 0, first["ref"] or "")
    for kind in ("flags", "tags", "equal", "ref"):
        if fails[kind]:
            viol(kind, fails[kind][0])
    missing = [f"{key}: {p}" for key, pe in st["paths"].items() for p in REQUIRED if pe.get(p, 0) == 0]
    c.oblige("byte-order family reaches, for each sample type (int16, float32, mixed starting with int16, mixed starting "
             "with float32) x dither setting: overflow_append onto a non-empty carry, "
             "read_overflow_frame, create_overflow_frame, append_overflow_frame, an output-limited call, a call that "
             "completes exactly one frame, a single big chunk, and fe_end flushing a short frame",
             not missing and len(st["paths"]) == 8, missing or st["paths"])
    mixed_missing = [f"{d}: {k}" for d, mx in st["mixed_encoding"].items() for k, v in mx.items() if v == 0]
    c.oblige("byte-order family, mixed runs (fe_process_int16 and fe_process_float32 calls interleaved within one "
             "utterance, alternating per chunk, both parities): for each dither setting there are runs in which samples "
             "carried over in fe->overflow_samps were written by a call through one entry point and then extended "
             "(overflow_append) or turned into a frame (read_overflow_frame) by a call through the other, in both "
             "directions; these runs are held to the same statements as the single-type runs (cell tags, host-order "
             "fe->spch, byte-reversed run = host-order run, frames = single-call int16 reference with dither off)",
             not mixed_missing, mixed_missing or st["mixed_encoding"])
    c.cov["swap_family"] = st
    return st


def replay_swap(c, binp, obj):
    ops = obj["ops"]
    rc, out, err = vlib.run_bin(binp, stdin_text="\n".join(ops) + "\n", timeout=300)
    lines = [l for l in out.split("\n") if l and not l.startswith("#")]
    last = lines[-1] if lines else ""
    dither_off = bool(lines) and "dither=0/" in lines[0]
    ok = rc == 0 and len(lines) == len(ops) and " ok=1 " in last and (not dither_off or " ref=1 " in last)
    if ops and ops[-1].startswith("swcfg"):
        ok = rc == 0 and "swapA=0" in last and "swapB=0" not in last and " size " in last
    c.oblige("replayed byte-order case: overflow_samps tags, host-order spch, opposite-order run = host-order run "
             "(= single-call reference with dither off)", ok, {"output": lines[-3:], "stderr_tail": err[-800:], "rc": rc})
    if not ok:
        c.violation({"kind": obj.get("kind", "swap-replay"), "ops": ops, "implementation_output": lines[-1:],
                     "stderr_tail": err[-800:], "how_to_rerun": "python3 tools/check.py C06 --replay <this file>"},
                    True, tag="replay-swap")
    c.cov.update({"evaluations": 1, "distinct_nontrivial": 1})
