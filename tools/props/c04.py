"""C04 — forced alignment is a consistent words > phones > states hierarchy.

Lean: SSVerif/Props/C04.lean (populate_structure, backtrace_partition, boundaries_preserved, scores_add_up for
every dictionary / word list / token stack; alignOKB = AlignOK).  Tie: harness/h_c04.c runs decoder_alignment on
the real code (ASan/UBSan) for generated (grammar, audio clip, buffering mode, partial-result points,
configuration) cases and dumps the first-pass segmentation, dictionary and dict2pid tables, the alignment through
the iterator API, the sf/ef windows and the token stack; `ssdriver c04` recomputes populate + windows + backtrace +
propagate with the model's own definitions (lines diffed exactly), evaluates the verified checker alignOKB on what
the C code returned and the hypotheses of the theorems (wfTokens, NoSkip) on the dumped data.  The relation to the
first-pass scores is evaluated here on the implementation's numbers.

Second observation point (Props/C04Json.lean, Model/AlignJson.lean): after every alignment request the harness also
calls decoder_result_json(d, start, align_level) for align_level 1 and 2 and a spread of start offsets (zero,
positive, negative, fractional, a %.3f tie, an hour, a day).  `json_oracle` below (Python json, exact Fractions)
requires (1) the nested "w" lists to be exactly the entries of alignment_words/phones/states and of the child
iterators in order (label, start frame, duration: |b - (start + f/frate)| <= 0.0005 + 1e-9), (2) children to partition
their parent in time at the rendered precision, (3) every level to be contiguous from `start` to start + T/frate.
The driver judges the same line with the JSON recogniser of C14 + JsonObs.obsOf (frames recovered in exact integer
arithmetic, proved sound and unambiguous: C04_json_recoverStart_sound) + timeOKB; C04_json_time_iff says the affine
map f -> start + f/frate preserves and reflects the partition/contiguity clauses, so those are the only numeric steps.

Renormalisation (D28): the model's test is the repaired code's (Step.renormDue); C04_alignStep_never_renormalises
proves it false in every frame for T <= 16 140; beyond that the branch is exercised against the real
renormalize_hmms by hand-stepped passes started close to the threshold (`renormprobe`, Step.runWith).
"""
import json
from fractions import Fraction
import vlib

KEY_D12 = "default compallsen: per-frame normaliser differs between passes"
KEY_XWORD = "cross-word triphone context differs between passes (last word of the hypothesis, or single-phone word)"

DATA = "tests/data"          # audio paths are stored relative to the repository
MODELS = {"en-us": vlib.REPO / "model" / "en-us", "fr-fr": vlib.REPO / "model" / "fr-fr"}

AUDIO = {
    # name: (path, header bytes to skip, samples, model, extra cfg)
    "goforward": (DATA + "/goforward.raw", 0, 44580, "en-us", {}),
    "austen8k": (DATA + "/sense_and_sensibility_01_austen_64kb-0880.wav", 44, 23920, "en-us", {"samprate": "8000"}),
    "goforward_fr": (DATA + "/goforward_fr.raw", 0, 38387, "fr-fr", {}),
}

TEXTS = {
    "goforward": ["go forward ten meters", "go forward", "go forward ten", "forward ten meters", "ten meters",
                  "go backward ten meters", "go forward two meters", "go", "a go forward ten meters",
                  "go forward ten meters the", "meters ten forward go", "i go forward ten meters",
                  # one-phone dictionary words between words with different neighbouring phones
                  "go a forward ten meters", "go forward a ten meters", "go oh forward ten meters",
                  "go forward ten a meters", "go i forward oh ten e meters", "go forward uh ten meters",
                  "go awe forward", "ten owe meters", "forward eye ten"],
    "austen8k": ["he was not an ill disposed young man", "he was not an ill", "he was not", "not an ill disposed young man",
                 "he was a young man", "he was not a ill disposed young man", "he was oh not an ill", "he i was not"],
    "goforward_fr": ["avance de dix mètres", "avance de dix", "avance", "recule de dix mètres",
                     "avance et de dix mètres", "avance de à dix mètres", "avance ou de dix"],
}

JSGF = {
    "goforward": [
        "#JSGF V1.0; grammar g; public <m> = go forward ten meters;",
        "#JSGF V1.0; grammar g; public <m> = go <d> <n> [meter | meters]; <d> = forward | backward; "
        "<n> = one | two | three | four | five | six | seven | eight | nine | ten;",
        "#JSGF V1.0; grammar g; public <m> = (go | stop) (forward | backward) (ten | two)+ meters;",
        "#JSGF V1.0; grammar g; public <m> = [please] go forward <n>* meters; <n> = ten | nine;",
        "#JSGF V1.0; grammar g; public <m> = (go forward | go backward) [ten] [meters | meter];",
    ],
    "austen8k": [
        "#JSGF V1.0; grammar g; public <s> = he was not (an | a) ill disposed young man;",
        "#JSGF V1.0; grammar g; public <s> = (he | she) was [not] an ill disposed (young | old) (man | woman);",
    ],
    "goforward_fr": [
        "#JSGF V1.0; grammar g; public <m> = (avance | recule) de (dix | cinq) mètres;",
    ],
}


def hx(s):
    return s.encode("utf-8").hex()


def gen_case(rng, i, tier, stats):
    an = rng.weighted([("goforward", 70), ("austen8k", 18), ("goforward_fr", 12)])
    path, skip, total, model, extra = AUDIO[an]
    cfg = dict(extra)
    # clip of the recording
    ck = rng.weighted([("whole", 35), ("prefix", 25), ("inner", 30), ("suffix", 10)])
    if ck == "whole":
        start, n = 0, total
    elif ck == "prefix":
        start, n = 0, rng.range(total // 5, total)
    elif ck == "suffix":
        start = rng.range(0, total // 2)
        n = total - start
    else:
        start = rng.range(0, total // 2)
        n = rng.range(total // 5, total - start)
    gk = rng.weighted([("text", 65), ("jsgf", 35)])
    gram = rng.choice(TEXTS[an]) if gk == "text" else rng.choice(JSGF[an])
    mode = rng.weighted([("stream", 55), ("full", 15), ("nosearch", 12), ("nogrow", 18)])
    chunk = rng.choice([160, 400, 1024, 2048, 4000, 4096, 8000, 16000]) if rng.chance(0.7) else rng.range(80, 20000)
    nchunks = (n + chunk - 1) // chunk
    partials = []
    if mode in ("stream", "nogrow") and nchunks > 1 and rng.chance(0.75):
        k = rng.range(1, 4 if tier == "quick" else 6)
        partials = sorted({rng.below(nchunks) for _ in range(k)})
    if rng.chance(0.45):
        cfg["compallsen"] = "yes"
        if rng.chance(0.5):
            cfg.update({"beam": "0", "pbeam": "0", "wbeam": "0", "maxhmmpf": "-1"})
    if rng.chance(0.4):
        cfg["bestpath"] = "no"
    if rng.chance(0.2):
        cfg["wip"] = rng.choice(["0.5", "0.2", "1.0"])
        cfg["pip"] = rng.choice(["0.8", "0.5", "1.0"])
    if rng.chance(0.1):
        cfg["fsgusefiller"] = "no"
    addwords = []
    if model == "en-us" and gk == "text" and rng.chance(0.2):
        # a word added at run time (decoder_add_word) with a generated pronunciation of 1-7 phones
        phones = ["AA", "AE", "AH", "AO", "B", "D", "EH", "ER", "F", "G", "IY", "K", "M", "N", "OW", "R", "S", "T", "W", "Z"]
        nm = f"zzw{rng.below(100000)}"
        pr = " ".join(rng.choice(phones) for _ in range(rng.weighted([(1, 25), (2, 20), (3, 20), (5, 20), (7, 15)])))
        addwords.append([nm, pr])
        ws = gram.split()
        ws[rng.below(len(ws))] = nm
        gram = " ".join(ws)
    noise = None
    if rng.chance(0.06):
        # (amplitude 0 = digital silence makes the front end produce NaN features: C18's subject, not used here)
        noise = [rng.below(1 << 30), rng.range(3000, 30000), rng.choice([3, 30, 300, 3000])]
    # streaming patterns aimed at the growth boundaries of the feature buffer (128, 256, ... frames): one frame shift per
    # call, a run of one-shift calls followed by normal chunks, 1-3 shifts per call
    shift = 80 if an == "austen8k" else 160
    chunkseq = []
    if mode in ("stream", "nogrow") and rng.chance(0.35):
        pat = rng.choice(["all-shift", "run-then-big", "small-multiples"])
        if pat == "all-shift":
            chunk, chunkseq = shift, []
        elif pat == "run-then-big":
            m = rng.range(130, 175) if rng.chance(0.6) else rng.range(258, 300)
            chunkseq = [[shift, m]]
            chunk = rng.choice([800, 2048, 4000])
        else:
            chunkseq = [[shift * rng.range(1, 3), rng.range(1, 40)] for _ in range(12)]
            chunk = shift * rng.range(1, 3)
        stats["extra"]["chunk-pattern " + pat] = stats["extra"].get("chunk-pattern " + pat, 0) + 1
        # partial requests at call granularity, some right at the growth boundaries
        partials = sorted({rng.choice([rng.range(100, 140), rng.range(120, 135), rng.range(250, 262), rng.below(400)])
                           for _ in range(rng.range(0, 3))})
    # further utterances on the same decoder without setting the grammar again, same sample count, other audio
    utts = []
    if n < total and rng.chance(0.4):
        for _ in range(rng.range(1, 2)):
            st2 = rng.range(0, total - n)
            if st2 != start:
                utts.append([str(path), skip, st2, n])
        if utts:
            stats["extra"]["multi-utterance"] = stats["extra"].get("multi-utterance", 0) + 1
    case = {"id": f"g{i}", "model": model, "cfg": cfg, "gram": [gk, gram], "audio": [str(path), skip, start, n],
            "chunkseq": chunkseq, "utts": utts, "preend": int(rng.chance(0.3)),
            "addwords": addwords, "noise": noise, "tmatskip": (rng.choice([20, 60, 120]) if rng.chance(0.07) else 0),
            "audio_name": an, "mode": mode, "chunk": chunk, "partials": partials, "early": int(rng.chance(0.15)),
            "dumpsen": int(rng.chance(0.35))}
    if case["tmatskip"]:
        case["dumpsen"] = 1
    for k, v in (("addword", bool(addwords)), ("noise_audio", bool(noise)), ("tmatskip", bool(case["tmatskip"]))):
        if v:
            stats["extra"][k] = stats["extra"].get(k, 0) + 1
    for k, v in (("audio", an), ("clip", ck), ("grammar", gk), ("mode", mode)):
        stats[k][v] = stats[k].get(v, 0) + 1
    stats["cfg"]["compallsen=" + cfg.get("compallsen", "no")] = stats["cfg"].get("compallsen=" + cfg.get("compallsen", "no"), 0) + 1
    stats["cfg"]["bestpath=" + cfg.get("bestpath", "yes")] = stats["cfg"].get("bestpath=" + cfg.get("bestpath", "yes"), 0) + 1
    return case


def gen_poll_case(rng, i, tier, stats):
    """early polling of a streamed utterance (closer, class of seeded C04-em2): the alignment is requested after EVERY one of the
    first calls of decoder_process_* — after 0 (directive `early`), 1, 2, 3 … frames searched — so that the requests which are
    legitimately REFUSED (no hypothesis yet, only null transitions) are made too, each followed by more audio and by later
    requests that are judged as usual (AlignOK against the first-pass segmentation at that point, wrapper model, JSON)."""
    case = gen_case(rng, f"poll{i}", tier, stats)
    case["id"] = f"p{i}"
    an = case["audio_name"]
    shift = 80 if an == "austen8k" else 160
    total = case["audio"][3]
    case["mode"] = rng.choice(["stream", "stream", "nogrow"])
    stats["mode"][case["mode"]] = stats["mode"].get(case["mode"], 0) + 1
    # call size: from one frame shift to ~6 frames; the first call may be shorter than an analysis window
    case["chunk"] = rng.choice([shift, 2 * shift, shift * 2 + shift // 2, 3 * shift, 512, 640, 800, 1024])
    case["chunkseq"] = [[rng.range(1, shift * 3), 1]] if rng.chance(0.3) else []
    ncalls = max(1, (total + case["chunk"] - 1) // case["chunk"])
    # every call of the first ~60-150 frames, thinned to at most K requests (all of the very first ones are kept)
    horizon = min(ncalls, (rng.range(60, 150) * shift) // case["chunk"] + 1)
    K = 10 if tier == "quick" else 24
    first = list(range(min(horizon, 6)))
    rest = list(range(len(first), horizon))
    rng.shuffle(rest)
    later = [rng.range(horizon, ncalls - 1)] if ncalls - 1 > horizon and rng.chance(0.6) else []
    case["partials"] = sorted(set(first + rest[:max(0, K - len(first))] + later))
    case["early"] = int(rng.chance(0.5))
    case["preend"] = int(rng.chance(0.5))
    case["dumpsen"], case["tmatskip"], case["noise"] = 0, 0, None
    stats["extra"]["early-polling cases"] = stats["extra"].get("early-polling cases", 0) + 1
    stats["extra"]["early-polling requests"] = stats["extra"].get("early-polling requests", 0) + len(case["partials"]) + case["early"]
    return case


def gen_scorer_cases(seed, tier, stats):
    """scorer-configuration family (closer, class of seeded C04-fm2): the score clause (aligned word score = acoustic part of
    the first-pass score, exact under compallsen=yes) under every documented scorer option that changes WHICH frames / Gaussians
    are fully evaluated — ds (frame downsampling of the GMM computation, default 1) in {2, 3} (+ a ds=1 control), topn in
    {default 4, 2, 1} — crossed with utterance lengths of EVERY residue mod ds (n, n-1 shift, n-2 shifts: consecutive frame
    counts) and with final AND partial requests (streamed, call size 7 frame shifts — coprime to 2 and 3 — partial requests
    after three consecutive calls, so the requests fall on every residue too).  compallsen=yes in the grid (both passes see
    the same senone scores, so the existing exact oracle applies; half of the cells with the beams off so that a mismatch in
    either direction is a violation); the thorough tier adds random crossings with everything gen_case draws (compallsen=no
    included: only the hierarchy clauses are exact there).  Own Rng stream: the other families keep their cases per seed."""
    rng = vlib.Rng(seed * 1000003 + 707).fork()
    path, skip, total, model, extra = AUDIO["goforward"]
    shift, out = 160, []
    grid = [(ds, r) for ds in (2, 3) for r in range(ds)] + [(1, 0)]
    reps = 1 if tier == "quick" else 6
    k = 0
    for rep in range(reps):
        q = rng.range(0, 30)                    # cut inside the trailing silence: the hypothesis stays complete
        for ds, r in grid:
            n = total - shift * (q + r)
            cfg = {"compallsen": "yes", "ds": str(ds)}
            if (k + rep) % 2 == 0:
                cfg.update({"beam": "0", "pbeam": "0", "wbeam": "0", "maxhmmpf": "-1"})
            tn = rng.weighted([(None, 50), ("2", 25), ("1", 25)])
            if tn:
                cfg["topn"] = tn
            if rng.chance(0.4):
                cfg["bestpath"] = "no"
            if rng.chance(0.5):
                cfg["wip"], cfg["pip"] = "1.0", "1.0"
            gk = rng.weighted([("text", 70), ("jsgf", 30)])
            gram = rng.choice(TEXTS["goforward"][:1] + TEXTS["goforward"][8:10]) if gk == "text" else JSGF["goforward"][0]
            mode = rng.weighted([("stream", 60), ("nogrow", 20), ("full", 20)]) if rep else "stream"
            chunk = 7 * shift
            ncalls = (n + chunk - 1) // chunk
            p0 = rng.range(9, max(9, ncalls - 5))
            partials = [p0, p0 + 1, p0 + 2] if mode != "full" else []
            out.append({"id": f"sc{k}", "family": "scorer", "model": model, "cfg": cfg, "gram": [gk, gram],
                        "audio": [str(path), skip, 0, n], "chunkseq": [], "utts": [], "preend": int(rng.chance(0.3)),
                        "addwords": [], "noise": None, "tmatskip": 0, "audio_name": "goforward", "mode": mode, "chunk": chunk,
                        "partials": partials, "early": 0, "dumpsen": 0, "json": gen_json(rng), "renormprobe": 0, "deadprobe": 0})
            k += 1
    if tier != "quick":
        for i in range(60):
            cs = gen_case(rng, f"scx{i}", tier, stats)
            cs["id"], cs["family"] = f"scx{i}", "scorer"
            cs["cfg"]["ds"] = rng.choice(["2", "3"])
            if rng.chance(0.5):
                cs["cfg"]["topn"] = rng.choice(["1", "2", "8"])
            if rng.chance(0.6):
                cs["cfg"]["compallsen"] = "yes"
            cs["dumpsen"], cs["tmatskip"], cs["json"], cs["renormprobe"], cs["deadprobe"] = 0, 0, gen_json(rng), 0, 0
            out.append(cs)
    return out


def note_scorer(case, tag, outframe, hb, stats, nexact, nmism):
    """distribution of the scorer family into the evidence: per (ds, kind of request) the residue of the number of frames the
    first pass had searched when the request was made, and how many words the exact score oracle compared there"""
    cfg = case.get("cfg", {})
    ds = int(cfg.get("ds", "1"))
    sc = stats.setdefault("scorer", {})
    kind = "final" if tag.endswith("final") else "partial"
    key = f"ds={ds} {kind} searched-frames%ds={outframe % ds}"
    e = sc.setdefault(key, {"requests": 0, "words_compared_exactly": 0, "words_differing": 0})
    e["requests"] += 1
    e["words_compared_exactly"] += nexact
    e["words_differing"] += nmism


# ---- the JSON observation point: decoder_result_json(d, start, align_level) --------------------------------------
# positions of the utterance: zero, positive, negative, fractional (1/3, a %.3f tie, below the rendered precision),
# large (an hour, a day).  |start| <= 1e5 so that the double rounding of start + frame/frate stays below EPS.
JSON_STARTS = [0.0, 12.5, 0.37, 1.0 / 3.0, 0.0625, 0.001, 0.0004, 3600.0, 86399.99, 7.0, 59.9995, 100.0,
               -3.25, -0.125, -1000.004, -0.01, 1234.5678]
JSON_DEFAULT = [[2, (12.5).hex()], [1, (-3.25).hex()], [2, (0.0).hex()]]     # corpus cases recorded before this check
# entry scores of the renormalisation probe: state_align_search_step renormalises when best_score < -533 725 184
# (best_score - 0x300000 WORSE_THAN WORST_SCORE = -536 870 912) and best_score BETTER_THAN WORST_SCORE (D28)
RENORM_STARTS = [-533725000, -533724000, -533720000, -533715000, -533700000]
RENORM_DEFAULT = -533700000      # corpus cases recorded before the probe existed
TOL = Fraction(1, 2000)          # half a unit of the %.3f rendering
EPS = Fraction(1, 10 ** 9)       # slack for the double arithmetic of `utt_start + (double)start / frate`


def gen_json(rng):
    """(align_level, start) pairs requested after every alignment request of a case: always one state-level call with a
    clearly non-zero start, one phone-level call, one more of either level"""
    def st(nonzero):
        if rng.chance(0.25):
            x = rng.range(-400000, 9000000) / 1000.0 + rng.below(1000) / 1e6
        else:
            x = rng.choice(JSON_STARTS)
        if nonzero and abs(x) < 1.0:
            x = rng.choice([12.5, 3600.0, -3.25, 59.9995, 1234.5678])
        return float(x).hex()
    calls = [[2, st(True)], [1, st(False)], [rng.choice([1, 2]), st(False)]]
    rng.shuffle(calls)
    return calls


def json_oracle(jl, hW, hP, hS, cw, cp, T, skip):
    """the hierarchy clauses of C04 evaluated on one line returned by decoder_result_json (implementation-side oracle).
    jl = words of the J line; hW/hP/hS = the flat iterator dump; cw/cp = children lists of the iterator dump.
    Returns a list of violation texts."""
    level, start, frate = int(jl[1]), Fraction(float.fromhex(jl[2])), int(jl[5])
    bad = []
    try:
        top = json.loads(bytes.fromhex(jl[6]).decode("utf-8"), parse_float=Fraction, parse_int=Fraction)
    except Exception as e:      # noqa
        return [f"the returned line is not JSON ({e})"]
    lvl2 = level >= 2

    def entry(node, exp, what):
        """node = JSON object, exp = iterator dump line (W/P/S words): name, start frame, duration"""
        name, sf, du = exp[3], int(exp[4]), int(exp[5])
        if not isinstance(node, dict) or not all(k in node for k in ("b", "d", "t")):
            bad.append(f"{what}: not an entry object")
            return
        if node["t"] != name:
            bad.append(f"{what}: label {node['t']!r}, the iterator API says {name!r}")
        if abs(node["b"] - (start + Fraction(sf, frate))) > TOL + EPS:
            bad.append(f"{what} ({name}): begin time {float(node['b']):.3f} is not start + {sf}/{frate} = "
                       f"{float(start + Fraction(sf, frate)):.6f} at the rendered precision")
        if abs(node["d"] - Fraction(du, frate)) > TOL + EPS:
            bad.append(f"{what} ({name}): duration {float(node['d']):.3f} is not {du}/{frate}")

    def tiles(kids, b0, b1, what):
        """children partition [b0, b1) in time at the rendered precision (every printed number is within TOL of the
        exact time, so two renderings of the same instant differ by at most 2 TOL, an end b+d by at most 2 TOL more)"""
        if not kids:
            bad.append(f"{what}: no children")
            return
        if abs(kids[0]["b"] - b0) > 2 * TOL + 2 * EPS:
            bad.append(f"{what}: children begin at {float(kids[0]['b']):.3f}, the parent at {float(b0):.3f}")
        for x, y in zip(kids, kids[1:]):
            if abs(y["b"] - (x["b"] + x["d"])) > 3 * TOL + 3 * EPS:
                bad.append(f"{what}: {x['t']}@{float(x['b']):.3f}+{float(x['d']):.3f} is not followed at once by "
                           f"{y['t']}@{float(y['b']):.3f}")
        for x in kids:
            if not x["d"] > 0:
                bad.append(f"{what}: {x['t']} has duration {float(x['d']):.3f}")
        end = kids[-1]["b"] + kids[-1]["d"]
        if abs(end - b1) > 4 * TOL + 4 * EPS:
            bad.append(f"{what}: children end at {float(end):.3f}, the parent at {float(b1):.3f}")

    ws = top.get("w") if isinstance(top, dict) else None
    if not isinstance(ws, list):
        return ["no word list"]
    if abs(top.get("b", Fraction(10 ** 9)) - start) > TOL + EPS:
        bad.append(f"the hypothesis begins at {float(top.get('b', 0)):.3f}, start is {float(start):.6f}")
    # (1) exactly the entries of the iterators, in order, at every level
    if len(ws) != len(hW):
        bad.append(f"{len(ws)} word entries, alignment_words has {len(hW)}")
        return bad
    allp, alls = [], []
    ok_shape = True
    for wi, (wn, we) in enumerate(zip(ws, hW)):
        entry(wn, we, f"word {wi}")
        ps = wn.get("w") if isinstance(wn, dict) else None
        pidx = cw.get(int(we[1]), [])
        if not isinstance(ps, list) or len(ps) != len(pidx):
            bad.append(f"word {wi} ({we[3]}): {len(ps) if isinstance(ps, list) else 'no'} phone entries, the child "
                       f"iterator gives {len(pidx)}")
            ok_shape = False
            continue
        for pn, pi in zip(ps, pidx):
            pe = hP[pi] if pi < len(hP) else None
            if pe is None:
                ok_shape = False
                continue
            entry(pn, pe, f"word {wi} phone {pi}")
            allp.append(pn)
            ss = pn.get("w") if isinstance(pn, dict) else None
            if not lvl2:
                if ss is not None:
                    bad.append(f"phone {pi}: state list although align_level = {level}")
                continue
            sidx = cp.get(pi, [])
            if not isinstance(ss, list) or len(ss) != len(sidx):
                bad.append(f"phone {pi} ({pe[3]}): {len(ss) if isinstance(ss, list) else 'no'} state entries, the child "
                           f"iterator gives {len(sidx)}")
                ok_shape = False
                continue
            for sn, si in zip(ss, sidx):
                se = hS[si] if si < len(hS) else None
                if se is None:
                    ok_shape = False
                    continue
                entry(sn, se, f"phone {pi} state {si}")
                alls.append(sn)
    if not ok_shape or skip or any("not an entry object" in b for b in bad):
        return bad
    # (2) children partition their parent in time, (3) every level is contiguous from `start`
    uend = start + Fraction(T, frate)
    for wn in ws:
        tiles(wn["w"], wn["b"], wn["b"] + wn["d"], f"word {wn['t']}@{float(wn['b']):.3f}")
        if lvl2:
            for pn in wn["w"]:
                tiles(pn["w"], pn["b"], pn["b"] + pn["d"], f"{wn['t']}@{float(wn['b']):.3f}/{pn['t']}@{float(pn['b']):.3f}")
    # the level-wise ends are compared with the exact end start + T/frate: one rendering of an end (b + d)
    for lv, name in ((ws, "words"), (allp, "phones")) + (((alls, "states"),) if lvl2 else ()):
        if not lv:
            bad.append(f"level {name} is empty")
            continue
        tiles(lv, start, uend, f"level {name}")
    return bad


def case_text(case):
    ls = [f"case {case['id']}"]
    for k, v in sorted(case["cfg"].items()):
        ls.append(f"cfg {k} {v}")
    ls.append(f"{case['gram'][0]} {hx(case['gram'][1])}")
    for w, pr in case.get("addwords") or []:
        ls.append(f"addword {hx(w)} {hx(pr)}")
    a = case["audio"]
    if case.get("noise"):
        ls.append("noise " + " ".join(str(x) for x in case["noise"]))
    else:
        ls.append(f"audio {vlib.REPO / a[0]} {a[1]} {a[2]} {a[3]}")
    if case.get("tmatskip"):
        ls.append(f"tmatskip {case['tmatskip']}")
    ls.append(f"mode {case['mode']}")
    ls.append(f"chunk {case['chunk']}")
    if case.get("chunkseq"):
        ls.append("chunkseq " + " ".join(f"{a}x{b}" for a, b in case["chunkseq"]))
    for u in case.get("utts") or []:
        ls.append(f"utt {vlib.REPO / u[0]} {u[1]} {u[2]} {u[3]}")
    if case["partials"]:
        ls.append("partial " + " ".join(str(p) for p in case["partials"]))
    ls.append(f"early {case.get('early', 0)}")
    ls.append(f"preend {case.get('preend', 0)}")
    ls.append(f"dumpsen {case.get('dumpsen', 0)}")
    if case.get("dumpsen", 0):
        rp = case.get("renormprobe", RENORM_DEFAULT)
        if rp:
            ls.append(f"renormprobe {rp}")
        dp = case.get("deadprobe", 2)
        if dp and not case.get("tmatskip"):
            ls.append(f"deadprobe {dp}")
    js = case.get("json", JSON_DEFAULT)
    if js:
        ls.append("json " + " ".join(f"{lv}:{st}" for lv, st in js))
    for rg in case.get("regram") or []:     # D130 family: grammar-setting calls after the final request, no start_utt
        ls.append("regram " + rg[0] + " " + " ".join(hx(x) for x in rg[1:3]))
    ls.append("run")
    return "\n".join(ls) + "\n"


def run_harness(args, text, timeout):
    """the build directory may be pruned by a concurrent build of another tree: re-create it and retry"""
    for attempt in range(3):
        binp = vlib.build_harness("h_c04")
        try:
            return vlib.run_bin(binp, args, stdin_text=text, timeout=timeout)
        except FileNotFoundError:
            continue
    raise vlib.BuildError("harness binary keeps disappearing")


def run_driver(text, timeout=1800):
    """the driver executable is relinked whenever another check rebuilds it: wait and retry"""
    import time
    for attempt in range(30):
        try:
            return vlib.run_driver("c04", text, timeout=timeout)
        except (FileNotFoundError, PermissionError, OSError):
            time.sleep(2)
    return vlib.run_driver("c04", text, timeout=timeout)


def run_cases(binp, model, cases, timeout=1800):
    """run cases on one harness process per crash-free stretch; returns (model_block, {case id: result})"""
    res, todo, model_block = {}, list(cases), None
    while todo:
        text = "".join(case_text(cs) for cs in todo)
        rc, out, err = run_harness([str(MODELS[model])], text, timeout)
        lines = out.split("\n")
        if "ENDMODEL" not in lines:
            for cs in todo:
                res[cs["id"]] = {"crash": True, "rc": rc, "stderr": err[:4000] + "\n...\n" + err[-1500:], "blocks": [], "head": None, "open": None}
            return model_block or [], res
        k = lines.index("ENDMODEL")
        model_block = lines[:k + 1]
        cur, blocks, head, blk, done = None, [], None, None, set()
        for l in lines[k + 1:]:
            if l.startswith("CASE "):
                cur, blocks, head, blk = l.split()[1], [], l, None
            elif l.startswith("REQ "):
                blk = [l]
            elif l == "ENDREQ":
                if blk is not None:
                    blk.append(l)
                    blocks.append(blk)
                blk = None
            elif l.startswith("ENDCASE "):
                cid = l.split()[1]
                res[cid] = {"crash": False, "blocks": blocks, "head": head, "open": None}
                done.add(cid)
                cur, blocks, head, blk = None, [], None, None
            elif blk is not None:
                blk.append(l)
            elif l.startswith("error") and cur is None:
                pass
        rest = [cs for cs in todo if cs["id"] not in done]
        if not rest:
            break
        # the first unfinished case is the one that was running when the process ended
        bad = rest[0]
        res[bad["id"]] = {"crash": True, "rc": rc, "stderr": err[:4000] + "\n...\n" + err[-1500:], "blocks": blocks if cur == bad["id"] else [],
                          "head": head if cur == bad["id"] else None, "open": blk}
        todo = rest[1:]
    return model_block or [], res


def canon_h(l):
    w = l.split()
    if w[0] == "W":
        return f"W {w[1]} {w[2]} {w[4]} {w[5]} {w[6]} {w[8]}"
    if w[0] == "P":
        return f"P {w[1]} {w[2]} {w[4]} {w[5]} {w[6]} {w[7]} {w[8]} {w[9]} {w[10]}"
    if w[0] == "S":
        return f"S {w[1]} {w[2]} {w[4]} {w[5]} {w[6]} {w[7]}"
    return l


DIFFED = ("W ", "P ", "S ", "SF", "EF")


def split_driver(out):
    blocks, blk = {}, None
    for l in out.split("\n"):
        if l.startswith("REQ "):
            blk = [l]
        elif l == "ENDREQ":
            if blk:
                blocks[blk[0]] = blk
            blk = None
        elif blk is not None:
            blk.append(l)
    return blocks


def kv(line):
    return dict(x.split("=", 1) for x in line.split()[1:] if "=" in x)


def judge_wrap(hb, db, tag, outframe, a, reuse, hW, stats):
    """the wrapper model (Wrap.request, run by the driver over the request sequence of the case) against what
    decoder_alignment did in this request: NULL / alignment, word list, frames seen by the aligner, repeated call"""
    wl = next((l for l in db if l.startswith("WRAP ")), None)
    if wl is None:
        return [{"what": "driver printed no WRAP line (wrapper model)", "detail": hb[0], "impl": False, "key": None, "tie": True}]
    wd = kv(wl)
    stats["wrap_requests"] += 1
    stats["wrap_c1"][wd.get("c1")] = stats["wrap_c1"].get(wd.get("c1"), 0) + 1
    stats["wrap_c2"][wd.get("c2")] = stats["wrap_c2"].get(wd.get("c2"), 0) + 1
    kindk = "final" if tag.endswith("final") else "preend" if tag.endswith("preend") else "partial"
    stats["wrap_kind"][kindk] = stats["wrap_kind"].get(kindk, 0) + 1
    diffs = []
    c_null = a.startswith("A null")
    m_null = wd.get("c1") in ("null", "assert")
    if c_null != m_null:
        fin0 = next((l.split() for l in hb if l.startswith("FINAL ")), None)
        diffs.append(f"decoder_alignment returned {'NULL' if c_null else 'an alignment'}, the wrapper model predicts "
                     f"c1={wd.get('c1')} (frames seen by the aligner: implementation {fin0[3] if fin0 else '?'}, model T={wd.get('T')}; "
                     "the model's second pass is the dumped token stack, usable only when the frame counts agree)")
    if wd.get("c1") == "assert":
        diffs.append("the wrapper model predicts a failing contiguity assertion, the implementation went on")
    if not c_null and not m_null:
        cw = ";".join(f"{w[2]}:{w[4]}:{w[5]}" for w in hW) or "-"
        if cw != wd.get("words"):
            diffs.append(f"word list (id:start:duration) differs: implementation {cw} model {wd.get('words')}")
        fin = next((l.split() for l in hb if l.startswith("FINAL ")), None)
        if fin is not None:
            if fin[3] != wd.get("T"):
                diffs.append(f"the aligner saw {fin[3]} frames, the model predicts T={wd.get('T')}")
            if int(fin[3]) < outframe:
                stats["wrap_partial_T_lt_output_frame"] += 1
        exp2 = {"reuse": "same", "new": "different", "null": "null"}.get(wd.get("c2"), "?")
        if wd.get("c2") == "reuse" and wd.get("same12") != "1":
            exp2 = "?"
        if reuse != exp2:
            diffs.append(f"repeated call: implementation {reuse}, model c2={wd.get('c2')} same12={wd.get('same12')}")
        if wd.get("c1") == "reuse":
            stats["wrap_first_call_reused_earlier_object"] += 1
        for k in ("pos", "cov", "pron"):
            if wd.get(k) != "1":
                diffs.append(f"hypothesis {k} of C04_wrapper_words_are_first_pass is false on the FP lines: {wl[:160]}")
    elif c_null and m_null:
        exp2 = {"null": "null"}.get(wd.get("c2"), "nonnull-after-null")
        if reuse != exp2:
            diffs.append(f"repeated call after NULL: implementation {reuse}, model c2={wd.get('c2')}")
    if wd.get("of") != str(outframe):
        diffs.append(f"model leaves acmod output_frame at {wd.get('of')}, request was made at {outframe}")
    ofa = next((l.split()[1] for l in hb if l.startswith("OFA ")), None)
    if ofa is not None:
        # the real acmod->output_frame after the request against the model's Dec.outFrame after Wrap.request (for a refused
        # request: the unchanged decoder of C04_wrapper_refused_request_is_noop)
        stats["wrap_outframe_after_request_compared"] = stats.get("wrap_outframe_after_request_compared", 0) + 1
        if c_null:
            stats["wrap_outframe_after_refused_request_compared"] = stats.get("wrap_outframe_after_refused_request_compared", 0) + 1
        if ofa != wd.get("of"):
            diffs.append(f"decoder_alignment ({'refused, NULL' if c_null else 'answered'}) left acmod output_frame at {ofa}, "
                         f"the wrapper model at {wd.get('of')} (request made at {outframe}): the first pass will not continue "
                         "where it stopped")
    if int(wd.get("nkeep", 0)) < int(wd.get("nseg", 0)):
        stats["wrap_dropped_nondict_segments"] += 1
    if not diffs:
        stats["wrap_agree"] += 1
        return []
    return [{"what": "wrapper model (Wrap.request over the request sequence: reuse shortcut, dictionary filter, "
                     "T = min(output_frame, prev_ef + 1), rewind, start_utt/end_utt) differs from decoder_alignment: " + diffs[0],
             "detail": {"tag": tag, "differences": diffs, "model": wl,
                        "first_pass": [l for l in hb if l.startswith("FP ")][:12]},
             "impl": False, "key": None, "tie": True}]


def judge_block(case, hb, db, ci_names, stats):
    """evaluate one request block; returns a list of problems:
    {what, detail, impl (bool: the implementation breaks the property on this input), key (finding key or None),
     tie (bool: model/implementation disagree)}"""
    probs = []
    head = hb[0].split()
    tag, outframe, nalloc, grow = head[2], int(head[3]), int(head[4]), int(head[5])
    fp = [l.split() for l in hb if l.startswith("FP ")]
    fpw = [(int(w[1]), w[2], int(w[3]), int(w[4]), int(w[5]), int(w[6])) for w in fp if int(w[1]) >= 0]
    stats["requests"] += 1
    stats["partial" if not tag.endswith("final") else "final"] += 1
    if tag == "preend":
        stats["requests_before_end_utt"] = stats.get("requests_before_end_utt", 0) + 1
    if tag.startswith("u") and tag.endswith("final"):
        stats["later_utterance_requests"] = stats.get("later_utterance_requests", 0) + 1
    if len(fp) != len(fpw):
        stats["fp_with_nondict_segments"] += 1
    dic = {int(l.split()[1]): l.split() for l in hb if l.startswith("D ")}
    a = next((l for l in hb if l.startswith("A ")), None)
    reuse = next((l.split()[1] for l in hb if l.startswith("REUSE ")), None)
    srch = next((l.split() for l in hb if l.startswith("SRCH ")), None)
    hW = [l.split() for l in hb if l.startswith("W ")]
    hP = [l.split() for l in hb if l.startswith("P ")]
    hS = [l.split() for l in hb if l.startswith("S ")]
    can_rewind = not (grow == 0 and outframe > nalloc)
    if a is None:
        probs.append({"what": "harness block without result line", "detail": hb[:5], "impl": False, "key": None, "tie": True})
        return probs
    if a.startswith("A null"):
        stats["null_results"] += 1
        if not fpw:
            stats["null_no_words"] += 1
            if outframe > 0 and tag != "final":
                # a legitimately refused request in the middle of an utterance, frames already searched: what follows must
                # be unaffected (later requests of the same case are judged against the first pass as usual)
                stats["extra"]["refused mid-utterance requests after >=1 frame searched"] = \
                    stats["extra"].get("refused mid-utterance requests after >=1 frame searched", 0) + 1
        elif not can_rewind:
            stats["null_circular_buffer"] += 1
        else:
            probs.append({"what": "decoder_alignment returned NULL although the first pass has dictionary words and the "
                                  "feature buffer can be rewound", "detail": {"first_pass": fpw, "tag": tag},
                          "impl": True, "key": None, "tie": False})
        if reuse == "nonnull-after-null":
            probs.append({"what": "a second call of decoder_alignment handed out an alignment after the first call failed",
                          "detail": {"tag": tag, "words": hW[:4]}, "impl": True, "key": None, "tie": False})
        if not hW:
            if db is not None:
                probs += judge_wrap(hb, db, tag, outframe, a, reuse, hW, stats)
            for jl in (l.split() for l in hb if l.startswith("J ")):
                stats["json_calls"] += 1
                stats["json_null"] += int(jl[6] == "null")
                if jl[6] != "null":
                    stats["json_bad"] += 1
                    probs.append({"what": "decoder_result_json returned a line although decoder_alignment returned NULL",
                                  "detail": {"call": f"decoder_result_json(d, {float.fromhex(jl[2])!r}, {jl[1]})", "tag": tag},
                                  "impl": True, "key": None, "tie": False})
            return probs
    else:
        stats["alignments"] += 1
        if reuse not in ("same", "different"):
            probs.append({"what": f"second call of decoder_alignment returned {reuse}", "detail": tag, "impl": True,
                          "key": None, "tie": False})
        stats["reuse_" + str(reuse)] = stats.get("reuse_" + str(reuse), 0) + 1
    # ---- names through alignment_iter_name
    for w in hW:
        d = dic.get(int(w[2]))
        if d is None or d[2] != w[3]:
            probs.append({"what": "word name differs from the dictionary", "detail": w, "impl": True, "key": None, "tie": False})
    for p in hP:
        if ci_names.get(int(p[2])) != p[3]:
            probs.append({"what": "phone name differs from the model definition", "detail": p, "impl": True, "key": None, "tie": False})
    for s in hS:
        if s[2] != s[3]:
            probs.append({"what": "state name is not the senone id", "detail": s, "impl": True, "key": None, "tie": False})
    # ---- oracle on the implementation's output (verified checker, run by the driver)
    if db is None:
        probs.append({"what": "driver produced no block", "detail": hb[0], "impl": False, "key": None, "tie": True})
        return probs
    probs += judge_wrap(hb, db, tag, outframe, a, reuse, hW, stats)
    ok = next((l for l in db if l.startswith("OK ")), None)
    okd = kv(ok) if ok else {}
    skip = bool(case.get("tmatskip"))
    if skip and a.startswith("A ok"):
        k = "alignOK=" + okd.get("alignOK", "?") + " (skip transitions added to every tmat)"
        stats["skip_probe"][k] = stats["skip_probe"].get(k, 0) + 1
    if skip and okd.get("flat") == "1" and okd.get("iter") == "1":
        pass        # hypothesis NoSkip is false: the hierarchy predicate is observed, not required
    elif okd.get("tree") != "1" or okd.get("alignOK") != "1" or okd.get("flat") != "1" or okd.get("iter") != "1":
        probs.append({"what": "the alignment returned through the iterator API violates the hierarchy predicate AlignOK",
                      "detail": {"checker": ok, "first_pass": fpw, "words": [w[1:7] for w in hW]}, "impl": True,
                      "key": None, "tie": False})
    tre = next((l for l in db if l.startswith("TREE ")), None)
    if tre and a.startswith("A ok"):
        td = kv(tre)
        stats["tree_hyp_blocks"] += 1
        if td.get("hsen") != "1" or td.get("mexp") != "1":
            probs.append({"what": "hypotheses of C04_model_tree_alignOK do not hold on this request (hsen: the checker's senOK "
                                  "accepts the senones of the populated phones; mexp: modelExpSen = expSen of the harness)",
                          "detail": tre, "impl": False, "key": None, "tie": True})
    bad = [l for l in db if l.startswith("BAD")]
    if bad:
        probs.append({"what": "driver could not parse the dump", "detail": bad, "impl": False, "key": None, "tie": True})
    # ---- model = implementation (populate, windows, backtrace, propagate)
    hs = sorted(canon_h(l) for l in hb if l.startswith(DIFFED))
    ds = sorted(l for l in db if l.startswith(DIFFED))
    have_tok = any(l.startswith("FINAL ") for l in hb)
    if have_tok:
        da = next((l for l in db if l.startswith("A ")), "")
        model_null = da.startswith("A null")
        if hs != ds or model_null:
            first = next(((x, y) for x, y in zip(hs, ds) if x != y), (len(hs), len(ds)))
            probs.append({"what": "model (populate + windows + backtrace + propagate from the dumped token stack) differs "
                                  "from the implementation", "detail": {"first_difference_impl_vs_model": first,
                                                                        "model_result": da}, "impl": False, "key": None, "tie": True})
        hyp = next((l for l in db if l.startswith("HYP ")), None)
        hd = kv(hyp) if hyp else {}
        if skip:
            k = f"wf={hd.get('wf')} noskip={hd.get('noskip')}"
            stats["skip_probe"][k] = stats["skip_probe"].get(k, 0) + 1
            if hd.get("noskip") != "0":
                probs.append({"what": "skip probe: NoSkip evaluated true on a matrix with skip transitions", "detail": hyp,
                              "impl": False, "key": None, "tie": True})
        elif hd.get("wf") != "1":
            probs.append({"what": "hypothesis WFTokens of C04_backtrace_partition does not hold on the dumped token stack",
                          "detail": hyp, "impl": False, "key": None, "tie": True})
        if not skip and a.startswith("A ok") and any(hd.get(k) != "1" for k in ("mono", "sf0", "tend", "tbound", "alive")):
            probs.append({"what": "hypotheses of C04_alignStep_WFTokens (ef non-decreasing, sf[0] <= 0, T <= ef[last], "
                                  "T < 16140, final score alive) do not hold on the dumped search", "detail": hyp,
                          "impl": False, "key": None, "tie": True})
        if not skip and hd.get("noskip") != "1":
            probs.append({"what": "hypothesis NoSkip does not hold for a transition matrix used by the alignment",
                          "detail": hyp, "impl": False, "key": None, "tie": True})
        stp = next((l for l in db if l.startswith("STEP ")), None)
        if stp:
            sd = kv(stp)
            if sd.get("na") == "1":
                stats["step_model_not_applicable"] += 1
            else:
                stats["step_model_blocks"] += 1
                stats["step_model_frames"] += int(sd.get("frames", 0))
                stats["step_manual_pass_equals_decoder_pass"] += int(sd.get("manual_eq_decoder") == "1")
                if sd.get("ranges") != "1" or sd.get("renorm") != "0":
                    probs.append({"what": "hypotheses of C04_alignStep_tokens_local_partial (value ranges, no renormalisation) "
                                          "do not hold on the dumped second pass", "detail": stp, "impl": False, "key": None,
                                  "tie": True})
                if sd.get("eq") != "1":
                    probs.append({"what": "step model (constrained Viterbi over the dumped senone scores) does not reproduce the "
                                          "token stack of the real state_align_search_step", "detail": stp, "impl": False,
                                  "key": None, "tie": True})
                if sd.get("manual_eq_decoder") != "1":
                    probs.append({"what": "the hand-stepped second pass of the harness (whose senone scores the step model is run "
                                          "on) does not produce the token stack of decoder_alignment's own second pass",
                                  "detail": stp, "impl": False, "key": None, "tie": True})
        rst = next((l for l in db if l.startswith("RSTEP ")), None)
        if rst:
            rd = kv(rst)
            if rd.get("na") != "1":
                stats["renorm_probe_blocks"] += 1
                stats["renorm_probe_fired"] += int(rd.get("renorm") == "1")
                stats["renorm_probe_fired_and_alive"] += int(rd.get("renorm") == "1" and rd.get("alive") == "1")
                if rd.get("eq") != "1":
                    probs.append({"what": "renormalisation probe: the step model started at the same entry score does not "
                                          "reproduce the token stack of the real state_align_search_step (renormalize_hmms)",
                                  "detail": rst, "impl": False, "key": None, "tie": True})
        dst = next((l for l in db if l.startswith("DSTEP ")), None)
        if dst:
            dd = kv(dst)
            if dd.get("na") != "1":
                stats["dead_probe_blocks"] += 1
                k = ("alive" if dd.get("alive") == "1" else
                     "dead, exit history -1" if dd.get("outh") == "-1" else "dead, exit history not -1")
                stats["dead_probe"][k] = stats["dead_probe"].get(k, 0) + 1
                if dd.get("eq") != "1" or dd.get("hyp") != "1" or dd.get("renorm") != "0":
                    probs.append({"what": "dead-final-state probe: the step model over the first Td dumped frames does not reproduce "
                                          "the truncated real pass (token stack, exit history/score), or a hypothesis of "
                                          "C04_dead_final_no_alignment is false on the dumped arrays", "detail": dst,
                                  "impl": False, "key": None, "tie": True})
                elif dd.get("finish") != dd.get("cfinish"):
                    probs.append({"what": "dead-final-state probe: state_align_search_finish and the model's finish disagree on "
                                          "the truncated pass", "detail": dst, "impl": False, "key": None, "tie": True})
                elif dd.get("finish") != dd.get("alive"):
                    probs.append({"what": "dead-final-state probe: finish succeeds although the exit score is dead, or fails "
                                          "although it is alive (contradicts C04_dead_final_no_alignment / C04_alignStep_WFTokens "
                                          "whose hypotheses hold)", "detail": dst, "impl": False, "key": None, "tie": True})
        T = int(hd.get("nframe", 0))
        stats["frames"].append(T)
        stats["states"].append(len(hS))
        stats["words"].append(len(hW))
    # ---- the word scores account for the whole path: their sum is the out-score of the alignment search
    fin = next((l.split() for l in hb if l.startswith("FINAL ")), None)
    if fin and hW and a.startswith("A ok") and not case.get("tmatskip"):
        tot = sum(int(w[6]) for w in hW)
        if tot != int(fin[2]):
            probs.append({"what": "the word scores omit part of the path score: their sum differs from the out-score of the "
                                  "alignment search (a word score that omits a state)",
                          "detail": {"sum_of_word_scores": tot, "out_score": int(fin[2]), "tag": tag,
                                     "first_state": hS[0] if hS else None}, "impl": True, "key": None, "tie": False})
    # ---- the hierarchy as reported by decoder_result_json(d, start, 1|2)
    jls = [l.split() for l in hb if l.startswith("J ")]
    jss = [l for l in (db or []) if l.startswith("JS ")]
    cwm = {int(l.split()[1]): [int(x) for x in l.split()[2:]] for l in hb if l.startswith("CW ")}
    cpm = {int(l.split()[1]): [int(x) for x in l.split()[2:]] for l in hb if l.startswith("CP ")}
    Tfp = (fpw[-1][3] + 1) if fpw else 0
    for k, jl in enumerate(jls):
        stats["json_calls"] += 1
        lvl, st = int(jl[1]), float.fromhex(jl[2])
        jd = kv(jss[k]) if k < len(jss) else {}
        desc = {"call": f"decoder_result_json(d, {st!r}, {lvl})", "tag": tag}
        if jl[6] == "null":
            stats["json_null"] += 1
            if a.startswith("A ok"):
                stats["json_bad"] += 1
                probs.append({"what": "decoder_result_json returned NULL although decoder_alignment returned an alignment",
                              "detail": desc, "impl": True, "key": None, "tie": False})
            continue
        if not a.startswith("A ok"):
            stats["json_bad"] += 1
            probs.append({"what": "decoder_result_json returned a line although decoder_alignment returned NULL",
                          "detail": desc, "impl": True, "key": None, "tie": False})
            continue
        stats["json_lines"] += 1
        stats["json_level"][str(lvl)] = stats["json_level"].get(str(lvl), 0) + 1
        stats["json_frate"][jl[5]] = stats["json_frate"].get(jl[5], 0) + 1
        sk = "zero" if st == 0 else "negative" if st < 0 else "below 1 s" if st < 1 else "1 s .. 1 h" if st < 3600 else ">= 1 h"
        stats["json_start"][sk] = stats["json_start"].get(sk, 0) + 1
        if lvl >= 2 and abs(st) >= 1:
            stats["json_state_level_nonzero_start"] += 1
        jb = json_oracle(jl, hW, hP, hS, cwm, cpm, Tfp, skip)
        if jb:
            stats["json_bad"] += 1
            probs.append({"what": "the hierarchy reported by decoder_result_json violates C04: " + jb[0],
                          "detail": {**desc, "violations": jb[:8], "n_violations": len(jb)}, "impl": True, "key": None,
                          "tie": False})
        # the same line judged by the model-side reader (exact integer frame recovery + Contig checker)
        need = ["parse", "clock", "tree", "same", "names"] + ([] if skip else ["timeOK"])
        lean_ok = jd.get("null") == "0" and all(jd.get(x) == "1" for x in need) and jd.get("top") == "0"
        if lean_ok:
            stats["json_lean_ok"] += 1
        if lean_ok != (not jb):
            stats["json_bad"] += 1
            probs.append({"what": "the two readers of the JSON hierarchy disagree (Python oracle vs JsonObs.obsOf/timeOKB "
                                  "of the driver)", "detail": {**desc, "driver": jss[k] if k < len(jss) else None,
                                                                "python": jb[:3]}, "impl": False, "key": None, "tie": True})
    # ---- populate branches exercised
    for w in hW:
        d = dic.get(int(w[2]))
        if d:
            n = int(d[5])
            stats["pron_len"]["1" if n == 1 else "2" if n == 2 else "3+"] = stats["pron_len"].get("1" if n == 1 else "2" if n == 2 else "3+", 0) + 1
            if d[4] == "1":
                stats["filler_words"] += 1
            if d[1] != d[3]:
                stats["alt_pron_words"] += 1
    # ---- relation to the first-pass scores
    if srch and hW and len(hW) == len(fpw) and a.startswith("A ok") and not skip:
        wip, pip = int(srch[1]), int(srch[2])
        diffs = []
        for i, (w, f) in enumerate(zip(hW, fpw)):
            d = dic.get(f[0])
            plen = int(d[5]) if d else 0
            exp = f[4] - (wip + plen * pip)
            diffs.append((i, f[1], int(w[6]), exp))
        mism = [x for x in diffs if x[2] != x[3]]
        if case["cfg"].get("compallsen") == "yes":
            stats["score_clause_exact_words"] += len(diffs)
            note_scorer(case, tag, outframe, hb, stats, len(diffs), len(mism))
            nobeam = case["cfg"].get("beam") == "0"
            for x in mism:
                i, name, got, exp = x
                last = (i == len(diffs) - 1)
                d = dic.get(fpw[i][0], ["D", 0, "", 0, "0", "0"])
                filler, plen = d[4] == "1", int(d[5])
                nxt = dic.get(fpw[i + 1][0]) if not last else None
                next_is_sil = bool(nxt) and nxt[4] == "1"
                # the first pass scores (a) the last word of a hypothesis with the best right context instead of SIL,
                # (b) a single-phone word with right context SIL instead of the next word's first phone
                xword = (not filler) and ((last and plen >= 2) or (plen == 1 and not last and not next_is_sil))
                if xword:
                    stats["score_xword_context"] += 1
                    probs.append({"what": "word score differs from the first-pass acoustic score: the first pass used another "
                                          "cross-word triphone for this word",
                                  "detail": {"word": name, "aligned": got, "first_pass_acoustic": exp, "tag": tag,
                                             "last": last, "pronlen": plen},
                                  "impl": True, "key": KEY_XWORD, "tie": False})
                elif got > exp and not nobeam:
                    stats["score_first_pass_pruned"] += 1      # aligned path better: first pass pruned inside the word
                else:
                    probs.append({"what": "aligned word score differs from the acoustic part of the first-pass score "
                                          "(compallsen=yes: both passes see the same senone scores)",
                                  "detail": {"word_index": i, "word": name, "aligned": got, "first_pass_acoustic": exp,
                                             "all": diffs, "tag": tag}, "impl": True, "key": None, "tie": False})
        else:
            stats["score_clause_default_words"] += len(diffs)
            if mism:
                stats["score_d12_blocks"] += 1
                probs.append({"what": "aligned word scores differ from the first-pass acoustic scores under the default "
                                      "compallsen=no (each pass normalises to its own best active senone)",
                              "detail": {"tag": tag, "first": mism[0]}, "impl": True, "key": KEY_D12, "tie": False})
    return probs


SYNTH_VOCAB = ["go", "forward", "ten", "meters", "a", "the", "i", "<sil>", "backward", "he", "was", "not", "an", "ill",
               "disposed", "young", "man", "two", "the(2)", "a(2)", "[NOISE]"]
SYNTH_KINDS = {0: "monotone path without skips", 1: "path with skipped states", 2: "arbitrary in-range ids",
               3: "dead (-1) token on the path", 4: "final id -1"}


def gen_synth(rng, i):
    nw = rng.range(1, 4)
    ws = [rng.choice(SYNTH_VOCAB) for _ in range(nw)]
    kind = rng.weighted([(0, 40), (1, 20), (2, 15), (3, 15), (4, 10)])
    T = rng.choice([0, 1, 2, 3]) if rng.chance(0.08) else rng.range(4, 120)
    durs, left = [], max(T, nw)
    for j in range(nw):
        d = left - (nw - 1 - j) if j == nw - 1 else rng.range(1, max(1, left - (nw - 1 - j)))
        durs.append(d)
        left -= d
    return {"id": f"s{i}", "seed": rng.below(1 << 40), "kind": kind, "T": T, "words": list(zip(ws, durs))}


def synth_text(sy):
    spec = " ".join(f"{hx(w)}:{d}" for w, d in sy["words"])
    return f"synth {sy['id']} {sy['seed']} {sy['kind']} {sy['T']} {spec}\n"


def run_synth(c, synths, stats, label):
    """backtrace + propagate on generated token stacks: model = implementation (return code and every entry)"""
    text = "".join(synth_text(sy) for sy in synths)
    rc, out, err = run_harness([str(MODELS["en-us"])], text, 1800)
    if rc != 0:
        return [{"synth": None, "what": "harness exit code %d on synthetic token stacks" % rc, "stderr": err[-1500:]}]
    rc2, dout, derr = run_driver(out)
    if rc2 != 0:
        return [{"synth": None, "what": "driver failed", "stderr": derr[-800:]}]
    hb, cur = {}, None
    for l in out.split("\n"):
        if l.startswith("REQ "):
            cur = [l]
        elif l == "ENDREQ" and cur is not None:
            hb[" ".join(cur[0].split()[:3])] = cur
            cur = None
        elif cur is not None:
            cur.append(l)
    db = split_driver(dout)
    bad = []
    for sy in synths:
        k = f"REQ {sy['id']} synth"
        h, d = hb.get(k), db.get(k)
        if h is None or d is None or any(l.startswith("error") for l in h):
            bad.append({"synth": sy, "what": "no output block / harness error", "block": (h or [])[:4]})
            continue
        hs = sorted(canon_h(l) for l in h if l.startswith(DIFFED + ("A ",)))
        ds = sorted(l for l in d if l.startswith(DIFFED + ("A ",)))
        kind = SYNTH_KINDS[sy["kind"]]
        isnull = any(l.startswith("A null") for l in h)
        stats["synth"][kind + (": fails" if isnull else ": succeeds")] = stats["synth"].get(kind + (": fails" if isnull else ": succeeds"), 0) + 1
        if not isnull:
            # states the backtrace never visited keep the word-level start/duration of alignment_populate
            ws = {int(l.split()[1]): l.split() for l in h if l.startswith("W ")}
            ps = {int(l.split()[1]): l.split() for l in h if l.startswith("P ")}
            if sy["kind"] in (1, 2):
                stats["synth_results_with_skipped_states"] += 1
        if hs != ds:
            first = next(((x, y) for x, y in zip(hs, ds) if x != y), (len(hs), len(ds)))
            bad.append({"synth": sy, "what": "model backtrace/propagate differs from state_align_search_finish on a generated "
                                             "token stack", "first_difference_impl_vs_model": first})
    return bad


# ---- D130 family: the search is replaced (or the replacement refused) between two requests, without decoder_start_utt
REGRAM_OK = {
    "goforward": {"text": ["go backward", "ten meters", "go forward ten meters", "stop"],
                  "jsgf": ["#JSGF V1.0; grammar h; public <h> = go backward;",
                           "#JSGF V1.0; grammar h; public <h> = (stop | go) [forward | backward];"],
                  "fsg": ["go backward two meters", "forward", "go forward ten meters"]},
    "austen8k": {"text": ["she was not", "he was not an ill disposed young man"],
                 "jsgf": ["#JSGF V1.0; grammar h; public <h> = she was an old woman;"],
                 "fsg": ["young man", "he was"]},
    "goforward_fr": {"text": ["recule", "avance de dix mètres"],
                     "jsgf": ["#JSGF V1.0; grammar h; public <h> = recule de cinq mètres;"],
                     "fsg": ["recule de dix"]},
}
REGRAM_BAD = {"text": ["go zzqxunknownword ten", "zzqxunknownword"],
              "jsgf": ["#JSGF V1.0; grammar h; public <h> = go zzqxunknownword;", "this is not a grammar", "#JSGF V1.0; grammar h; public <h> = ( go ;"],
              "fsg": ["go zzqxunknownword", "zzqxunknownword"],
              "addword": [["zzrw", "F UW QQ"], ["zzrw", "NOTAPHONE"], ["go", "G OW"]]}


def gen_regram_case(rng, i, tier, stats):
    """final result -> 1..3 grammar-setting calls (accepted: the search is replaced / re-initialised; refused: nothing
    changes), each followed by an alignment request + decoder_result_json, never a decoder_start_utt in between"""
    an = rng.weighted([("goforward", 70), ("austen8k", 18), ("goforward_fr", 12)])
    path, skip, total, model, extra = AUDIO[an]
    cfg = dict(extra)
    start, n = (0, total) if rng.chance(0.6) else (0, rng.range(total // 3, total))
    gk = rng.weighted([("text", 65), ("jsgf", 35)])
    gram = rng.choice(TEXTS[an][:4]) if gk == "text" else rng.choice(JSGF[an])
    mode = rng.weighted([("stream", 40), ("full", 40), ("nosearch", 10), ("nogrow", 10)])
    if rng.chance(0.3):
        cfg["bestpath"] = "no"
    pat = rng.weighted([("accepted", 40), ("refused", 20), ("refused-accepted", 15), ("accepted-refused", 10),
                        ("accepted-accepted", 5), ("refused-accepted-refused", 10)])
    evs = []
    for j, what in enumerate(pat.split("-")):
        kind = rng.weighted([("text", 35), ("jsgf", 25), ("fsg", 20), ("addword", 20)]) if model == "en-us" else \
            rng.weighted([("text", 45), ("jsgf", 30), ("fsg", 25)])
        if what == "accepted":
            ev = [kind, f"zzrw{rng.below(10 ** 9)}", "F UW B"] if kind == "addword" else [kind, rng.choice(REGRAM_OK[an][kind])]
        else:
            ev = [kind] + list(rng.choice(REGRAM_BAD[kind])) if kind == "addword" else [kind, rng.choice(REGRAM_BAD[kind])]
        evs.append(ev + [what] if len(ev) == 3 else ev + ["", what])
        k = f"regram {what} {kind}"
        stats["extra"][k] = stats["extra"].get(k, 0) + 1
    stats["extra"]["regram pattern " + pat] = stats["extra"].get("regram pattern " + pat, 0) + 1
    utts = []
    if n < total and rng.chance(0.3):
        utts.append([str(path), skip, rng.range(0, total - n), n])
    return {"id": f"rg{i}", "model": model, "cfg": cfg, "gram": [gk, gram], "audio": [str(path), skip, start, n],
            "chunkseq": [], "utts": utts, "preend": int(rng.chance(0.2)), "addwords": [], "noise": None, "tmatskip": 0,
            "audio_name": an, "mode": mode, "chunk": rng.choice([2048, 4096, 16000]), "partials": [], "early": 0,
            "dumpsen": 0, "regram": [[e[0], e[1]] + ([e[2]] if e[2] else []) for e in evs],
            "regram_expect": [e[3] for e in evs]}


def block_fp(b):
    return [l for l in b if l.startswith("FP ")]


def block_words(b):
    return [l.split()[2:6] for l in b if l.startswith("W ")]


def judge_regram(case, blocks, stats):
    """D130 oracle over the request sequence of one case: after an ACCEPTED grammar-setting call (tag ...swapped) the
    decoder has no result until it decodes again — an alignment handed out then (or a decoder_result_json line with a
    nested word list) describes a result that no longer exists; whenever an alignment is returned its words must be the
    dictionary words of the CURRENT decoder_seg_iter.  After a REFUSED call (tag ...refused) nothing may have changed:
    first-pass segmentation, NULL/non-NULL and the word list are those of the previous request."""
    probs = []
    exp = list(case.get("regram_expect") or [])
    prev = None
    k = 0
    for b in blocks:
        tag = b[0].split()[2]
        if not (tag.endswith("swapped") or tag.endswith("refused")):
            prev = b
            continue
        rg = next((l.split() for l in b if l.startswith("RG ")), None)
        a = next((l for l in b if l.startswith("A ")), "A ?")
        reuse = next((l.split()[1] for l in b if l.startswith("REUSE ")), None)
        got_al = a.startswith("A ok") or reuse == "nonnull-after-null"
        what = "accepted" if tag.endswith("swapped") else "refused"
        stats["extra"]["regram requests " + what] = stats["extra"].get("regram requests " + what, 0) + 1
        if k < len(exp) and exp[k] != what:
            probs.append({"what": f"generator drew a grammar-setting call expected to be {exp[k]}, the library {what} it "
                                  "(family does not exercise what it claims)", "detail": {"tag": tag, "call": case["regram"][k]},
                          "impl": False, "key": None, "tie": True})
        call = {"call": (case.get("regram") or [[]] * (k + 1))[k] if k < len(case.get("regram") or []) else None, "tag": tag,
                "RG(kind, rv, hyp!=NULL, seg_iter!=NULL)": rg[1:] if rg else None}
        fpw = [l.split() for l in block_fp(b) if int(l.split()[1]) >= 0]
        if got_al:
            cur = [[w[1], w[3], str(int(w[4]) - int(w[3]) + 1)] for w in fpw]
            words = [[w[0], w[2], w[3]] for w in block_words(b)]
            if rg and rg[3] == "0" and rg[4] == "0":
                stats["extra"]["regram alignment returned with no result"] = stats["extra"].get("regram alignment returned with no result", 0) + 1
                probs.append({"what": "decoder_alignment returned an alignment although the decoder has no result: the search was "
                                      f"replaced by an accepted grammar-setting call ({rg[1]}) after the last utterance and nothing was "
                                      "decoded since (decoder_hyp and decoder_seg_iter return NULL) - the words are those of the "
                                      "PREVIOUS search's result, not of the first-pass segmentation of the current one",
                              "detail": {**call, "alignment_words(id,start,duration)": words[:12],
                                         "current_first_pass": cur}, "impl": True, "key": None, "tie": False})
            elif words != cur:
                probs.append({"what": "decoder_alignment returned an alignment whose words are not the dictionary words of the "
                                      "current first-pass segmentation (after a grammar-setting call without decoder_start_utt)",
                              "detail": {**call, "alignment_words(id,start,duration)": words[:12], "current_first_pass": cur[:12]},
                              "impl": True, "key": None, "tie": False})
        if what == "accepted" and rg and rg[3] == "0" and rg[4] == "0":
            for jl in (l.split() for l in b if l.startswith("J ")):
                if int(jl[1]) > 0 and jl[6] != "null":
                    probs.append({"what": "decoder_result_json with an alignment level returned a line with a nested word list "
                                          "although the decoder has no result (search replaced, nothing decoded since)",
                                  "detail": {**call, "json_call": f"decoder_result_json(d, {float.fromhex(jl[2])!r}, {jl[1]})",
                                             "line": bytes.fromhex(jl[6]).decode(errors="replace")[:300]},
                                  "impl": True, "key": None, "tie": False})
                    break
        if what == "refused" and prev is not None:
            pa = next((l for l in prev if l.startswith("A ")), "A ?")
            if block_fp(b) != block_fp(prev):
                probs.append({"what": "a REFUSED grammar-setting call changed the first-pass result (decoder_seg_iter differs from "
                                      "the previous request)", "detail": {**call, "before": block_fp(prev)[:8], "after": block_fp(b)[:8]},
                              "impl": True, "key": None, "tie": False})
            elif pa[:5] != a[:5] or block_words(b) != block_words(prev):
                probs.append({"what": "a REFUSED grammar-setting call changed what decoder_alignment returns for the unchanged "
                                      "result", "detail": {**call, "before": [pa, block_words(prev)[:8]], "after": [a, block_words(b)[:8]]},
                              "impl": True, "key": None, "tie": False})
            else:
                stats["extra"]["regram refused: result and alignment unchanged"] = \
                    stats["extra"].get("regram refused: result and alignment unchanged", 0) + 1
        if what == "accepted" and not got_al:
            stats["extra"]["regram accepted: no alignment for the vanished result"] = \
                stats["extra"].get("regram accepted: no alignment for the vanished result", 0) + 1
        prev = b
        k += 1
    return probs


def new_stats():
    return {"extra": {}, "skip_probe": {}, "audio": {}, "clip": {}, "grammar": {}, "mode": {}, "cfg": {}, "requests": 0, "partial": 0, "final": 0,
            "alignments": 0, "null_results": 0, "null_no_words": 0, "null_circular_buffer": 0,
            "fp_with_nondict_segments": 0, "frames": [], "states": [], "words": [], "pron_len": {}, "filler_words": 0,
            "alt_pron_words": 0, "score_clause_exact_words": 0, "score_clause_default_words": 0, "score_d12_blocks": 0,
            "synth": {}, "synth_results_with_skipped_states": 0, "step_model_blocks": 0, "step_model_frames": 0,
            "step_manual_pass_equals_decoder_pass": 0, "step_model_not_applicable": 0, "score_xword_context": 0, "score_first_pass_pruned": 0, "crashes": 0, "grammar_rejected": 0,
            "renorm_probe_blocks": 0, "renorm_probe_fired": 0, "renorm_probe_fired_and_alive": 0,
            "json_calls": 0, "json_null": 0, "json_lines": 0, "json_level": {}, "json_start": {}, "json_frate": {},
            "json_state_level_nonzero_start": 0, "json_lean_ok": 0, "json_bad": 0,
            "tree_hyp_blocks": 0, "dead_probe_blocks": 0, "dead_probe": {}, "wrap_requests": 0, "wrap_agree": 0, "wrap_c1": {}, "wrap_c2": {}, "wrap_kind": {}, "wrap_partial_T_lt_output_frame": 0,
            "wrap_first_call_reused_earlier_object": 0, "wrap_dropped_nondict_segments": 0}


def evaluate(c, binp, cases, stats, label):
    """run a batch; returns {case id: [problems]}"""
    out = {}
    by_model = {}
    for cs in cases:
        by_model.setdefault(cs["model"], []).append(cs)
    for model, cl in by_model.items():
        model_block, res = run_cases(binp, model, cl)
        ci_names = {int(l.split()[1]): l.split()[2] for l in model_block if l.startswith("CI ")}
        text = "\n".join(model_block) + "\n"
        for cs in cl:
            r = res.get(cs["id"])
            if r:
                for b in r["blocks"]:
                    text += "\n".join(b) + "\n"
        rc2, dout, derr = run_driver(text)
        if rc2 != 0:
            c.oblige(f"model driver runs ({label})", False, derr[-800:])
            return None
        dblocks = split_driver(dout)
        for cs in cl:
            probs = []
            r = res.get(cs["id"])
            if r is None:
                probs.append({"what": "case did not run", "detail": cs["id"], "impl": False, "key": None, "tie": True})
            else:
                if r["head"] and " grammar=-1" in r["head"]:
                    stats["grammar_rejected"] += 1
                for b in r["blocks"]:
                    key = " ".join(b[0].split()[:3])
                    probs += judge_block(cs, b, dblocks.get(key), ci_names, stats)
                if cs.get("regram"):
                    probs = judge_regram(cs, r["blocks"], stats) + probs        # D130 oracle first: the concrete witness
                if r["crash"]:
                    stats["crashes"] += 1
                    opn = r.get("open")
                    in_align = bool(opn) and "decoder_alignment" in r["stderr"]
                    if not in_align and r["blocks"] and not cs["id"].endswith("_noreq"):
                        # the first pass aborted AFTER alignment requests of this case were answered (possibly refused): the
                        # same case without the requests made before the end of the utterance tells whether the request did it
                        after = request_side_effect(binp, model, cs, r)
                        if after is not None:
                            stats["crashes_after_alignment_request"] = stats.get("crashes_after_alignment_request", 0) + 1
                            probs.append(after)
                            out[cs["id"]] = probs
                            continue
                    probs.append({"what": "sanitizer report / assertion / abort inside the library during an alignment request"
                                  if in_align else
                                  "the library aborted outside decoder_alignment (first pass / set-up): harness error to "
                                  "investigate, not a C04 witness",
                                  "detail": {"exit_code": r["rc"], "request": opn[0] if opn else None,
                                             "first_pass": [l for l in (opn or []) if l.startswith("FP ")],
                                             "stderr": r["stderr"]}, "impl": in_align, "key": None,
                                  "tie": not in_align})
            out[cs["id"]] = probs
    return out


def request_side_effect(binp, model, cs, r):
    """differential for an abort in the first pass that follows alignment requests: run the case again without the requests
    made inside the utterance (partial / early / pre-end).  When that run completes, the (answered or refused) request left
    the decoder in a state in which feeding more audio aborts — no later alignment of this utterance can be obtained, the
    clause "holds for partial results and for the final result" fails on this concrete input."""
    cs2 = {**cs, "id": cs["id"] + "_noreq", "partials": [], "early": 0, "preend": 0}
    try:
        _, res2 = run_cases(binp, model, [cs2])
    except Exception:
        return None
    r2 = res2.get(cs2["id"])
    if r2 is None or r2["crash"]:
        return None
    answered = [(b[0].split()[2], next((l.split()[1] for l in b if l.startswith("A ")), "?")) for b in r["blocks"]]
    return {"what": "the library aborted in the first pass after alignment requests of this utterance had been answered; "
                    "the same case without the requests inside the utterance runs to completion: a request (refused or "
                    "answered) is not side-effect free and no later / final alignment of the utterance exists",
            "detail": {"exit_code": r["rc"], "requests_answered_before_the_abort(tag, result)": answered[-12:],
                       "stderr": r["stderr"][-1200:]}, "impl": True, "key": None, "tie": False}


def shrink(c, binp, case, probs):
    """simplify a failing case: keep only the request that fails, drop options that are not needed"""
    def still(cs):
        st = new_stats()
        r = evaluate(c, binp, [cs], st, "shrink")
        if r is None:
            return None
        ps = [p for p in r[cs["id"]] if p["key"] is None]
        return ps or None
    best, bestp = case, [p for p in probs if p["key"] is None]
    cands = []
    for p in case["partials"]:
        cands.append({**case, "partials": [p], "early": 0})
    cands.append({**case, "partials": [], "early": 0})
    cands.append({**case, "early": 0})
    for cs in cands:
        ps = still(cs)
        if ps:
            best, bestp = cs, ps
            break
    for k in list(best["cfg"].keys()):
        if k == "samprate":
            continue
        cs = {**best, "cfg": {a: b for a, b in best["cfg"].items() if a != k}}
        ps = still(cs)
        if ps:
            best, bestp = cs, ps
    if best["mode"] not in ("stream",) and not best["partials"]:
        cs = {**best, "mode": "full"}
        ps = still(cs)
        if ps:
            best, bestp = cs, ps
    return best, bestp


def report(c, binp, case, probs, label, do_shrink=True):
    real = [p for p in probs if p["key"] is None]
    seen = c.__dict__.setdefault("_c04_keys", set())
    for p in probs:
        if p["key"] is not None and p["key"] not in seen:
            seen.add(p["key"])        # one witness per finding class and run
            c.violation({"kind": "alignment", "case": case, "problem": p["what"], "detail": p["detail"],
                         "finding_key": p["key"]}, True, finding_key=p["key"])
    if not real:
        return True
    small, sp = (shrink(c, binp, case, probs) if do_shrink else (case, real))
    impl = any(p["impl"] for p in sp)
    tie = [p for p in sp if p["tie"]]
    c.oblige(f"alignment case {label}: property holds on the implementation and model = implementation", False,
             [p["what"] for p in sp][:4])
    c.violation({"kind": "alignment", "case": small, "problems": [{"what": p["what"], "detail": p["detail"]} for p in sp][:6],
                 "implementation_violates_property": impl, "model_implementation_divergence": bool(tie),
                 "how_to_rerun": "python3 tools/check.py C04 --replay <this file>"}, impl)
    return False


def summarise(stats):
    def hist(xs):
        if not xs:
            return {}
        xs = sorted(xs)
        return {"min": xs[0], "median": xs[len(xs) // 2], "max": xs[-1], "n": len(xs)}
    s = dict(stats)
    s["frames"], s["states"], s["words"] = hist(stats["frames"]), hist(stats["states"]), hist(stats["words"])
    return s


def check(c):
    c.trusted += ["harness/h_c04.c + tools/props/c04.py (generator, canonicalisation, diff, score comparison)",
                  "the senone scorer (acmod_score, floating point GMM code) and the first-pass search are not modelled: "
                  "their outputs (first-pass segmentation, token stack) are inputs of the model",
                  "clang ASan/UBSan as observer of memory errors in the aligner"]
    c.assumptions += ["theorems about the step model (wfTokens, hierarchy, optimality) are for second passes of at most 16 140 "
                      "frames (T * 33022 <= 533 000 000, evaluated per request as `tbound`): for those the renormalisation test "
                      "of state_align_search_step (modelled with the D28 conjunct, Step.renormDue) is PROVED never to fire "
                      "(C04_alignStep_never_renormalises); for longer passes the branch is modelled and tied to the real "
                      "renormalize_hmms by the renormalisation probe, but no theorem covers such runs",
                      "JSON observation: |start| <= 1e5 s (the double rounding of start + frame/frate stays below the 1e-9 slack "
                      "of the tolerance 0.0005 + 1e-9) and frame rate <= 500 (a rendered time then determines its frame: "
                      "`clockOK`, evaluated per call); generated frame rates: 100 (the models'), 50, 90, 125, 200",
                      "alignments of fewer than 65 535 entries per level (uint16 counters of alignment_vector_t)",
                      "dictionary pronunciations are non-empty (D4) and n_emit_state > 0 (asserted by hmm_context_init)",
                      "buffering modes that allow a second pass: growing feature buffer (default, full_utt, no_search) or a "
                      "circular buffer that has not wrapped; when acmod_rewind refuses, NULL is the expected result"]
    if not c.lean_obligations():
        return
    binp = vlib.build_harness("h_c04")
    stats = new_stats()
    allok = True
    # corpus first
    corpus = sorted((vlib.ROOT / "corpus" / "C04").glob("*.json"))
    ccases = []
    for f in corpus:
        cs = json.loads(f.read_text())
        cs["id"] = "c" + f.stem.replace("-", "_")
        ccases.append(cs)
    if ccases:
        r = evaluate(c, binp, ccases, stats, "corpus")
        if r is None:
            return
        for cs in ccases:
            if not report(c, binp, cs, r[cs["id"]], f"corpus {cs['id']}", do_shrink=False):
                allok = False
    ncases = 36 if c.tier == "quick" else 700
    cases = [gen_case(c.rng, i, c.tier, stats) for i in range(ncases)]
    prng = vlib.Rng(c.seed * 1000003 + 606).fork()      # early-polling family: own stream too
    cases += [gen_poll_case(prng, i, c.tier, stats) for i in range(4 if c.tier == "quick" else 90)]
    ncases = len(cases)
    drng = vlib.Rng(c.seed * 1000003 + 909)      # dead-final-state probe: own stream too
    jrng = vlib.Rng(c.seed * 1000003 + 404)      # own stream: the generated alignment cases stay what they were
    for cs in cases:
        cs["json"] = gen_json(jrng)
        cs["renormprobe"] = jrng.choice(RENORM_STARTS) if cs.get("dumpsen") and not cs.get("tmatskip") else 0
        cs["deadprobe"] = drng.choice([1, 2, 2, 3, 3, 5]) if cs.get("dumpsen") and not cs.get("tmatskip") else 0
        # other frame rates than the models' 100 (the JSON times are start + frame/frate): 1/50, 1/125 and 1/200 s are exact
        # at three decimals, 1/90 s is not
        if jrng.chance(0.12):
            cs["cfg"]["frate"] = jrng.choice(["50", "125", "200", "90"])
            stats["cfg"]["frate=" + cs["cfg"]["frate"]] = stats["cfg"].get("frate=" + cs["cfg"]["frate"], 0) + 1
    # scorer-configuration family (ds x topn x frame-count residues x final/partial), own stream, appended after the loop above
    cases += gen_scorer_cases(c.seed, c.tier, stats)
    # D130 family: search replaced / replacement refused between two requests (own stream, own json draws)
    rgrng = vlib.Rng(c.seed * 1000003 + 1300)
    rgcases = [gen_regram_case(rgrng, i, c.tier, stats) for i in range(6 if c.tier == "quick" else 120)]
    for cs in rgcases:
        cs["json"] = gen_json(rgrng)
    cases += rgcases
    ncases = len(cases)
    for cs in cases:        # configuration distribution of ALL generated cases: which scorer options are drawn at all
        for k in ("ds", "topn"):
            kk = f"{k}=" + cs["cfg"].get(k, "default")
            stats["cfg"][kk] = stats["cfg"].get(kk, 0) + 1
    # a few cases also dump the senone scores of a hand-stepped second pass (step model, see driver)
    for cs in cases[:3]:
        c.samples.append({k: cs[k] for k in ("gram", "audio", "mode", "chunk", "partials", "cfg")})
    B = 12 if c.tier == "quick" else 40
    nfail = 0
    for i in range(0, ncases, B):
        if nfail >= 3:
            break
        batch = cases[i:i + B]
        r = evaluate(c, binp, batch, stats, f"batch {i}")
        if r is None:
            return
        for cs in batch:
            if nfail >= 3:
                break           # enough witnesses; the remaining cases of the batch are not reported one by one
            if not report(c, binp, cs, r[cs["id"]], cs["id"], do_shrink=(nfail < 2)):
                allok = False
                nfail += 1
    # synthetic token stacks: every branch of the backtrace model, including the failing ones and skipped states
    nsyn = 150 if c.tier == "quick" else 4000
    synths = [gen_synth(c.rng, i) for i in range(nsyn)]
    sbad = []
    for i in range(0, nsyn, 500):
        sbad += run_synth(c, synths[i:i + 500], stats, f"synth {i}")
        if sbad:
            break
    c.oblige("correspondence: backtrace + propagate of the model = state_align_search_finish on generated token stacks "
             "(valid, skipping, arbitrary, dead, failing)", not sbad, sbad[:2])
    if sbad:
        c.violation({"kind": "synthetic token stack", "synth": sbad[0].get("synth"), "problem": sbad[0],
                     "how_to_rerun": "python3 tools/check.py C04 --replay <this file>"}, False, tag="synth")
    stats["synth_cases"] = nsyn
    c.oblige("every generated alignment request: AlignOK holds on the API output, NULL only when no word / no rewind, "
             "score clause (compallsen=yes exact)", allok)
    c.oblige("JSON observation point: every line decoder_result_json(d, start, 1|2) returned after an alignment request lists "
             "exactly the entries of the iterators (label, start frame, duration within 0.0005 + 1e-9 of start + f/frate), "
             "children partition their parents in time, every level is contiguous from start (Python oracle AND "
             "JsonObs.obsOf/timeOKB of the driver agree); NULL exactly when decoder_alignment returns NULL; at least one "
             "state-level call with |start| >= 1 s was judged",
             stats["json_bad"] == 0 and (stats["json_lines"] == stats["json_lean_ok"]) and
             (stats["alignments"] == 0 or stats["json_state_level_nonzero_start"] > 0),
             {k: stats[k] for k in ("json_calls", "json_lines", "json_lean_ok", "json_state_level_nonzero_start", "json_bad")})
    c.oblige("renormalisation branch exercised: in at least one hand-stepped pass started close to the threshold the real "
             "state_align_search_step renormalised (model flag renorm=1) and the step model reproduced its token stack "
             "frame for frame (only required when >= 5 probe passes ran)",
             stats["renorm_probe_blocks"] < 5 or stats["renorm_probe_fired"] > 0,
             {k: stats[k] for k in ("renorm_probe_blocks", "renorm_probe_fired", "renorm_probe_fired_and_alive")})
    c.oblige("correspondence: populate + windows + backtrace + propagate of the model = real code on every dumped token stack; "
             "WFTokens and NoSkip hold on the dumped data; the step model reproduces the token stack from the dumped senone scores",
             allok)
    sc = stats.get("scorer", {})
    need = [f"ds={ds} final searched-frames%ds={r}" for ds in (2, 3) for r in range(ds)]
    miss = [k for k in need if sc.get(k, {}).get("words_compared_exactly", 0) == 0]
    npart = {ds: sorted({k for k in sc if k.startswith(f"ds={ds} partial") and sc[k]["words_compared_exactly"] > 0}) for ds in (2, 3)}
    c.oblige("scorer-configuration family: under compallsen=yes the exact score oracle (aligned word score = first-pass acoustic "
             "part) judged a FINAL request for ds = 2 and 3 at every residue of the searched frame count mod ds, and PARTIAL "
             "requests at >= 2 different residues for each of ds = 2, 3 (frame downsampling: the second pass must fully evaluate "
             "the same frames as the first)", not miss and all(len(v) >= 2 for v in npart.values()),
             {"missing_final_cells": miss, "partial_cells": npart, "cells": sc})
    c.oblige("dead-final-state probe (C04_dead_final_no_alignment on the real search): every truncated hand-stepped pass is "
             "reproduced by the step model, state_align_search_finish fails on it exactly when the model's exit score is dead; "
             "when >= 6 probes ran, a dead exit state with history -1, a dead one with a history that is not -1, and an alive "
             "one were all seen", stats["dead_probe_blocks"] < 6 or all(
                 stats["dead_probe"].get(k, 0) > 0 for k in ("alive", "dead, exit history -1", "dead, exit history not -1")),
             {"dead_probe_blocks": stats["dead_probe_blocks"], **stats["dead_probe"]})
    c.oblige("correspondence: the wrapper model Wrap.request, run over the request sequence of every case (final, partial, "
             "pre-end, later utterances, repeated call), predicts what decoder_alignment did in EVERY request: NULL / alignment, "
             "the (id, start, duration) word list, the number of frames the aligner saw, same / new object on the repeated "
             "call; hypotheses pos/cov/pron of C04_wrapper_words_are_first_pass hold on the FP lines; at least one repeated "
             "call was answered by the reuse shortcut and (when any partial request returned an alignment) at least one was not",
             stats["wrap_requests"] == stats["wrap_agree"] and stats["wrap_requests"] == stats["requests"] and
             (stats["alignments"] == 0 or stats["wrap_c2"].get("reuse", 0) > 0),
             {k: stats[k] for k in ("wrap_requests", "wrap_agree", "wrap_c1", "wrap_c2", "wrap_kind",
                                    "wrap_partial_T_lt_output_frame", "wrap_first_call_reused_earlier_object",
                                    "wrap_dropped_nondict_segments")})
    s = summarise(stats)
    c.cov["explanation"] = (
        "Theorems (all inputs, any number of words/phones/frames): populate_structure, backtrace_partition, "
        "children_are_blocks, boundaries_preserved, scores_add_up over the model of alignment_populate / "
        "state_align_search_finish / alignment_propagate / the child iterators, under the executable hypothesis wfTokens; "
        "alignOKB = AlignOK; alignStep_WFTokens (the token stack of the constrained Viterbi model satisfies wfTokens whenever "
        "the final score is alive: NoSkip, C-type ranges, ef non-decreasing, T <= 16 140), alignStep_never_renormalises "
        "(the D28-repaired renormalisation test is false in every frame of such a run), "
        "hence model_run_hierarchy without a token-stack hypothesis; alignScore_is_best_path (the final "
        "out-score = max over admissible window-constrained monotone paths of the summed senone+transition scores) and "
        "word_score_is_best_segment (each aligned word score = max over path segments across that word's frames).  Tie: every alignment the real decoder returned in this run was (1) judged by alignOKB "
        "on the iterator-API output, (2) recomputed by the model from the dumped first-pass segmentation, dict2pid tables "
        "and token stack and compared entry by entry, (3) its token stack checked against wfTokens/NoSkip, and for a third "
        "of the requests (4) recomputed frame by frame by the step model from the senone scores a hand-stepped second pass "
        "saw.  Generated token stacks exercise the failing and skipping branches of the backtrace.  The relation to the "
        "first-pass scores is evaluated on the implementation only: exact under compallsen=yes (equality for every word "
        "whose cross-word triphones agree in both passes), recorded as known findings otherwise.  "
        "The window arrays wfTokens is evaluated on are the C search's sf/ef; the model's windows (sfOf/efOf of the "
        "populated alignment, the ones the theorems use) are printed by the driver and diffed against them in every "
        "request (lines SF/EF), both bundled models have 3 emitting states.  The hand-stepped second pass whose senone "
        "scores feed the step model must reproduce the token stack of decoder_alignment's own pass (obligation).  "
        "JSON observation point: json_* counters; C04_json_time_iff / C04_json_hierarchy_in_time (the affine map "
        "frame -> start + frame/frate preserves and reflects the partition and contiguity clauses), "
        "C04_json_recoverStart_sound / recoverDur_sound (the integer frame recovery from the %.3f text is sound and "
        "unambiguous).  Dead final state (audit B6a): C04_dead_final_no_alignment / C04_alignment_implies_final_alive / "
        "C04_model_run_alignment_iff_alive - finish on the token stack of Step.run returns an alignment exactly when the "
        "final out-score is alive; tie: `alive` is evaluated on every returned alignment, and the dead-final-state probe "
        "(directive deadprobe, lines DCUT/DFINAL/DTOK/DFIN, driver line DSTEP) stops a hand-stepped real pass 1, 2, 3.. "
        "frames after the last phone's window opens, the step model must reproduce it and state_align_search_finish must "
        "fail exactly when the model's exit score is dead (dead_probe counters: exit history -1, exit history not -1, alive).  "
        "Wrapper (audit B6c): decoder_alignment is modelled (Model/AlignWrap.lean: reuse shortcut, dictionary filter + "
        "contiguity assertion, rewind, replay loop with the D29 guard, finish; decoder_start_utt / decoder_end_utt (D70) / "
        "more audio between requests); theorems C04_wrapper_frames, C04_wrapper_words_tile, "
        "C04_wrapper_words_are_first_pass, C04_wrapper_model_pass2_ok, C04_wrapper_reuse, C04_wrapper_repeated_call; tie: "
        "the driver carries the wrapper state over the request sequence of every case and its prediction is diffed with "
        "the implementation in every request (wrap_* counters).  In the wrapper model the second pass is a parameter, "
        "instantiated by the driver with populate/finish on the token stack dumped in that request; failures of "
        "alignment_populate / state_align_search_init / search_module_start / search_module_step are not modelled.  "
        "Full tree predicate: C04_model_tree_alignOK (all 11 clauses of AlignOK for the model's result, expSen = "
        "modelExpSen, hypothesis hsen) - both evaluated per request (driver line TREE: hsen, mexp).")
    c.cov.update({"evaluations": stats["requests"], "distinct_nontrivial": stats["alignments"],
                  "rule": "alignment requests (final and partial) on generated (grammar, clip, mode, chunking, configuration) "
                          "cases; non-trivial = decoder_alignment returned an alignment (>= 1 word) whose token stack was dumped, "
                          "recomputed by the model and checked by alignOKB",
                  "cases": ncases, "corpus_cases": len(ccases), "distribution": s})


def replay(c, path):
    c.lean_obligations()
    binp = vlib.build_harness("h_c04")
    obj = json.loads(open(path).read())
    if obj.get("kind") == "synthetic token stack":
        stats = new_stats()
        sbad = run_synth(c, [obj["synth"]], stats, "replay")
        c.oblige("replay: model = implementation on the synthetic token stack", not sbad, sbad[:1])
        if sbad:
            c.violation({"kind": "synthetic token stack", "synth": obj["synth"], "problem": sbad[0]}, False, tag="synth")
        c.cov.update({"evaluations": 1, "distinct_nontrivial": 1})
        return
    case = obj["case"]
    case.setdefault("id", "replay")
    stats = new_stats()
    r = evaluate(c, binp, [case], stats, "replay")
    if r is not None:
        report(c, binp, case, r[case["id"]], "replay", do_shrink=False)
    c.cov.update({"evaluations": stats["requests"], "distinct_nontrivial": stats["alignments"], "distribution": summarise(stats)})
