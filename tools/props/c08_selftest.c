/* Self-test input of tools/gen_writesets.py (run by tools/props/c08.py on every check): a small translation unit
 * whose may-write sets are known.  The struct names are names of the C08 inventory, so that the fields are keyed
 * like the real ones; nothing of the library is included.  Expected sets: tools/props/c08.py SELFTEST_EXPECT. */
typedef struct mel_s { int n; float *coeff; } mel_t;              /* outside the inventory: owner attribution */
struct fe_s;
typedef struct vt_s { void (*run)(struct fe_s *); void (*idle)(struct fe_s *); } vt_t;
struct cmn_inner { int k; };
struct fe_s {
    int a, b, c, d, e, f, g, h;
    float *buf;        /* scalar buffer */
    float *ro;         /* only ever read */
    float *kept;       /* stored into acmod_s.alias, written through it */
    float *parked;     /* stored into acmod_s.parked, never written through */
    float arr[4];
    mel_t *mel;
    vt_t *vt;
    struct fe_s *next;
};
struct acmod_s { float *alias; float *parked; struct fe_s *fe; struct fe_s emb; int cnt; };

void *__ckd_calloc__(unsigned long n, unsigned long sz, const char *f, int l);
extern void *memset(void *, int, unsigned long);
extern unsigned long strlen(const char *);
static int counter;                 /* file-level static */
int shared_global;
static const int table[3] = { 1, 2, 3 };

static void fill(float *p, int n) { int i; for (i = 0; i < n; i++) p[i] = 0; }      /* writes through p */
static float sum(float *p, int n) { float s = 0; int i; for (i = 0; i < n; i++) s += p[i]; return s; } /* reads p */
static void bump(int *x) { ++*x; }
static void run_a(struct fe_s *fe) { fe->e = 1; }
static void run_b(struct fe_s *fe) { fe->f = 1; }
static void idle_a(struct fe_s *fe) { fe->g = 1; }
static vt_t vt_a = { run_a, idle_a };
static vt_t vt_b = { .run = run_b };
static int cmp(const void *x, const void *y) { shared_global++; return 0; }
extern void qsort(void *, unsigned long, unsigned long, int (*)(const void *, const void *));

void entry_direct(struct fe_s *fe)
{
    fe->a = 1;                 /* asg */
    fe->b += 2;                /* compound */
    fe->c++;                   /* inc */
    bump(&fe->d);              /* address taken, callee writes */
    fe->arr[2] = 0;            /* inline array */
    counter++;                 /* static global */
}

void entry_buffers(struct fe_s *fe)
{
    float *w = fe->buf;        /* alias, written through */
    float *r = fe->ro;         /* alias, only read */
    float s;
    w[1] = 3;
    s = r[0] + sum(fe->ro, 2);
    fill(fe->arr, 4);          /* decay of inline array into a writing callee */
    fe->mel->coeff[0] = s;     /* field of a non-inventory record: owner fe_s.mel */
    (void)strlen((const char *)fe->ro);
}

void entry_store(struct acmod_s *am, struct fe_s *fe)
{
    am->alias = fe->kept;      /* stored … */
    am->parked = fe->parked;
    am->alias[0] = 1;          /* … and written through the member */
}

void entry_vtable(struct fe_s *fe)
{
    fe->vt->run(fe);           /* run_a or run_b, not idle_a */
}

void entry_alloc(struct acmod_s *am)
{
    struct fe_s *fresh = __ckd_calloc__(1, sizeof(*fresh), "", 0);
    am->fe = fresh;
    memset(&am->emb, 0, sizeof(am->emb));  /* whole embedded record through void* to a body-less function */
}

void entry_callback(struct fe_s *fe, int *v, int n)
{
    qsort(v, n, sizeof(int), cmp);   /* cmp is called by code outside: counts as called here */
    (void)table[1];
}

void entry_readonly(const struct fe_s *fe, struct acmod_s *am)
{
    float s = sum(fe->ro, 1) + fe->buf[0] + (float)fe->a + (float)am->cnt;
    (void)s;
}
