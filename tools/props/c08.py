"""C08 — utterances and decoder instances are isolated; decoding is deterministic.

Lean: SSVerif/Props/C08.lean — an abstract dataflow model of the decoder state at the granularity of the
struct fields / owned buffers of the *generated* inventory (SSVerif/Generated/Fields.lean, regenerated from
the current headers and `nm libss.a` on every run).  Every cell is classified (persistent / cmn / reset /
derived / dead / layout / logonly), every operation has declared read, write and dependency sets; theorems:
no stale read after `startUtt` for every history, the CMN state is the only carry that reaches a result,
start_resets, utterance_function, batch_no_reset, instances_disjoint.

Tie + implementation-side oracle (this file, harness/h_c08.c = the real code under ASan/UBSan):
 (a) after every decoder_start_utt every reset cell is read through the headers and compared with its
     canonical value; the harness' list must be exactly the model's reset list (with the same canon text);
 (b) every dead-on-start buffer is overwritten with garbage (and log-only counters / ring phases perturbed)
     after decoder_start_utt: the result record must be bit-identical;
 (c) the k-th utterance of a random history (other audio, other grammars switched back and forth, no-hypothesis
     utterances, streaming / batch / buffered, partial queries) must equal a FRESH decoder (own process) given
     the same configuration, grammar and CMN text;  with batch CMN configured a full_utt utterance must not
     depend on the CMN state at all;
 (d) two decoders interleaved in one process must each equal their solo run;
 (e) per real API call the set of inventory cells whose bytes changed must be inside the write set the model
     declares for the corresponding operation, and the model's protocol phase must equal acmod->state.

 (g) result queries are read-only for the utterance: a fresh decoder that is queried in the MIDDLE of the utterance
     (hyp, segmentation, lattice, alignment on the partial result) must end with the same result as a fresh decoder
     fed the same audio without the queries (crossed with non-default scorer configurations: ds 2/3, topn).

Static tie (tools/gen_writesets.py, Props/C08Static.lean): on every run the may-write set of struct fields / globals
of every API phase is recomputed from the clang AST of every src/*.c (call graph with the vtables resolved) and
compared by `decide` with the model's classification and declared write sets; the struct set reachable from decoder_s
must be classified in full.  (f) every write the snapshots observe must be inside the static may-write set of the
phase (cross-validation of the analysis by the dynamic side).
"""
import json, os, re, struct, concurrent.futures as cf
import vlib

FRAME_SIZE, FRAME_SHIFT = 410, 160      # compared with fe_s.frame_size / frame_shift of the running decoder (inventory_tie)
MAXCHUNK = 140000                       # one call may carry a whole recording (D9, the stale MAX_INT16 assert, is repaired)
LIVEWIN = 250                           # frames feat_s2mfc2feat_live takes per call (LIVEBUFBLOCKSIZE 256 minus two windows)

JSGF = [
    "#JSGF V1.0; grammar g0; public <t> = go forward ten meters | go backward two meters | turn left;",
    "#JSGF V1.0; grammar g1; public <m> = go <dir> <dist> [meter | meters]; <dir> = forward | backward; "
    "<dist> = one | two | three | four | five | six | seven | eight | nine | ten;",
    "#JSGF V1.0; grammar g2; public <d> = (one | two | three | four | five | six | seven | eight | nine | ten)+;",
    "#JSGF V1.0; grammar g3; public <y> = yes | no | maybe;",
    None,  # pizza.gram, read from the repository
    "#JSGF V1.0; grammar g5; public <t> = [please] (go | move | turn) (forward | backward | left | right) "
    "[(one | two | ten) (meter | meters)];",
    "#JSGF V1.0; grammar g6; public <t> = (go forward ten meters)+;",
]
ALIGN_TEXTS = ["go forward ten meters", "go backward two meters", "ten meters forward"]
CMN_TEXTS = ["41,-5.3,-0.12,5.9,-2.1,1.2,-3.6,-1.4,1.9,0.9,-0.6,-1.8,-0.5",
             "40,3,-1,-1,-1,-1,-1,-1,-1,-1,-1,-1,-1", "38.5,-4.8,0.83,4.66,-2.78,0.58,-4.06,-2.16,-0.15,2.07,0.17,-1.19,-0.014",
             "45,0,0,0,0,0,0,0,0,0,0,0,0", "30.25,-2,1.5"]


def hx(s):
    return s.encode().hex() if s else "-"


# ------------------------------------------------------------------------------------------ materials

def materials(c):
    """audio files (int16 raw) in the run's scratch directory, grammars, configurations"""
    d = c.scratch
    data = vlib.REPO / "tests" / "data"
    aud = []

    def put(name, samples):
        p = d / f"{name}.raw"
        p.write_bytes(struct.pack(f"<{len(samples)}h", *samples))
        aud.append({"name": name, "path": str(p), "n": len(samples)})
    raw = (data / "goforward.raw").read_bytes()
    go = list(struct.unpack(f"<{len(raw)//2}h", raw))
    put("goforward", go)
    raw = (data / "goforward_fr.raw").read_bytes()
    fr = list(struct.unpack(f"<{len(raw)//2}h", raw))
    put("goforward_fr", fr)
    raw = (data / "pizza-float32.raw").read_bytes()
    pz = [max(-32768, min(32767, int(round(v * 32768)))) for v in struct.unpack(f"<{len(raw)//4}f", raw)]
    put("pizza", pz)
    r = vlib.Rng(12345)     # fixed: the audio pool is the same for every seed
    put("noise", [int(r.below(1601)) - 800 for _ in range(30000)])
    put("hum", [int(r.below(7)) - 3 for _ in range(24000)])
    put("reversed", go[::-1])
    # same length as goforward, different content (a stale lattice / hypothesis cache keyed by frame count would show)
    put("samelen", (fr + pz)[:len(go)])
    put("loud", [max(-32768, min(32767, 3 * v)) for v in go])
    # three repetitions (836 frames): longer than the live feature window and than the initial cepstral ring several times over
    put("goforward_x3", go * 3)
    # digital silence: every frame is skipped by the CMN estimators (C0 < 0)
    put("zeros", [0] * 16000)
    gram = list(JSGF)
    gram[4] = (data / "pizza.gram").read_text()
    fp_live = d / "feat_params_live.json"
    fp = json.loads((vlib.REPO / "model" / "en-us" / "feat_params.json").read_text())
    fp["cmn"] = "live"
    fp_live.write_text(json.dumps(fp))
    en = str(vlib.REPO / "model" / "en-us")
    cfgs = {
        "batchcmn": f"hmm={en}",
        "livecmn": f"hmm={en},featparams={fp_live}",
        "allsen": f"hmm={en},compallsen=yes",
        "narrow": f"hmm={en},beam=1e-12,pbeam=1e-12,wbeam=1e-8",
        "maxhmm": f"hmm={en},maxhmmpf=40",
        # absolute HMM limits that a wide grammar (pizza.gram) exceeds: the adaptive beam factor is < 1 for long stretches
        "maxhmm60": f"hmm={en},maxhmmpf=60",
        "maxhmm80": f"hmm={en},maxhmmpf=80",
        "maxhmm150": f"hmm={en},maxhmmpf=150",
        "maxhmm250": f"hmm={en},maxhmmpf=250",
        "ds2": f"hmm={en},ds=2,topn=2",
        "ds3": f"hmm={en},ds=3,topn=4",
        # vocal-tract-length warping of the mel filter bank: fe_warp_*.c keep the warp in process-wide statics written by fe_init
        "warp_il": f"hmm={en},warp_params=1.1",
        "warp_il2": f"hmm={en},warp_type=inverse_linear,warp_params=0.92",
        "warp_af": f"hmm={en},warp_type=affine,warp_params=1.05~20",
        "warp_pw": f"hmm={en},warp_type=piecewise_linear,warp_params=1.1~6000",
    }
    return {"audio": aud, "gram": gram, "cfgs": cfgs, "fsg": str(data / "goforward.fsg")}


# ------------------------------------------------------------------------------------------ generators

def gen_chunks(rng, n, stats, force=None):
    """chunk lengths summing to n, each <= MAXCHUNK"""
    kind = force or rng.weighted([("fixed", 4), ("random", 4), ("tinyfirst", 4), ("edge", 2), ("big", 2), ("one", 1), ("whole", 2)])
    out = []
    if kind == "tinyfirst":
        out.append(min(n, rng.range(1, FRAME_SIZE - 1)))
    elif kind == "edge":
        out.append(min(n, rng.choice([FRAME_SIZE - 1, FRAME_SIZE, FRAME_SIZE + 1, FRAME_SIZE + FRAME_SHIFT - 1,
                                      FRAME_SIZE + FRAME_SHIFT, FRAME_SHIFT, 2 * FRAME_SHIFT])))
    elif kind == "one":
        out.append(min(n, rng.range(1, 3)))
    rest = n - sum(out)
    step = {"fixed": rng.choice([512, 1024, 2048, 4096]), "big": 32000, "whole": MAXCHUNK}.get(kind)
    while rest > 0:
        if kind in ("fixed", "big", "whole"):
            k = step
        elif kind in ("random", "tinyfirst", "edge", "one"):
            k = rng.range(1, 6000) if rng.chance(0.8) else rng.range(1, 300)
        k = min(k, rest, MAXCHUNK)
        out.append(k)
        rest -= k
    stats["chunking"][kind] = stats["chunking"].get(kind, 0) + 1
    return out, kind


def gen_utt(rng, mat, stats, target=False):
    # the 836-frame recording is expensive under ASan: mostly left to the ring-growth scenarios
    names = [x["name"] for x in mat["audio"]]
    a = names.index("goforward_x3") if rng.chance(0.04) else rng.choice([i for i, nm in enumerate(names) if nm != "goforward_x3"])
    n = mat["audio"][a]["n"]
    mode = rng.weighted([("stream", 6), ("batch", 3), ("buffered", 2), ("mixed", 1)])
    if rng.chance(0.25):
        # a short piece: a few frames, less than a window, or nothing at all
        ln = rng.choice([0, 1, 100, FRAME_SIZE - 1, FRAME_SIZE, FRAME_SIZE + FRAME_SHIFT, 1000, 2000, 5000]) \
            if not target else rng.choice([100, FRAME_SIZE, FRAME_SIZE + 3 * FRAME_SHIFT, 1200, 2000, 5000, 8000])
        ln = min(ln, n)
        off = rng.below(n - ln + 1)
    else:
        off = rng.choice([0, 0, rng.below(n // 2)])
        ln = n - off
        if rng.chance(0.3):
            ln = rng.range(min(8000, ln), ln)
    if mode == "batch":
        ln = min(ln, MAXCHUNK)
    utt = {"a": a, "off": off, "len": ln, "mode": mode, "fmt": "f" if rng.chance(0.25) else "i", "partial": [],
           "flags": rng.choice([0, 1, 1, 3, 3])}
    if mode == "batch":
        utt["chunks"], utt["chunking"] = ([ln] if ln else []), "batch"
    else:
        utt["chunks"], utt["chunking"] = gen_chunks(rng, ln, stats) if ln else ([], "empty")
    if mode == "buffered":
        utt["nosearch"] = [1] * len(utt["chunks"])
    elif mode == "mixed":
        utt["nosearch"] = [int(rng.chance(0.5)) for _ in utt["chunks"]]
    else:
        utt["nosearch"] = [0] * len(utt["chunks"])
    if mode in ("stream", "mixed") and utt["chunks"] and rng.chance(0.4):
        utt["partial"] = sorted({rng.below(len(utt["chunks"])) for _ in range(rng.range(1, 3))})
        # what is asked in the middle of the utterance: hyp + segmentation (0), + lattice (1), + alignment (2, 3)
        utt["pflags"] = {str(i): rng.choice([0, 0, 1, 2, 3]) for i in utt["partial"]}
    stats["modes"][mode] = stats["modes"].get(mode, 0) + 1
    stats["audio"][mat["audio"][a]["name"]] = stats["audio"].get(mat["audio"][a]["name"], 0) + 1
    return utt


def gen_gram(rng, mat, stats):
    kind = rng.weighted([("jsgf", 8), ("fsg", 1), ("align", 2)])
    stats["grammar_kind"][kind] = stats["grammar_kind"].get(kind, 0) + 1
    if kind == "jsgf":
        return {"kind": "jsgf", "i": rng.below(len(mat["gram"]))}
    if kind == "fsg":
        return {"kind": "fsg"}
    return {"kind": "align", "text": rng.choice(ALIGN_TEXTS)}


def ring_growth_scenario(rng, mat, stats, h):
    """a long full-utterance (batch) utterance first — it enlarges the cepstral ring for good — then a target utterance
    streamed in calls that carry more frames than the live feature window takes at once"""
    longs = [i for i, a in enumerate(mat["audio"]) if nframes(a["n"]) > LIVEWIN + 20]
    a = rng.choice(longs)
    n = mat["audio"][a]["n"]
    batch = {"a": a, "off": 0, "len": n, "mode": "batch", "fmt": "i", "partial": [], "flags": rng.choice([0, 1]),
             "chunks": [n], "chunking": "batch", "nosearch": [0]}
    h["items"].insert(rng.range(1, len(h["items"])), {"op": "utt", "utt": batch})
    t = h["target"]["utt"]
    ta = rng.choice([i for i in longs if mat["audio"][i]["n"] <= n])
    tn = mat["audio"][ta]["n"]
    t.update({"a": ta, "off": 0, "len": tn, "mode": "stream", "partial": [], "chunking": "whole"})
    first = rng.choice([0, 0, rng.range(1, FRAME_SIZE - 1), 2048])
    t["chunks"] = ([first] if first else []) + [tn - first]
    t["nosearch"] = [0] * len(t["chunks"])
    h["target"]["no_cmn_reset"] = False
    stats["ring_growth_scenarios"] = stats.get("ring_growth_scenarios", 0) + 1
    return h


def beam_carry_scenario(rng, mat, stats):
    """adaptive pruning (`maxhmmpf`): a wide grammar under an absolute HMM limit, earlier utterances cut at random points
    (around the speech onset the last frames are still over the limit, so the utterance ends with narrowed beams), no grammar
    change, then the probe utterance — fsg_search_start has to restore beam_factor / beam / pbeam / wbeam"""
    names = [x["name"] for x in mat["audio"]]
    cfg = rng.choice(["maxhmm", "maxhmm60", "maxhmm60", "maxhmm60", "maxhmm80", "maxhmm80", "maxhmm150", "maxhmm250"])
    stats["configs"][cfg] = stats["configs"].get(cfg, 0) + 1
    g = {"kind": "jsgf", "i": 4}      # pizza.gram
    items = [{"op": "gram", "g": g}]
    for _ in range(rng.range(1, 3)):
        a = names.index(rng.choice(["pizza", "pizza", "goforward", "loud"]))
        ln = rng.choice([9000, 10500, 13500, 15000, 19500, 21000, 24000, rng.range(8000, 30000), rng.range(8000, 30000)])
        ln = min(ln, mat["audio"][a]["n"])
        ch, kind = gen_chunks(rng, ln, stats, force=rng.choice(["fixed", "whole"]))
        items.append({"op": "utt", "utt": {"a": a, "off": 0, "len": ln, "mode": "stream", "fmt": "i", "partial": [],
                                             "flags": rng.choice([0, 1]), "chunks": ch, "chunking": kind, "nosearch": [0] * len(ch)}})
    a = names.index("pizza")
    n = mat["audio"][a]["n"]
    ch, kind = gen_chunks(rng, n, stats, force=rng.choice(["fixed", "big"]))
    tutt = {"a": a, "off": 0, "len": n, "mode": "stream", "fmt": "i", "partial": [], "flags": 1, "chunks": ch,
            "chunking": kind, "nosearch": [0] * len(ch)}
    stats["beam_carry_scenarios"] = stats.get("beam_carry_scenarios", 0) + 1
    return {"cfg": cfg, "items": items, "target": {"g": g, "cmn": rng.choice(CMN_TEXTS[:3]), "utt": tutt, "no_cmn_reset": False},
            "poison": rng.choice([0, 0, 7]), "poison_seed": rng.below(1 << 30)}


def query_interference_scenario(rng, mat, stats):
    """non-default Gaussian selection (ds 2/3: the top-N history of the previous frame is reused, the second pass of
    decoder_alignment has its own replay history) x read-only queries in the MIDDLE of a streamed utterance: the final
    result must be what a fresh decoder gives for the same audio without the queries (oracle g)"""
    names = [x["name"] for x in mat["audio"]]
    cfg = rng.choice(["ds2", "ds2", "ds3", "allsen", "batchcmn"])
    a = names.index(rng.choice(["goforward", "goforward", "loud"]))
    n = mat["audio"][a]["n"]
    step = rng.choice([2048, 3000, 4096, 6000])
    chunks = [min(step, n - i) for i in range(0, n, step)]
    mids = list(range(1, len(chunks) - 1)) or [0]
    partial = sorted({rng.choice(mids) for _ in range(rng.range(2, 5))})
    utt = {"a": a, "off": 0, "len": n, "mode": "stream", "fmt": rng.choice(["i", "f"]), "flags": 3, "chunks": chunks,
           "chunking": "fixed", "nosearch": [0] * len(chunks), "partial": partial,
           "pflags": {str(i): rng.choice([2, 3, 3, 1]) for i in partial}}
    g = {"kind": "jsgf", "i": rng.choice([0, 1, 5])}
    prev = gen_utt(rng, mat, stats)
    stats["query_interference_scenarios"] = stats.get("query_interference_scenarios", 0) + 1
    stats["configs"][cfg] = stats["configs"].get(cfg, 0) + 1
    return {"cfg": cfg, "items": [{"op": "gram", "g": g}, {"op": "utt", "utt": prev}],
            "target": {"g": g, "cmn": rng.choice(CMN_TEXTS), "utt": utt, "no_cmn_reset": False},
            "poison": rng.choice([0, 1, 7]), "poison_seed": rng.below(1 << 30)}


DEGENERATE_KINDS = ("empty", "subframe", "fewframes", "noresult", "refused-start", "buffered-only", "empty-with-query")


def degenerate_utt(rng, mat, stats, kind):
    """one degenerate / refused / no-result utterance of the given kind (see degenerate_history_scenario)"""
    names = [x["name"] for x in mat["audio"]]
    a = rng.choice([i for i, nm in enumerate(names) if nm != "goforward_x3"])
    n = mat["audio"][a]["n"]
    u = {"a": a, "off": 0, "len": 0, "mode": "stream", "fmt": rng.choice(["i", "i", "f"]), "partial": [], "flags": rng.choice([0, 1, 3]),
         "chunks": [], "chunking": "degenerate:" + kind, "nosearch": [], "degenerate": kind}
    if kind in ("empty", "empty-with-query"):
        # decoder_start_utt directly followed by decoder_end_utt: zero samples, zero frames
        if kind == "empty-with-query":
            u["flags"] = 3
    elif kind == "subframe":
        # some samples, never a complete analysis window: zero frames
        u["len"] = rng.range(1, FRAME_SIZE - 1)
        k = rng.range(1, min(3, u["len"]))
        cuts = sorted({rng.range(1, u["len"]) for _ in range(k - 1)} | {u["len"]})
        u["chunks"] = [b - a_ for a_, b in zip([0] + cuts[:-1], cuts)]
    elif kind == "fewframes":
        # 1-8 frames: searched, normally without any hypothesis
        u["len"] = FRAME_SIZE + rng.below(8) * FRAME_SHIFT + rng.below(FRAME_SHIFT)
        u["chunks"] = [u["len"]]
    elif kind == "noresult":
        # a short cut of a recording (the grammar cannot be completed): frames searched, no final result
        u["len"] = min(n, rng.choice([1000, 2000, 3000, 5000]))
        u["off"] = rng.below(n - u["len"] + 1)
        u["chunks"], _ = gen_chunks(rng, u["len"], stats, force=rng.choice(["fixed", "random", "whole"]))
    elif kind == "refused-start":
        # an utterance inside which decoder_start_utt is called again (refused with -1, must change nothing)
        u["len"] = min(n, rng.choice([0, 300, 4000, 12000, n]))
        u["chunks"], _ = gen_chunks(rng, u["len"], stats, force="fixed") if u["len"] else ([], None)
        u["refused_start"] = sorted({rng.choice([-1] + list(range(len(u["chunks"])))) for _ in range(rng.range(1, 2))})
    elif kind == "buffered-only":
        # every call with no_search = 1: no frame is searched before decoder_end_utt
        u["len"] = min(n, rng.choice([FRAME_SIZE, 2000, 8000]))
        u["chunks"], _ = gen_chunks(rng, u["len"], stats, force="fixed")
        u["mode"] = "buffered"
    u["nosearch"] = [1 if u["mode"] == "buffered" else 0] * len(u["chunks"])
    stats["modes"][u["mode"]] = stats["modes"].get(u["mode"], 0) + 1
    return u


def degenerate_history_scenario(rng, mat, stats):
    """error / recovery paths: BEFORE the judged utterance the decoder goes through degenerate utterances — no samples at all
    (start_utt directly followed by end_utt), fewer samples than one analysis window, a handful of frames, an utterance
    without a result, an utterance inside which decoder_start_utt is called again (refused), one fed with no_search only —
    and the grammar is NOT set again before the judged utterance (a new search module would hide what the degenerate
    utterance left in the old one).  Oracle: the judged utterance equals a fresh decoder's, as for every history."""
    cfg = rng.weighted([("batchcmn", 5), ("livecmn", 3), ("allsen", 1), ("narrow", 1), ("maxhmm", 1), ("ds2", 1)])
    stats["configs"][cfg] = stats["configs"].get(cfg, 0) + 1
    g = gen_gram(rng, mat, stats)
    items = [{"op": "gram", "g": g}]
    if rng.chance(0.5):
        items.append({"op": "utt", "utt": gen_utt(rng, mat, stats)})
    dk = stats.setdefault("degenerate_kinds", {})
    for _ in range(rng.range(1, 3)):
        kind = rng.weighted([("empty", 4), ("empty-with-query", 1), ("subframe", 2), ("fewframes", 1), ("noresult", 2),
                             ("refused-start", 2), ("buffered-only", 1)])
        dk[kind] = dk.get(kind, 0) + 1
        items.append({"op": "utt", "utt": degenerate_utt(rng, mat, stats, kind)})
        if rng.chance(0.15):
            items.append({"op": "getcmn", "upd": 0})
    tutt = gen_utt(rng, mat, stats, target=True)
    if tutt["len"] < 8000 and rng.chance(0.8):
        # mostly a whole recording as the judged utterance: a lost hypothesis shows
        n = mat["audio"][tutt["a"]]["n"]
        tutt["off"], tutt["len"] = 0, min(n, MAXCHUNK)
        if tutt["mode"] == "batch":
            tutt["chunks"] = [tutt["len"]]
        else:
            tutt["chunks"], tutt["chunking"] = gen_chunks(rng, tutt["len"], stats)
        tutt["nosearch"] = [1 if tutt["mode"] == "buffered" else 0] * len(tutt["chunks"])
        tutt["partial"] = []
    tutt["flags"] = 3 if rng.chance(0.5) else 1
    batch_free = cfg != "livecmn" and tutt["mode"] == "batch" and rng.chance(0.5)
    stats["degenerate_scenarios"] = stats.get("degenerate_scenarios", 0) + 1
    return {"cfg": cfg, "items": items, "target": {"g": g, "cmn": rng.choice(CMN_TEXTS), "utt": tutt, "no_cmn_reset": batch_free},
            "poison": rng.choice([0, 0, 1, 7]), "poison_seed": rng.below(1 << 30)}


def gen_history(rng, mat, stats, ring_growth=False, beam_carry=False, degenerate=False):
    if degenerate or rng.chance(0.08):
        return degenerate_history_scenario(rng, mat, stats)
    if beam_carry or rng.chance(0.06):
        return beam_carry_scenario(rng, mat, stats)
    h = gen_history_plain(rng, mat, stats)
    if ring_growth or rng.chance(0.12):
        h = ring_growth_scenario(rng, mat, stats, h)
    return h


def gen_history_plain(rng, mat, stats):
    cfg = rng.weighted([("batchcmn", 6), ("livecmn", 4), ("allsen", 2), ("narrow", 2), ("maxhmm", 1), ("ds2", 1)])
    stats["configs"][cfg] = stats["configs"].get(cfg, 0) + 1
    tgram = gen_gram(rng, mat, stats)
    items = [{"op": "gram", "g": tgram if rng.chance(0.5) else gen_gram(rng, mat, stats)}]
    for _ in range(rng.range(1, 5)):
        k = rng.weighted([("utt", 10), ("gram", 4), ("cmn", 2), ("getcmn", 1)])
        if k == "utt":
            items.append({"op": "utt", "utt": gen_utt(rng, mat, stats)})
        elif k == "gram":
            items.append({"op": "gram", "g": tgram if rng.chance(0.4) else gen_gram(rng, mat, stats)})
        elif k == "cmn":
            items.append({"op": "cmn", "text": rng.choice(CMN_TEXTS)})
        else:
            items.append({"op": "getcmn", "upd": int(rng.chance(0.5))})
    # make sure there is at least one earlier utterance
    if not any(it["op"] == "utt" for it in items):
        items.append({"op": "utt", "utt": gen_utt(rng, mat, stats)})
    tutt = gen_utt(rng, mat, stats, target=True)
    if rng.chance(0.3):
        # same number of samples as the utterance before it, other content
        prev = [it for it in items if it["op"] == "utt"][-1]["utt"]
        if prev["len"] and mat["audio"][tutt["a"]]["n"] >= prev["len"] and prev["mode"] != "batch" and tutt["mode"] != "batch":
            tutt["off"], tutt["len"] = 0, prev["len"]
            tutt["chunks"], tutt["chunking"] = gen_chunks(rng, tutt["len"], stats)
            tutt["nosearch"] = [0] * len(tutt["chunks"])
            tutt["partial"] = []
            stats["same_length_as_previous"] += 1
    tutt["flags"] = 3 if rng.chance(0.7) else 1
    # how the CMN state of the target is fixed
    cmn = rng.choice(CMN_TEXTS)
    batch_free = cfg != "livecmn" and tutt["mode"] == "batch" and rng.chance(0.6)
    if batch_free:
        stats["batch_without_cmn_reset"] += 1
    return {"cfg": cfg, "items": items,
            "target": {"g": tgram, "cmn": cmn, "utt": tutt, "no_cmn_reset": batch_free},
            "poison": rng.choice([0, 1, 1, 3, 5, 7, 7]), "poison_seed": rng.below(1 << 30)}


# ------------------------------------------------------------------------------------------ op lists

def gram_ops(d, g, mat):
    if g["kind"] == "jsgf":
        return [f"jsgf {d} {hx(mat['gram'][g['i']])}"]
    if g["kind"] == "fsg":
        return [f"fsg {d} {mat['fsg']}"]
    return [f"align {d} {hx(g['text'])}"]


def utt_ops(d, utt, poison=0, pseed=0, strip_partial=False):
    ops = [f"start {d}", f"chk {d}"]
    if poison:
        ops.append(f"poison {d} {pseed} {poison}")
    pos = utt["off"]
    refused = utt.get("refused_start", [])      # degenerate family: decoder_start_utt inside the utterance (refused, -1)
    if -1 in refused:
        ops.append(f"start {d}")
    for i, ln in enumerate(utt["chunks"]):
        full = 1 if utt["mode"] == "batch" else 0
        ops.append(f"proc {d} {utt['a']} {pos} {ln} {utt['nosearch'][i]} {full} {utt['fmt']}")
        pos += ln
        if i in utt["partial"] and not strip_partial:
            ops.append(f"result {d} {utt.get('pflags', {}).get(str(i), 0)}")
        if i in refused:
            ops.append(f"start {d}")
    # `rest`: read-back of the cells that rest at a canonical value between utterances (model: restCells, constW of endUtt*)
    ops += [f"end {d}", f"rest {d}", f"result {d} {utt['flags']}"]
    return ops


def audio_ops(mat):
    return [f"audio {i} {a['path']}" for i, a in enumerate(mat["audio"])]


def history_ops(h, mat, d=0, poison=True):
    ops = [f"new {d} {mat['cfgs'][h['cfg']]}"]
    for it in h["items"]:
        if it["op"] == "gram":
            ops += gram_ops(d, it["g"], mat)
        elif it["op"] == "cmn":
            ops.append(f"setcmn {d} {it['text']}")
        elif it["op"] == "getcmn":
            ops.append(f"getcmn {d} {it['upd']}")
        else:
            ops += utt_ops(d, it["utt"])
    t = h["target"]
    grams = [it["g"] for it in h["items"] if it["op"] == "gram"]
    if not grams or grams[-1] != t["g"]:
        # (when the target's grammar is already active the search module is kept: its caches must not leak either)
        ops += gram_ops(d, t["g"], mat)
    if not t["no_cmn_reset"]:
        ops.append(f"setcmn {d} {t['cmn']}")
    mark = len(ops)
    ops += utt_ops(d, t["utt"], h["poison"] if poison else 0, h["poison_seed"])
    return ops, mark


def fresh_ops(h, mat, d=0, strip_partial=False):
    t = h["target"]
    ops = [f"new {d} {mat['cfgs'][h['cfg']]}"] + gram_ops(d, t["g"], mat)
    # batch CMN: the fresh decoder keeps its initial CMN state (the history decoder has whatever the history left)
    if not t["no_cmn_reset"]:
        ops.append(f"setcmn {d} {t['cmn']}")
    mark = len(ops)
    ops += utt_ops(d, t["utt"], strip_partial=strip_partial)
    return ops, mark


# ------------------------------------------------------------------------------------------ running / parsing

def run_ops(binp, pre, ops, timeout=900):
    text = "\n".join(pre + ops) + "\n"
    rc, out, err = vlib.run_bin(binp, stdin_text=text, timeout=timeout)
    if "\nE " in out.split("> new", 1)[0]:
        raise vlib.BuildError("harness cannot load its audio pool: " + out[:400])
    recs, cur = [], None
    for line in out.split("\n"):
        if line.startswith("> "):
            cur = {"cmd": line[2:], "out": []}
            recs.append(cur)
        elif cur is not None and line != "":
            cur["out"].append(line)
    return {"rc": rc, "recs": recs[len(pre):], "err": err[-3000:], "complete": len(recs) == len(pre) + len(ops)}


def observable(rec):
    """what a caller can see of one command: everything but the write-set / poison bookkeeping"""
    return [l for l in rec["out"] if not l.startswith(("W ", "P ", "S ", "I "))]


def section(run, mark):
    return [(r["cmd"].split()[0], observable(r)) for r in run["recs"][mark:] if r["cmd"].split()[0] != "poison"]


def first_diff(a, b):
    for i in range(max(len(a), len(b))):
        x = a[i] if i < len(a) else None
        y = b[i] if i < len(b) else None
        if x != y:
            return {"index": i, "history_decoder": x, "fresh_decoder": y}
    return None


def reset_failures(run):
    bad = []
    for r in run["recs"]:
        if r["cmd"].startswith(("chk", "rest")):
            bad += [l for l in r["out"] if l.startswith("R ") and " BAD " in l]
    return bad


def crashed(run):
    """sanitizer report / abort / incomplete output, or the harness refusing one of its own commands"""
    if run["rc"] != 0 or not run["complete"]:
        return True
    for r in run["recs"]:
        if any(l.startswith("E ") for l in r["out"]):
            run["err"] = f"harness refused `{r['cmd'][:120]}`: {r['out']}"
            return True
    return False


# ------------------------------------------------------------------------------------------ model side

def model_tables():
    """classification printed by the model's own definitions: {cell: (kind, group)}, canon strings, globals"""
    rc, out, err = vlib.run_driver("c08", "table\n")
    if rc != 0:
        return None
    t = {"kind": {}, "group": {}, "canon": {}, "globals": {}}
    for l in out.split("\n"):
        w = l.split(" ")
        if w[0] == "C" and len(w) >= 4:
            t["kind"][w[1]], t["group"][w[1]] = w[2], w[3]
            if len(w) > 4:
                t["canon"][w[1]] = w[4]
        elif w[0] == "GC" and len(w) >= 3:
            t["globals"][w[1]] = w[2]
    return t


def nframes(samples):
    return 0 if samples < FRAME_SIZE else 1 + (samples - FRAME_SIZE) // FRAME_SHIFT


def phase_trace(recs, live_cmn):
    """the calls of one decoder as lines for the model's protocol automaton; the only information added is the
    number of analysis windows completed by the samples fed so far (front-end arithmetic, C06)"""
    lines, idx, fed = [], [], 0
    for i, r in enumerate(recs):
        w = r["cmd"].split()
        rv = next((l.split()[1] for l in r["out"] if l.startswith("rv ")), "0")
        line = None
        if w[0] == "new":
            line = "new"
        elif w[0] in ("jsgf", "fsg", "align"):
            line = "op setGrammar" if rv == "0" else None
        elif w[0] == "setcmn":
            line = "op setCmn"
        elif w[0] == "getcmn":
            line = "op getCmnUpdate" if w[2] == "1" else "op getCmn"
        elif w[0] == "start":
            if rv == "0":               # a refused decoder_start_utt (utterance already started) is not a protocol step
                fed = 0
            line = "op startUtt" if rv == "0" else None
        elif w[0] == "end":
            line = f"op endUtt {fed}" if rv == "0" else None
        elif w[0] == "result":
            line = "op queryAlign" if any(l.startswith("A ") for l in r["out"]) else "op query"
        elif w[0] == "proc" and int(w[4]) > 0:
            before, fed = fed, fed + int(w[4])
            if w[6] == "1":
                line = "op processFull " + ("live" if live_cmn else "batch")
            else:
                line = f"op process {nframes(fed) - nframes(before)}"
        if line is not None:
            lines.append(line)
            idx.append(i)
    return lines, idx


def check_model_tie(c, run, tables, stats, label, live_cmn):
    """(e): observed write sets inside the declared ones; protocol phase = acmod->state; no stale read in the model"""
    lines, idx = phase_trace(run["recs"], live_cmn)
    rc, out, err = vlib.run_driver("c08", "\n".join(lines) + "\n")
    mout = [l for l in out.split("\n") if l]
    if rc != 0 or len(mout) != len(lines):
        c.oblige(f"model driver runs ({label})", False, err[-400:] + f" lines {len(mout)}/{len(lines)}")
        return [{"what": "model driver failed"}]
    problems = []
    for line, i, mo in zip(lines, idx, mout):
        r = run["recs"][i]
        mw = dict(x.split("=", 1) for x in mo.split(" ") if "=" in x)
        opname = mw.get("op", "?")
        stats["model_ops"][opname] = stats["model_ops"].get(opname, 0) + 1
        if opname == "initFe":       # decoder creation: there is no snapshot before it
            continue
        S = next((l for l in r["out"] if l.startswith("S ")), None)
        W = next((l for l in r["out"] if l.startswith("W ")), None)
        if "error" in mw:
            problems.append({"call": r["cmd"][:100], "model": mo, "what": "the model's protocol automaton refuses a call the harness issued"})
            break
        if mw.get("stale", "-") != "-":
            problems.append({"call": r["cmd"][:100], "model": mo, "what": "model reports a stale read on a protocol-conforming history"})
            break
        if S is not None and S.split()[1] != mw.get("state"):
            problems.append({"call": r["cmd"][:100], "model_op": opname, "what": "acmod->state differs from the model's protocol phase",
                             "implementation_state": S.split()[1], "model": mo})
        if W is not None:
            declared = set(mw.get("writes", "-").split(",")) - {"-"}
            changed = set() if W == "W -" else {x[:-2] if x.endswith("[]") else x for x in W[2:].split(",")}
            extra = []
            for cell in changed:
                g = tables["group"].get(cell, "?")
                stats["observed_writes"].setdefault(opname, set()).add(g)
                stats["observed_cells"] = stats.get("observed_cells", 0) + 1
                if not static_covers(stats.get("static_sets"), opname, cell):
                    stats.setdefault("static_misses", set()).add(f"{opname}:{cell}")
                if g != "agg" and g not in declared:
                    extra.append(f"{cell} ({tables['kind'].get(cell, '?')}/{g})")
            stats["declared_writes"].setdefault(opname, set()).update(declared)
            if extra:
                problems.append({"call": r["cmd"][:100], "model_op": opname, "what": "cells changed outside the declared write set",
                                 "cells": sorted(extra), "declared_write_groups": sorted(declared)})
    return problems


# ------------------------------------------------------------------------------------------ static write sets
PHASE_OF_OP = {"startUtt": "startUtt", "processNoFrame": "process", "processFirst": "process", "processMore": "process",
               "processFull": "process", "processFullLive": "process", "endUtt": "endUtt", "endUttEmpty": "endUtt",
               "query": "query", "queryAlign": "queryAlign", "setGrammar": "setGrammar", "setCmn": "setCmn",
               "getCmn": "getCmn", "getCmnUpdate": "getCmn"}
# harness queries behind one model operation `query` (h_c08.c `result`): hyp, seg_iter, lattice, n_frames, json
STATIC_QUERY_UNION = ("query", "resultJson")


# expected may-write sets of tools/props/c08_selftest.c (one line per over-approximation rule of the analyser)
SELFTEST_EXPECT = {
    "entry_direct": (["fe_s.a", "fe_s.arr", "fe_s.b", "fe_s.c", "fe_s.d"], ["counter"]),      # =, +=, ++, &x->d to a writer, static
    "entry_buffers": (["fe_s.arr", "fe_s.buf", "fe_s.mel"], []),        # alias written / only read, decay, owner attribution
    "entry_store": (["acmod_s.alias", "acmod_s.parked", "fe_s.kept"], []),   # pointer stored in a member that is / is not written through
    "entry_vtable": (["fe_s.e", "fe_s.f"], []),                        # member call resolved by the initialisers of that member only
    "entry_alloc": (["acmod_s.emb", "acmod_s.fe"] + ["fe_s." + x for x in
                    ("a", "arr", "b", "buf", "c", "d", "e", "f", "g", "h", "kept", "mel", "next", "parked", "ro", "vt")], []),
    "entry_callback": ([], ["shared_global"]),                         # callback handed to code outside the library
    "entry_readonly": ([], []),
}
CELL_CONTENT = {"fsg_history_s.entries": ("blkarray_list_s__n_valid", "fsg_hist_entry_s__score")}


def static_sets():
    """side file of tools/gen_writesets.py (written by the generator step of this run)"""
    import gen_writesets
    try:
        return json.loads(gen_writesets.side_path().read_text())
    except Exception:
        return None


def static_obligations(c, lean_ok):
    """report the static tie: theorem build (done by lean_obligations), exception list sizes, analysis volume"""
    # the generated Lean files are shared by every check that runs in this tree: when a concurrent run (another tree) has
    # overwritten them between this run's generator step and its build, regenerate and build the theorems again
    import gen_consts
    try:
        again = gen_consts.generate("C08")
    except Exception as e:
        again = [f"generator failed: {e}"]
    if again:
        vlib.log(f"[C08] generated inventories / write sets changed under this run ({again}); building the theorems again")
        ok2, out2 = vlib.lake_build(("SSVerif.Props.C08", "SSVerif.Props.C08Static"))
        c.oblige("Props/C08 and Props/C08Static build on the lists regenerated a second time (a concurrent run had overwritten "
                 "the shared generated files)", ok2, out2[-2500:] if not ok2 else "")
        lean_ok = lean_ok and ok2
    import gen_writesets
    try:
        got = gen_writesets.selftest(vlib.ROOT / "tools" / "props" / "c08_selftest.c")
        bad = {k: {"expected": SELFTEST_EXPECT.get(k), "got": got.get(k)} for k in set(got) | set(SELFTEST_EXPECT)
               if got.get(k) is None or SELFTEST_EXPECT.get(k) is None
               or (sorted(SELFTEST_EXPECT[k][0]), sorted(SELFTEST_EXPECT[k][1])) != (list(got[k][0]), list(got[k][1]))}
    except Exception as e:
        bad = {"error": str(e)[-600:]}
    c.oblige("static tie: the write-set analyser reproduces the known may-write sets of its self-test input "
             "(tools/props/c08_selftest.c: one function per over-approximation rule)", not bad, bad)
    ws = static_sets()
    if not c.oblige("static write sets were regenerated from the clang AST of the current tree", ws is not None):
        return None
    st = ws["stats"]
    src = (vlib.LEAN / "SSVerif" / "Model" / "ApiStatic.lean").read_text()

    def count(name):
        m = re.search(r"def " + name + r" : List[^\n]*:= \[(.*?)\]\n\n", src, re.S)
        return len(re.findall(r"\(\.\w+__\w+,", m.group(1))) if m else -1
    nex, nrex = count("exceptions"), count("rexceptions")
    c.oblige(f"static tie: exception lists stay short (tier-1 fields {nex}, tier-2 fields {nrex}, constructor/release cuts "
             f"{len(st['cuts'])}, vtable call-site refinements {len(st['slot_refinements'])})",
             0 <= nex <= 4 and 0 <= nrex <= 2 and len(st["cuts"]) <= 16 and len(st["slot_refinements"]) <= 8,
             {"cuts": [x[0] for x in st["cuts"]], "refinements": [x[:2] for x in st["slot_refinements"]]})
    c.oblige(f"static tie: the analysis saw {st['functions']} functions in {st['files']} files, {st['function_field_pairs']} "
             f"(function, field) and {st['function_global_pairs']} (function, global) write pairs, {st['indirect_call_sites']} "
             f"indirect call sites (all resolved: {st['slot_calls_without_known_target']} member calls without a known target), "
             f"{st['pointer_flows']} pointer flows ({st['pointer_flows_reaching_a_write']} reach a write)",
             st["functions"] > 500 and st["function_field_pairs"] > 300 and st["slot_calls_without_known_target"] == 0)
    c.oblige(f"static tie: struct inventory is total over pointer reachability from decoder_s ({st['reachable_structs']} structs, "
             f"{st['tier2_structs']} of them classified per struct with {st['tier2_fields']} fields; reachability stops at the "
             f"void* members {st['opaque_void_members']})", st["reachable_structs"] >= 40)
    if not lean_ok and any("C08Static" in str(o[2]) or "WriteSets" in str(o[2]) or "ApiStatic" in str(o[2])
                           for o in c.obligations if not o[1]):
        r = vlib.run(["lake", "env", "lean", str(vlib.ROOT / "tools" / "props" / "c08_static_diag.lean")], cwd=vlib.LEAN)
        out = "\n".join(l for l in r.stdout.split("\n") if not l.rstrip().endswith(": []") and not l.rstrip().endswith("[] []"))
        chains = {}
        for ph, info in ws["phases"].items():
            for k, v in list(info["fields"].items()) + list(info["rfields"].items()) + list(info["globals"].items()):
                if re.search(r"\b" + re.escape(k) + r"\b", out):
                    chains.setdefault(k, f"{ph}: {' > '.join(v['chain'][-5:])} ({','.join(v['kinds'])})")
        c.oblige("static tie: which statement of Props/C08Static the regenerated write sets falsify", False,
                 {"falsified": out[-2500:], "witness_call_chains": chains})
    c.cov["static_write_sets"] = {ph: {"functions": i["n_functions"], "fields": i["n_fields"], "globals": i["n_globals"],
                                       "tier2_fields": i["n_rfields"]} for ph, i in ws["phases"].items()}
    c.cov["static_analysis"] = {k: v for k, v in st.items() if k not in ("slots", "cuts", "slot_refinements")}
    c.cov["static_exceptions"] = {"tier1_fields": nex, "tier2_fields": nrex, "cuts": [x[0] for x in st["cuts"]],
                                  "slot_refinements": [x[:2] for x in st["slot_refinements"]]}
    return ws


def static_covers(ws, opname, cell):
    """is inventory cell `S.f` in the static may-write set of the API phase(s) behind the model operation?"""
    ph = PHASE_OF_OP.get(opname)
    if ws is None or ph is None:
        return True
    key = cell.replace(".", "__")
    phs = STATIC_QUERY_UNION if ph == "query" else ("query", "resultJson", "queryAlign") if ph == "queryAlign" else (ph,)
    if any(key in ws["phases"][p]["fields"] for p in phs):
        return True
    # an embedded aggregate (fsg_search_s.base, ptm_mgau_s.base, fsg_pnode_s.hmm) changes when a field of the embedded
    # struct is written (through the `base` pointer): covered when the analysis lists such a field
    emb = ws["reach"].get("embedded", {}).get(cell)
    if emb and any(k.startswith(emb + "__") for p in phs for k in ws["phases"][p]["fields"]):
        return True
    # cells whose content lives in a tier-2 struct: the history table is a blkarray_list of fsg_hist_entry_s
    return any(k in ws["phases"][p]["rfields"] for p in phs for k in CELL_CONTENT.get(cell, ()))


# ------------------------------------------------------------------------------------------ judging one history

def judge_history(c, binp, mat, h, tables, stats, label, pre):
    """returns None when the history is fine, else a dict describing the failure (already classified)"""
    hops, hmark = history_ops(h, mat)
    fops, fmark = fresh_ops(h, mat)
    qops, qmark = fresh_ops(h, mat, strip_partial=True) if h["target"]["utt"].get("partial") else (None, 0)
    with cf.ThreadPoolExecutor(3) as ex:
        fh = ex.submit(run_ops, binp, pre, hops)
        ff = ex.submit(run_ops, binp, pre, fops)
        fq = ex.submit(run_ops, binp, pre, qops) if qops else None
        rh, rf = fh.result(), ff.result()
        rq = fq.result() if fq else None
    stats["calls"] += len(hops) + len(fops) + (len(qops) if qops else 0)
    if crashed(rh) or crashed(rf):
        which = rh if crashed(rh) else rf
        if "decoder_alignment" in which["err"] and any_alignment(h):
            # a sanitizer report inside the second-pass aligner (e.g. the renormalisation overflow of a dead alignment search,
            # C04's defect) is not an isolation failure: recorded, and the history is judged again without the alignment query
            stats.setdefault("sanitizer_reports_inside_decoder_alignment", []).append(
                (which["err"].split("runtime error:")[-1] if "runtime error:" in which["err"] else which["err"])[:160].strip())
            vlib.log(f"[C08] {label}: sanitizer report inside decoder_alignment (not judged here); retrying without alignment")
            return judge_history(c, binp, mat, without_alignment(h), tables, stats, label, pre)
        return {"kind": "crash", "exit_code": which["rc"], "stderr_tail": which["err"][-1500:],
                "last_command": which["recs"][-1]["cmd"] if which["recs"] else None,
                "ops": hops if crashed(rh) else fops,
                # the decoder with the history aborts (assert / sanitizer) where a fresh decoder given the same configuration,
                # grammar, CMN text and audio completes: the k-th utterance does not equal the fresh decoder's — a concrete input
                "history_decoder_aborts_fresh_decoder_completes": bool(crashed(rh) and not crashed(rf)),
                "fresh_ops": fops}
    bad = reset_failures(rh) + reset_failures(rf)
    a, b = section(rh, hmark), section(rf, fmark)
    # the R lines themselves are bookkeeping of oracle (a); the property is judged on everything else
    strip = lambda sec: [(cmd, [l for l in out if not l.startswith("R ")]) for cmd, out in sec]
    d = first_diff(strip(a), strip(b))
    if bad and d is None:
        return {"kind": "reset-field-not-canonical", "fields": bad[:10], "ops": hops}
    tgt = rh["recs"][-1]["out"]
    hyp = next((l for l in tgt if l.startswith("H ")), "H 0 (null)")
    stats["target_hyp"]["none" if hyp.endswith("(null)") else "some"] += 1
    if any(l.startswith("L nodes=") for l in tgt):
        stats["target_with_lattice"] += 1
    if any(l.startswith("A words=") for l in tgt):
        stats["target_with_alignment"] += 1
    if d is not None:
        res = {"kind": "kth-utterance-differs-from-fresh-decoder", "first_difference": d,
               "history_ops": hops, "fresh_ops": fops, "poison_mask": h["poison"]}
        if bad:
            res["reset_fields_not_canonical"] = bad[:10]
        if h["poison"]:
            # separate (b) from (c): the same history without poisoning
            hops2, _ = history_ops(h, mat, poison=False)
            r2 = run_ops(binp, pre, hops2)
            stats["calls"] += len(hops2)
            if not crashed(r2) and first_diff(section(r2, hmark), b) is None:
                res["kind"] = "poisoning-a-dead-buffer-changes-the-result"
        return res
    if rq is not None and not crashed(rq):
        # oracle (g): the same fresh decoder without the mid-utterance queries must end with the same result
        tail = lambda sec: next((sec[i:] for i, (cmd, _) in enumerate(sec) if cmd == "end"), [])
        dq = first_diff(tail(strip(b)), tail(strip(section(rq, qmark))))
        stats["query_noninterference_compared"] = stats.get("query_noninterference_compared", 0) + 1
        for v in h["target"]["utt"].get("pflags", {}).values():
            stats.setdefault("mid_utterance_query_flags", {}).setdefault(str(v), 0)
            stats["mid_utterance_query_flags"][str(v)] += 1
        if dq is not None:
            return {"kind": "query-changes-the-utterance-result", "first_difference": dq,
                    "with_queries_ops": fops, "without_queries_ops": qops, "config": h["cfg"]}
    if tables is not None:
        for run, lab in ((rh, "history"), (rf, "fresh")):
            probs = check_model_tie(c, run, tables, stats, f"{label} {lab}", h["cfg"] == "livecmn")
            if probs:
                return {"kind": "model-tie", "problems": probs[:6], "ops": hops if lab == "history" else fops}
    return None


def any_alignment(h):
    return any(u["flags"] & 2 or any(v & 2 for v in u.get("pflags", {}).values())
               for u in [it["utt"] for it in h["items"] if it["op"] == "utt"] + [h["target"]["utt"]])


def without_alignment(h):
    h = json.loads(json.dumps(h))
    for u in [it["utt"] for it in h["items"] if it["op"] == "utt"] + [h["target"]["utt"]]:
        u["flags"] &= ~2
        u["pflags"] = {k: v & ~2 for k, v in u.get("pflags", {}).items()}
    return h


def shrink_history(c, binp, mat, h, tables, stats, pre, kind):
    def fails(items):
        h2 = dict(h, items=items)
        r = judge_history(c, binp, mat, h2, None, stats, "shrink", pre)
        return r is not None and r["kind"] == kind
    if kind == "model-tie":
        return h
    items = vlib.ddmin(h["items"], fails, max_tests=40) if len(h["items"]) > 1 else h["items"]
    if len(items) == 1 and not fails(items):
        items = h["items"]
    h = dict(h, items=items)
    # simplify the target's calling pattern when the failure survives it
    for simp in ("nopoison", "onechunk"):
        h2 = json.loads(json.dumps(h))
        if simp == "nopoison":
            h2["poison"] = 0
        else:
            u = h2["target"]["utt"]
            if u["mode"] == "batch" or len(u["chunks"]) <= 2:
                continue
            first = u["chunks"][0]
            rest = u["len"] - first
            u["chunks"] = [first] + [min(MAXCHUNK, rest - i) for i in range(0, rest, MAXCHUNK)]
            u["nosearch"] = [0] * len(u["chunks"])
            u["partial"] = []
        r = judge_history(c, binp, mat, h2, None, stats, "shrink", pre)
        if r is not None and r["kind"] == kind:
            h = h2
    return h


# ------------------------------------------------------------------------------------------ two decoders

def gen_pair(rng, mat, stats):
    return [gen_history(rng, mat, stats) for _ in range(2)]


WARP_POOL = ["batchcmn", "warp_il", "warp_il", "warp_il2", "warp_af", "warp_pw"]


def warp_member(cfg, a=0, ln=24000):
    """a decoder of a creation-order group: created with `cfg`, one short utterance"""
    u = {"a": a, "off": 0, "len": ln, "mode": "stream", "fmt": "i", "partial": [], "flags": 0, "chunks": [ln],
         "chunking": "whole", "nosearch": [0]}
    g = {"kind": "jsgf", "i": 0}
    return {"cfg": cfg, "items": [{"op": "gram", "g": g}], "target": {"g": g, "cmn": CMN_TEXTS[0], "utt": u, "no_cmn_reset": False},
            "poison": 0, "poison_seed": 0}


def gen_warp_group(rng, mat, stats, comeback=False):
    """three or four decoders created in one process with frequency-warp configurations drawn with replacement (so the same
    warp comes back after another one or after none): each must equal its solo run in a fresh process"""
    if comeback:
        # the same warp again after a decoder without one (a parameter string that is parsed a second time)
        w = rng.choice(["warp_il", "warp_il2", "warp_af", "warp_pw"])
        cfgs = [w, "batchcmn", w] + ([rng.choice(WARP_POOL)] if rng.chance(0.5) else [])
    else:
        cfgs = [rng.choice(WARP_POOL) for _ in range(rng.range(3, 4))]
    if len(set(cfgs)) == 1:
        cfgs[1] = "batchcmn" if cfgs[0] != "batchcmn" else "warp_il"
    for x in cfgs:
        stats["configs"][x] = stats["configs"].get(x, 0) + 1
    stats["warp_groups"] = stats.get("warp_groups", 0) + 1
    return [warp_member(x, a=rng.choice([0, 7]), ln=rng.choice([16000, 24000])) for x in cfgs]


def judge_pair(c, binp, mat, pair, stats, rng, pre, sequential=False):
    lists = []
    for d, h in enumerate(pair):
        ops, _ = history_ops(h, mat, d=d, poison=False)
        lists.append(ops)
    # interleave at call granularity (or, for creation-order scenarios, one decoder after the other)
    n = len(lists)
    order, pos = [], [0] * n
    if sequential:
        order = [op for l in lists for op in l]
    else:
        while any(pos[d] < len(lists[d]) for d in range(n)):
            d = rng.choice([d for d in range(n) if pos[d] < len(lists[d])])
            for _ in range(rng.range(1, 4)):
                if pos[d] < len(lists[d]):
                    order.append(lists[d][pos[d]])
                    pos[d] += 1
    with cf.ThreadPoolExecutor(3) as ex:
        fi = ex.submit(run_ops, binp, pre, order)
        fs = [ex.submit(run_ops, binp, pre, l) for l in lists]
        ri, rs = fi.result(), [f.result() for f in fs]
    stats["calls"] += len(order) * 2
    for r, ops in [(ri, order)] + list(zip(rs, lists)):
        if crashed(r):
            if "decoder_alignment" in r["err"] and any(any_alignment(h) for h in pair):
                stats.setdefault("sanitizer_reports_inside_decoder_alignment", []).append(
                    (r["err"].split("runtime error:")[-1] if "runtime error:" in r["err"] else r["err"])[:160].strip())
                return judge_pair(c, binp, mat, [without_alignment(h) for h in pair], stats, rng, pre, sequential)
            return {"kind": "crash", "exit_code": r["rc"], "stderr_tail": r["err"][-1500:], "ops": ops,
                    "last_command": r["recs"][-1]["cmd"] if r["recs"] else None}
    for d in range(n):
        inter = [(r["cmd"], observable(r)) for r in ri["recs"] if r["cmd"].split()[1:2] == [str(d)]]
        solo = [(r["cmd"], observable(r)) for r in rs[d]["recs"]]
        diff = first_diff(inter, solo)
        if diff is not None:
            return {"kind": "two-decoders-interfere", "decoder": d,
                    "first_difference": {"index": diff["index"], "interleaved": diff["history_decoder"], "solo": diff["fresh_decoder"]},
                    "interleaved_ops": order, "solo_ops": lists[d]}
    return None


# ------------------------------------------------------------------------------------------ inventory / globals

# dead or tainted cells the harness does not overwrite, with the reason (printed into the evidence)
NOT_PERTURBED = {
    "acmod_s.framepos": "never read or written outside (re)allocation; its size is not tracked by n_feat_alloc after a batch call",
    "acmod_s.grow_feat": "a flag, not storage: varied by the histories themselves (buffered utterances set it)",
    "acmod_s.n_mfc_alloc": "capacity: varied by the histories themselves (batch utterances enlarge the cepstral ring)",
    "s2_semi_mgau_s.f": "no shipped acoustic model selects the s2_semi scorer (classified by reading only)",
    "s2_semi_mgau_s.topn_hist": "no shipped acoustic model selects the s2_semi scorer (classified by reading only)",
    "s2_semi_mgau_s.topn_hist_n": "no shipped acoustic model selects the s2_semi scorer (classified by reading only)",
}


def global_regions(binp, tables):
    """address ranges of the library's writable globals inside the (non-PIE) harness binary"""
    r = vlib.run(["nm", "-S", str(binp)])
    want = {}
    for g, kind in tables["globals"].items():
        want.setdefault(g.split(":", 1)[1], kind)
    regs, seen = [], {}
    for l in r.stdout.split("\n"):
        w = l.split()
        if len(w) == 4 and w[2] in "bBdD" and w[3] in want:
            seen[w[3]] = seen.get(w[3], 0) + 1
            regs.append((w[0], int(w[1], 16), f"{w[3]}#{seen[w[3]]}", want[w[3]]))
    return regs


def inventory_tie(c, binp, tables, mat, stats):
    """the harness' cell list, reset list and poison list against the model's classification; globals stay constant"""
    pre = audio_ops(mat)
    regs = global_regions(binp, tables)
    gl = "globals " + ",".join(f"{a}:{n}:{nm}" for a, n, nm, _ in regs) if regs else "cells"
    en = mat["cfgs"]["batchcmn"]
    ops = ["cells", f"new 0 {en}", gl, f"jsgf 0 {hx(mat['gram'][0])}", "start 0", "chk 0", "poison 0 5 7",
           "proc 0 0 0 20000 0 0 i", "end 0", "result 0 3", f"jsgf 0 {hx(mat['gram'][1])}", "start 0",
           "proc 0 1 0 9000 0 1 i", "end 0", "result 0 1", f"new 1 {en}", f"jsgf 1 {hx(mat['gram'][2])}", "start 1",
           "proc 1 2 0 8000 0 0 i", "end 1", "result 1 1", gl]
    run = run_ops(binp, pre, ops)
    if crashed(run):
        c.oblige("inventory session runs", False, run["err"][-800:])
        return False
    out = {i: r["out"] for i, r in enumerate(run["recs"])}
    fs = dict(x.split("=") for x in out[1][0].split()[1:] if "=" in x)
    if not c.oblige("the analysis-window size and shift the check uses to count completed windows are the decoder's",
                    fs.get("frame_size") == str(FRAME_SIZE) and fs.get("frame_shift") == str(FRAME_SHIFT), fs):
        return False
    stats["scorer"] = fs.get("mgau")
    cells = out[0][0].split()[1:]
    hc = {x for x in cells if not x.endswith("[]")}
    mc = set(tables["kind"])
    ok = c.oblige("inventory: the harness snapshots exactly the fields the model classifies (generated X-macro = generated Lean enumeration)",
                  hc == mc, {"only_harness": sorted(hc - mc)[:10], "only_model": sorted(mc - hc)[:10]})
    # reset list
    rl = {l.split()[1]: l.split()[4] for l in out[5] if l.startswith("R ")}
    ok &= c.oblige("inventory: the reset cells the harness reads back after decoder_start_utt are exactly the model's canonTable, "
                   "with the same canonical-value text", rl == tables["canon"],
                   {"only_harness": sorted(set(rl) - set(tables["canon"])), "only_model": sorted(set(tables["canon"]) - set(rl)),
                    "different": sorted(k for k in rl if k in tables["canon"] and rl[k] != tables["canon"][k])})
    # poison list
    pl = {l.split()[1][:-2] if l.split()[1].endswith("[]") else l.split()[1] for l in out[6] if l.startswith("P ")}
    wrong = sorted(x for x in pl if tables["kind"].get(x) not in ("dead", "tainted"))
    should = {x for x, k in tables["kind"].items() if k in ("dead", "tainted")}
    missing = sorted(should - pl - set(NOT_PERTURBED))
    ok &= c.oblige("inventory: the harness overwrites only cells the model classifies dead or tainted, and every such cell "
                   "(except the listed, justified exemptions)", not wrong and not missing, {"not_dead_but_poisoned": wrong, "dead_but_not_poisoned": missing})
    stats["poisoned_cells"] = len(pl)
    stats["not_perturbed_with_reason"] = NOT_PERTURBED
    # globals
    if regs:
        g0 = {l.split()[1]: l.split()[2] for l in out[2] if l.startswith("GL ")}
        g1 = {l.split()[1]: l.split()[2] for l in out[len(ops) - 1] if l.startswith("GL ")}
        kinds = {nm: k for _, _, nm, k in regs}
        changed = sorted(nm for nm in g0 if g0[nm] != g1.get(nm) and kinds[nm] in ("gconst", "ginit"))
        ok &= c.oblige("globals classified constant / init-only keep their bytes across utterances, grammar switches and the creation "
                       "of a second decoder", not changed, {"changed": changed})
        stats["globals_hashed"] = len(regs)
        stats["globals_excluded_by_configuration"] = sorted(nm for nm in kinds if kinds[nm] == "gexcl")
        names = {nm.split("#")[0] for nm in kinds}
        notfound = sorted(g for g in tables["globals"] if g.split(":", 1)[1] not in names)
        ok &= c.oblige("every classified global is present in the harness binary", not notfound, notfound)
    return ok


# ------------------------------------------------------------------------------------------ check

def new_stats():
    return {"chunking": {}, "modes": {}, "audio": {}, "grammar_kind": {}, "configs": {}, "calls": 0,
            "same_length_as_previous": 0, "batch_without_cmn_reset": 0, "target_hyp": {"none": 0, "some": 0},
            "target_with_lattice": 0, "target_with_alignment": 0, "model_ops": {}, "observed_writes": {}, "declared_writes": {}}


def harness(c):
    """build harness/h_c08.c against the fresh library and keep a private copy (other checks running in parallel prune
    the shared build cache, which only keeps the four most recent trees)"""
    import gen_fields, hashlib, shutil, time
    hp = gen_fields.header_path()
    tag = hashlib.sha256(hp.read_bytes()).hexdigest()[:12]
    last = None
    for attempt in range(5):
        try:
            binp = vlib.build_harness("h_c08", extra_flags=["-I" + str(hp.parent), "-DC08_INV_" + tag,
                                                              "-Wl,--allow-multiple-definition", "-no-pie"])
            mine = c.scratch / "h_c08"
            shutil.copy2(binp, mine)
            return mine
        except (FileNotFoundError, vlib.BuildError) as e:
            last = e
            if isinstance(e, vlib.BuildError) and "No such file" not in str(e) and "no such file" not in str(e):
                raise
            time.sleep(0.5 + attempt)
    raise vlib.BuildError(f"harness h_c08 could not be built (build cache pruned concurrently?): {last}")


def check(c):
    c.trusted += ["tools/gen_fields.py (clang AST → field inventory, nm → writable globals)",
                  "tools/gen_writesets.py: clang-14's AST and the over-approximation rules of the write-set analysis (what escapes: "
                  "writes through void*/char* or casts to an unrelated type, pointer arithmetic from one member into the next, "
                  "pointers stored in memory and reloaded later, callbacks handed to code outside the library, inline asm); its "
                  "hand lists (constructor/release cuts, vtable call-site refinements, contents of void* containers); "
                  "cross-validated every run: each write the snapshots observe must be in the static set (obligation f)",
                  "harness/h_c08.c + tools/props/c08.py (snapshot hashing, poisoning, history generator, comparison)",
                  "determinism of the compiled C floating-point code for identical inputs",
                  "read sets / dependency sets of the model's operations are validated by poisoning and by history-vs-fresh comparison, "
                  "not derived from the C text; write sets are validated by byte-level snapshots per call",
                  "tainted cells (ring capacities and phases, log counters, the s2_semi scorer's top-N history) are declared result-neutral: "
                  "validated by perturbation, not proved (ring bookkeeping is C07's theorem)",
                  "the error callback / log level (err.c globals) and the dither PRNG (genrand.c globals) are shared by all decoders "
                  "and are excluded by configuration (loglevel fixed, dither off)"]
    c.assumptions += ["dither is off (default) and logging goes nowhere: the classified globals err_cb/err_user_data/err_level and mt/mti are not exercised",
                      "calls carry at most 140000 samples (the longest recording of the pool in one call)",
                      "operations follow the documented protocol (start, process*, end, queries; grammar and CMN changes between utterances; "
                      "a batch utterance is one full_utt call); out-of-order calls are C09's subject",
                      "only the shipped PTM acoustic model (en-us) is exercised; the s2_semi / ms scorers are classified by reading"]
    lean_ok = c.lean_obligations()
    ws = static_obligations(c, lean_ok)
    binp = harness(c)
    mat = materials(c)
    stats = new_stats()
    stats["static_sets"] = ws
    tables = model_tables() if lean_ok else None
    if lean_ok:
        if not c.oblige("model driver prints its classification table", tables is not None and len(tables["kind"]) > 100):
            return
        if not inventory_tie(c, binp, tables, mat, stats):
            return
    pre = audio_ops(mat)
    rng = c.rng.fork()      # seeds 1,2,3… of vlib.Rng are one stream shifted by one draw; fork() decorrelates them
    nhist = {"quick": 16, "thorough": 450}[c.tier]
    npair = {"quick": 3, "thorough": 60}[c.tier]
    # corpus first (every case is judged; each failing one is its own violation)
    ncorp, corpus_failed = 0, False
    for f in sorted((vlib.ROOT / "corpus" / "C08").glob("*.json")):
        obj = json.loads(f.read_text())
        ncorp += 1
        if "pair" in obj:
            prng = vlib.Rng(1)
            prng.s = obj.get("interleave_rng_state", prng.s)
            res = judge_pair(c, binp, mat, obj["pair"], stats, prng, pre, obj.get("sequential", False))
            if res is not None:
                res["pair"], res["sequential"] = obj["pair"], obj.get("sequential", False)
        else:
            res = judge_history(c, binp, mat, obj["history"], tables, stats, f"corpus {f.name}", pre)
        if res is not None and not report(c, res, obj.get("history"), mat, f"corpus {f.name}", stats):
            corpus_failed = True
    if corpus_failed:
        nhist = npair = 0
    distinct, ok = set(), True
    for i in range(nhist):
        h = query_interference_scenario(rng, mat, stats) if i % 8 == 2 else \
            gen_history(rng, mat, stats, ring_growth=(i % 8 == 0), beam_carry=(i % 8 == 4), degenerate=(i % 8 in (1, 6)))
        distinct.add(json.dumps(h, sort_keys=True))
        if i < 2:
            c.samples.append({"config": h["cfg"], "history": [it["op"] + (":" + it["utt"]["mode"] if it["op"] == "utt" else "") for it in h["items"]],
                              "target": {k: h["target"]["utt"][k] for k in ("a", "off", "len", "mode", "chunking", "fmt")},
                              "poison_mask": h["poison"]})
        res = judge_history(c, binp, mat, h, tables, stats, f"history {i}", pre)
        if res is not None:
            if is_known(c, witness_class(res, h)):
                report(c, res, h, mat, f"history {i}", stats)
                continue
            ok = False
            if res["kind"] not in ("crash", "model-tie"):
                h = shrink_history(c, binp, mat, h, tables, stats, pre, res["kind"])
                res = judge_history(c, binp, mat, h, None, stats, f"history {i} shrunk", pre) or res
            report(c, res, h, mat, f"history {i}", stats)
            break
    npairs_done = 0
    if ok:
        for i in range(npair):
            pair = gen_pair(rng, mat, stats)
            irng = rng.fork()
            seed_state = irng.s
            res = judge_pair(c, binp, mat, pair, stats, irng, pre)
            npairs_done += 1
            if res is not None:
                ok = False
                res["pair"] = pair
                res["interleave_rng_state"] = seed_state
                report(c, res, None, mat, f"pair {i}", stats)
                break
    ngroup = {"quick": 2, "thorough": 40}[c.tier] if ok and not corpus_failed else 0
    for i in range(ngroup):
        grp = gen_warp_group(rng, mat, stats, comeback=(i % 2 == 0))
        irng = rng.fork()
        seed_state = irng.s
        seq = rng.chance(0.5)
        res = judge_pair(c, binp, mat, grp, stats, irng, pre, sequential=seq)
        npairs_done += 1
        if res is not None:
            ok = False
            res["pair"], res["sequential"], res["interleave_rng_state"] = grp, seq, seed_state
            report(c, res, None, mat, f"warp group {i}", stats)
            break
    nprobe = 0
    if ok and c.tier == "thorough":
        ok, nprobe = selection_history_probe(c, binp, mat, rng, pre, stats)
    fk = stats.get("failed_kind")
    c.oblige("(a) every reset-at-start cell has its canonical value after decoder_start_utt, in every utterance of every history",
             fk != "reset-field-not-canonical")
    c.oblige("(b) garbage in every dead-on-start buffer / perturbed log-only counters and ring phases leave the result bit-identical",
             fk not in ("poisoning-a-dead-buffer-changes-the-result", "selection-history-not-neutral"))
    c.oblige("(c) the k-th utterance of every generated history equals a fresh decoder given the same configuration, grammar and CMN text "
             "(batch CMN + full_utt: without any CMN reset); no sanitizer report / abort on the way",
             fk not in ("kth-utterance-differs-from-fresh-decoder", "crash"))
    c.oblige("(d) two interleaved decoders each equal their solo run", fk != "two-decoders-interfere")
    c.oblige(f"(g) result queries in the middle of an utterance (hyp, segmentation, lattice, alignment of the partial result) leave "
             f"its final result unchanged: fresh decoder with vs without the queries ({stats.get('query_noninterference_compared', 0)} "
             f"utterances compared)", fk != "query-changes-the-utterance-result")
    if tables is not None:
        c.oblige("(e) per call: changed inventory cells ⊆ declared write set of the model operation; protocol phase = acmod->state; "
                 "the model never reports a stale read", fk != "model-tie")
        c.oblige(f"(f) every inventory cell whose bytes changed in a call lies in the static may-write set of the API phase "
                 f"behind the operation ({stats.get('observed_cells', 0)} observed changes)", not stats.get("static_misses"),
                 sorted(stats.get("static_misses", ())))
        stats["declared_write_groups_never_observed"] = {op: sorted(stats["declared_writes"][op] - stats["observed_writes"].get(op, set()))
                                                         for op in stats["declared_writes"]
                                                         if stats["declared_writes"][op] - stats["observed_writes"].get(op, set())}
        allops = ["startUtt", "processNoFrame", "processFirst", "processMore", "processFull", "processFullLive", "endUtt",
                  "endUttEmpty", "query", "queryAlign", "setGrammar", "setCmn", "getCmn", "getCmnUpdate", "initFe"]
        stats["model_ops_never_exercised"] = [o for o in allops if o not in stats["model_ops"]]
    stats["observed_writes"] = {k: sorted(v) for k, v in stats["observed_writes"].items()}
    stats.pop("static_sets", None)
    stats["static_misses"] = sorted(stats.get("static_misses", ()))
    stats.pop("declared_writes", None)
    c.cov.update({"evaluations": len(distinct) + npairs_done + ncorp + nprobe, "distinct_nontrivial": len(distinct) + npairs_done,
                  "rule": "distinct generated histories (1-5 earlier items among utterances / grammar switches / CMN changes, then the target "
                          "utterance compared with a fresh decoder in its own process) + interleaved decoder pairs; every history has >= 1 "
                          "earlier utterance with other content",
                  **{k: v for k, v in stats.items()}})


def selection_history_probe(c, binp, mat, rng, pre, stats):
    """thorough tier: the Gaussian-selection history (top-N codeword identities of the PTM scorer) is classified dead on
    start (reset when frame 0 is scored).  Probe that at the most sensitive observable there is — the senone scores handed to
    the search in every frame — under many garbage contents, with and without frame down-sampling."""
    n, ok = 0, True
    for a in (0, 2):
        ln = min(mat["audio"][a]["n"], MAXCHUNK)
        base = None
        for k in range(40):
            ops = [f"new 0 {mat['cfgs']['ds2' if k % 2 else 'batchcmn']}", f"jsgf 0 {hx(mat['gram'][1 if a == 0 else 4])}",
                   f"setcmn 0 {CMN_TEXTS[0]}", "start 0"]
            if k >= 2:
                ops.append(f"poison 0 {rng.below(1 << 30)} 1")
            ops += [f"proc 0 {a} 0 {ln} 1 0 i", "endx 0", "result 0 1"]
            r = run_ops(binp, pre, ops)
            n += 1
            if crashed(r):
                c.oblige("selection-history probe runs", False, r["err"][-600:])
                return False, n
            obs = [l for rec in r["recs"][-2:] for l in observable(rec)]
            if k < 2:                     # k = 0, 1: the unpoisoned reference of each configuration
                base = dict(base or {})
                base[k] = obs
                continue
            if obs != base[k % 2]:
                ok = False
                c.oblige("the top-N codeword history is dead on start at the level of per-frame senone scores", False,
                         {"ops": ops, "observed": obs[:4], "reference": base[k % 2][:4]})
                stats["failed_kind"] = "selection-history-not-neutral"
                c.violation({"kind": "selection-history-not-neutral", "ops": ops, "observed": obs, "reference": base[k % 2],
                             "note": "garbage (valid, distinct codewords) in ptm_fast_eval_s.topn changed the senone scores; "
                                     "the classification dead-on-start is wrong for the implementation"}, False)
                return False, n
    stats["selection_history_probes"] = n
    return ok, n


def witness_class(res, h):
    """stable identifier of the class of a witness (the key of a known_findings.json entry, should one be needed)"""
    k = res["kind"]
    if k == "two-decoders-interfere" and any(x["cfg"].startswith("warp") for x in res.get("pair", [])):
        return k + "/decoders-created-with-different-frequency-warps"
    if h is None or k not in ("kth-utterance-differs-from-fresh-decoder",):
        return k
    t = h["target"]["utt"]
    streamed_before = any(it["op"] == "utt" and it["utt"]["mode"] != "batch" and it["utt"]["len"] > 0 for it in h["items"])
    if t["mode"] == "batch" and h["cfg"] != "livecmn" and streamed_before:
        return k + "/batch-utterance-after-streaming-with-batch-cmn-configured"
    if t["mode"] != "batch" and t["chunks"] and (t["chunks"][0] < FRAME_SIZE or t["len"] < FRAME_SIZE):
        return k + "/first-call-shorter-than-an-analysis-window"
    big_batch = any(it["op"] == "utt" and it["utt"]["mode"] == "batch" and nframes(it["utt"]["len"]) > LIVEWIN for it in h["items"])
    if t["mode"] != "batch" and big_batch and any(nframes(c) > LIVEWIN for c in t["chunks"]):
        return k + "/streaming-call-larger-than-the-live-feature-window-after-a-larger-batch-utterance"
    ring = FRAME_SIZE + 127 * FRAME_SHIFT        # samples of 128 frames = the initial cepstral ring
    batch_before = any(it["op"] == "utt" and it["utt"]["mode"] == "batch" and it["utt"]["len"] > ring for it in h["items"])
    if t["mode"] != "batch" and batch_before and nframes(t["len"]) > 300 and any(c > ring for c in t["chunks"]):
        return k + "/streaming-utterance-crossing-the-cmn-update-threshold-after-a-larger-batch-utterance"
    return k + "/other"


def is_known(c, key):
    return any(kf.get("property") == c.prop and kf.get("status", "open") == "open" and kf.get("key") == key
               for kf in vlib.known_findings())


def report(c, res, h, mat, label, stats=None):
    """record one failure; returns True when it is a listed known finding (reported as such, the search goes on)"""
    # poisoning / canonical-value / write-set failures show that the classification is wrong for the implementation, which is a
    # broken tie; only a difference produced by a real history is the property failing on a concrete input
    found_input = res["kind"] in ("kth-utterance-differs-from-fresh-decoder", "two-decoders-interfere",
                                  "query-changes-the-utterance-result") or \
        (res["kind"] == "crash" and bool(res.get("history_decoder_aborts_fresh_decoder_completes")))
    obj = dict(res)
    obj["label"] = label
    if h is not None:
        obj["history"] = h
    obj["audio_pool"] = [a["name"] for a in mat["audio"]]
    obj["how_to_rerun"] = "python3 tools/check.py C08 --replay <this file>"
    obj["witness_class"] = witness_class(res, h)
    if is_known(c, obj["witness_class"]):
        c.violation(obj, found_input, finding_key=obj["witness_class"])
        return True
    if stats is not None:
        stats["failed_kind"] = res["kind"]
    c.oblige(f"isolation holds on {label}", False, {k: res[k] for k in res if k in ("kind", "first_difference", "fields", "problems", "last_command", "stderr_tail")})
    c.violation(obj, found_input)
    return False


def replay(c, path):
    c.lean_obligations()
    binp = harness(c)
    mat = materials(c)
    stats = new_stats()
    tables = model_tables()
    pre = audio_ops(mat)
    obj = json.loads(open(path).read())
    if "pair" in obj:
        rng = vlib.Rng(1)
        rng.s = obj.get("interleave_rng_state", rng.s)
        res = judge_pair(c, binp, mat, obj["pair"], stats, rng, pre, obj.get("sequential", False))
        if res is not None:
            res["pair"], res["sequential"] = obj["pair"], obj.get("sequential", False)
    else:
        res = judge_history(c, binp, mat, obj["history"], tables, stats, "replay", pre)
    if res is not None:
        report(c, res, obj.get("history"), mat, "replay")
    c.cov.update({"evaluations": 1, "distinct_nontrivial": 1})
