"""C11 — the word lattice is a well-formed, time-consistent graph of grammar paths.
(shared machinery of C11 and C12: generator, harness run, dump parser, driver protocol)

Lean: SSVerif/Props/C11.lean — `LatticeOK` (local, decidable predicate) decided by the verified
checker `latticeOKB`; graph theorems lift it to the universally quantified statements of the
property (no cycle, every node on a start->end path, every path a grammar path, ...).
Tie: harness/h_c11.c decodes audio against generated JSGF grammars (default/narrow/wide beams, audio
cut mid-sentence), requests `decoder_lattice` mid-utterance and at the end and dumps it through the
iterator API together with the search FSG and the history table; `ssdriver c11` runs `latticeOKB`
and `checkFirstBest` on the C lattice (implementation-side oracle) and the model's own
`buildLattice` on the dumped history (correspondence, canonically sorted).
Round 2: SSVerif/Props/C11Build.lean proves `buildLattice` => `LatticeOK` (and the first-best clause) for EVERY
history table satisfying the decidable hypotheses `HistWF` / `chainOKB` / `extraB` (Model/LatticeHist.lean); the
driver evaluates them on every dumped table / first-best segmentation (`histwf`, `chain` lines) and `check`
records them as obligations and prints how often each was evaluated.
"""
import json, os, array
import vlib

VOC = ["go", "forward", "backward", "ten", "meters", "meter", "one", "two", "three", "stop", "turn", "left", "right",
       "a", "the", "hello", "world", "and", "ford", "tend", "meet", "for", "ward", "hi", "yo", "pizza", "want", "i",
       "small", "large", "with", "ham", "order"]
DATA = vlib.REPO / "tests" / "data"


def hx(s):
    return s.encode().hex() if s else "-"


def unhx(h):
    return None if h == "null" else ("" if h == "-" else bytes.fromhex(h).decode(errors="replace"))


# --------------------------------------------------------------------------------------------
# generator

def gen_grammar(rng):
    kind = rng.weighted([("linear", 2), ("loop", 3), ("oneword", 1), ("branch", 3), ("random", 4), ("pizza", 1),
                         ("optional", 2), ("onealt", 2)])
    if kind == "linear":
        body = "go forward ten meters" if rng.chance(0.6) else " ".join(rng.choice(VOC) for _ in range(rng.range(2, 5)))
    elif kind == "loop":
        ws = ["go", "forward", "ten", "meters"] if rng.chance(0.5) else []
        ws += [rng.choice(VOC) for _ in range(rng.range(1, 5))]
        body = "(" + " | ".join(dict.fromkeys(ws)) + ")" + rng.choice(["+", "*"])
    elif kind == "oneword":
        body = rng.choice(["go", "forward", "ten", rng.choice(VOC)])
    elif kind == "onealt":
        # a one-word alternative next to longer ones (single-word first-best paths)
        body = rng.choice(VOC[:14]) + " | " + " ".join(rng.choice(VOC[:14]) for _ in range(rng.range(2, 3)))
        if rng.chance(0.5):
            body += " | " + rng.choice(VOC)
    elif kind == "branch":
        body = "go (forward | backward | for ward) (ten | one | two | tend | a) [meter | meters | meet]"
        if rng.chance(0.5):
            body = "(go | stop | turn) (forward | backward | left | right) [(ten | two) (meters | meter)]"
    elif kind == "pizza":
        return (DATA / "pizza.gram").read_text(), kind
    elif kind == "optional":
        body = "[go] [forward | ford] [ten | tend] [meters | meet]"
        if rng.chance(0.5):
            body = "[hello] (go forward)* [ten meters]"
    else:
        def rx(d):
            k = rng.weighted([("w", 5), ("seq", 3 if d < 3 else 0), ("alt", 3 if d < 3 else 0), ("opt", 1 if d < 3 else 0),
                              ("star", 1 if d < 3 else 0), ("plus", 1 if d < 3 else 0)])
            if k == "w":
                return rng.choice(VOC[:14])
            if k == "seq":
                return " ".join(rx(d + 1) for _ in range(rng.range(2, 3)))
            if k == "alt":
                return "(" + " | ".join(rx(d + 1) for _ in range(rng.range(2, 3))) + ")"
            if k == "opt":
                return "[" + rx(d + 1) + "]"
            if k == "star":
                return "(" + rx(d + 1) + ")*"
            return "(" + rx(d + 1) + ")+"
        body = rx(0)
    return f"#JSGF V1.0; grammar g; public <g> = {body} ;", kind


def audio_files(scratch):
    """int16 raw files: tests/data/*.raw (the float32 one converted)"""
    os.makedirs(scratch, exist_ok=True)
    res = {"goforward": str(DATA / "goforward.raw"), "goforward_fr": str(DATA / "goforward_fr.raw")}
    f32 = array.array("f")
    f32.frombytes((DATA / "pizza-float32.raw").read_bytes())
    mx = max(abs(x) for x in f32) or 1.0
    sc = 32767.0 / mx if mx <= 1.5 else 1.0
    i16 = array.array("h", [max(-32768, min(32767, int(x * sc))) for x in f32])
    p = os.path.join(scratch, "pizza16.raw")
    open(p, "wb").write(i16.tobytes())
    res["pizza"] = p
    return res


# size limits of the model evaluation in the driver (the model's per-link state is a function / an association
# list: quadratic in the number of updates); larger lattices are still judged by the verified checker and by the
# python oracles, and are counted in the evidence
MAX_LINKS_MODEL = 1500
MAX_LINKS_INT = 450

BEAMS = {"default": [], "narrow": ["beam=1e-20", "wbeam=1e-10", "pbeam=1e-20"],
         "vnarrow": ["beam=1e-8", "wbeam=1e-4", "pbeam=1e-8"], "wide": ["beam=1e-80", "wbeam=1e-60", "pbeam=1e-80"]}


def gen_case(rng, audios, k=8):
    g, kind = gen_grammar(rng)
    au = rng.weighted([("goforward", 6), ("goforward_fr", 2), ("pizza", 2)])
    n = os.path.getsize(audios[au]) // 2
    beamk = rng.weighted([("default", 4), ("narrow", 3), ("wide", 1), ("vnarrow", 2)])
    cfg = list(BEAMS[beamk])
    if rng.chance(0.15):
        cfg.append("fsgusefiller=no")
    if rng.chance(0.15):
        cfg.append("fsgusealtpron=no")
    if rng.chance(0.5):
        cfg.append("ascale=1")          # the float product in lattice_bestpath/_posterior is exact
    if rng.chance(0.1):
        cfg.append("silprob=0.5")
    if rng.chance(0.1):
        cfg.append("wip=0.2")
    cut = n if rng.chance(0.5) else rng.range(1000, n)          # audio cut mid-sentence
    mids = sorted(rng.range(0, cut) for _ in range(rng.range(0, 3)))
    return dict(grammar=g, kind=kind, audio=au, cfg=cfg, cut=cut, mids=mids, beam=beamk, k=k)


def aim_case(rng, case, audios, stats=None):
    """aim the cut point and the mid-utterance requests of a case just after word ends: one extra decode of the whole
    recording gives the first-best word boundaries; the audio is then cut 0..25 frames after one of them (an utterance
    cut off shortly after a word leaves dead-end word instances in the history) and the lattice is requested after
    several others.  Falls back to the unaimed case when the full decode has no word segment."""
    n = os.path.getsize(audios[case["audio"]]) // 2
    probe = dict(case, cut=n, mids=[], k=0, ops=None)
    cmds = case_cmds(probe, audios, bp=0)
    try:
        binp = vlib.build_harness("h_c11")
        rc, out, err = vlib.run_bin(binp, stdin_text="\n".join(cmds) + "\n", leaks=False, timeout=300)
    except Exception:
        return case
    lats = parse(out) if rc == 0 else []
    ends = sorted(set(x[2] for d in lats for x in d["X"] if x[0] not in ("(NULL)", None) and x[2] >= 0))
    if not ends:
        return case

    def pos(ef):
        return min(n, (ef + 1 + rng.range(0, 25)) * 160 + rng.range(0, 159))
    cut = pos(rng.choice(ends))
    mids = sorted(set(p2 for p2 in (pos(rng.choice(ends)) for _ in range(rng.range(2, 6))) if p2 < cut))
    if stats is not None:
        stats["generator:cut-aimed-after-a-word-end"] = stats.get("generator:cut-aimed-after-a-word-end", 0) + 1
    return dict(case, cut=cut, mids=mids, aimed=True)


def derive_audio(audios, spec):
    """path of an audio given by name, or derived from a base recording: same sample count, different content
    (rotation = time shift, equal-length excerpt at an offset, pseudo-noise mixed in); deterministic, written to the scratch dir"""
    if isinstance(spec, str):
        return audios[spec]
    base = array.array("h")
    base.frombytes(open(audios[spec["base"]], "rb").read())
    n, kind, par = spec["n"], spec["kind"], spec["param"]
    if kind == "rotate":
        src = base[:n] if len(base) >= n else base
        k = par % max(1, len(src))
        out = src[k:] + src[:k]
    elif kind == "excerpt":
        off = min(par, max(0, len(base) - n))
        out = base[off:off + n]
    else:   # noise
        out = array.array("h", base[:n])
        x = par & 0x7FFFFFFF
        for i in range(len(out)):
            x = (1103515245 * x + 12345) & 0x7FFFFFFF
            out[i] = max(-32768, min(32767, out[i] + ((x >> 16) % 801) - 400))
    out = array.array("h", out)
    while len(out) < n:          # pad by repetition so that the sample count is exactly n
        out.extend(out[:n - len(out)])
    path = os.path.join(os.path.dirname(audios["pizza"]), f"d-{spec['base']}-{kind}-{par}-{n}.raw")
    if not os.path.exists(path):
        open(path, "wb").write(out[:n].tobytes())
    return path


def multi_case(rng, audios):
    """several utterances on ONE decoder with exactly the same sample count (hence frame count) and different content;
    the lattice is requested at the same positions in each — a lattice surviving from the previous utterance would be
    handed out again by the frame-count test of fsg_search_lattice"""
    g, kind = gen_grammar(rng)
    base = rng.weighted([("goforward", 5), ("goforward_fr", 3), ("pizza", 2)])
    nfull = os.path.getsize(audios[base]) // 2
    n = nfull if rng.chance(0.5) else rng.range(nfull // 3, nfull)
    n -= n % 160
    mids = sorted(set((rng.range(160, n - 160) // 160) * 160 for _ in range(rng.range(0, 2))))

    def other():
        k2 = rng.weighted([("rotate", 3), ("excerpt", 3), ("noise", 2)])
        if k2 == "rotate":
            return dict(base=base, kind="rotate", param=rng.range(1600, max(1601, n - 1600)), n=n)
        if k2 == "excerpt":
            b2 = rng.choice([x for x in ("goforward", "goforward_fr", "pizza") if x != base])
            return dict(base=b2, kind="excerpt", param=rng.range(0, 8000), n=n)
        return dict(base=base, kind="noise", param=rng.range(1, 10 ** 6), n=n)
    first = dict(base=base, kind="excerpt", param=0, n=n)
    order = rng.weighted([("AB", 4), ("BA", 3), ("ABA", 2), ("ABC", 2)])
    pool = {"A": first, "B": other(), "C": other()}
    utts = [dict(audio=pool[ch], cut=n, mids=list(mids), end_request=True) for ch in order]
    if rng.chance(0.3) and mids:
        utts[0]["end_request"] = False          # lattice of the first utterance fetched only mid-utterance
    cfg = list(BEAMS[rng.choice(["default", "default", "narrow"])]) + [rng.choice(["bestpath=no", "bestpath=yes"])]
    return dict(grammar=g, kind=kind, audio=base, cfg=cfg, cut=n, mids=list(mids), beam="default", k=4, utts=utts, order=order)


NEW_PRONS = ["F AO R W ER D", "G OW", "T EH N", "M IY T ER Z", "HH AH L OW", "S T AA P", "AH", "W AH N T UW"]


# grammars / texts the decoder REFUSES (decoder_set_* returns -1 and keeps the old search, hypothesis and lattice)
_OOV = ["zzzqx", "qwrtzp", "notaword_"]
REFUSED_JSGF = {
    "oov-word": lambda w: f"#JSGF V1.0; grammar r; public <r> = go {w} ten ;",                  # refused by fsg_search_init (search construction)
    "oov-only": lambda w: f"#JSGF V1.0; grammar r; public <r> = {w} ;",
    "oov-in-alternative": lambda w: f"#JSGF V1.0; grammar r; public <r> = go ( forward | {w} ) [ ten ] ;",
    "no-public-rule": lambda w: "#JSGF V1.0; grammar r; <r> = go forward ;",                      # refused before decoder_set_fsg
    "syntax-error": lambda w: "#JSGF V1.0; grammar r; public <r> = go ( forward ;",
    "not-jsgf": lambda w: "go forward ten meters",
}
REFUSED_FSG = lambda w: f"FSG_BEGIN r\nNUM_STATES 3\nSTART_STATE 0\nFINAL_STATE 2\nTRANSITION 0 1 1.0 go\nTRANSITION 1 2 1.0 {w}\nFSG_END\n"


def gen_refused(rng):
    """one grammar-setting call that is refused (harness ops rjs / rjf / rfsg / ral): returns (op, kind)"""
    w = rng.choice(_OOV)
    api = rng.weighted([("rjs", 5), ("rfsg", 3), ("rjf", 2), ("ral", 2)])
    if api == "ral":
        return f"ral:{hx(rng.choice(['go ' + w, w, 'go forward ' + w + ' meters']))}", "align-text:unknown-word"
    if api == "rfsg":
        return f"rfsg:{hx(REFUSED_FSG(w))}", "fsg-file:oov-word"
    kind = rng.weighted([("oov-word", 5), ("oov-only", 2), ("oov-in-alternative", 2), ("no-public-rule", 1), ("syntax-error", 1), ("not-jsgf", 1)])
    if api == "rjf" and rng.chance(0.25):
        return "rjf:-", "jsgf-file:no-such-file"
    return f"{api}:{hx(REFUSED_JSGF[kind](w))}", ("jsgf-string:" if api == "rjs" else "jsgf-file:") + kind


def gen_calls(rng, after_end, stats=None):
    """a list of public calls that feed no audio and do not replace the search (harness cmd_calls); after the end of the
    utterance also grammar-setting calls that the decoder refuses (an accepted one replaces the search: not in this list)"""
    def word():
        return rng.choice(["_forward", "_go", "_x" + str(rng.range(0, 99)), "newword", "go(7)", "ten"])

    def one():
        k = rng.weighted([("hyp", 3), ("prob", 2), ("seg", 3), ("nb", 3), ("al", 2), ("json", 3), ("nf", 1), ("cmn0", 1), ("cmn1", 1),
                          ("setcmn", 1), ("cfg", 1), ("get", 1), ("time", 1), ("ref", 1), ("lat", 2), ("lw", 2), ("aw0", 3),
                          ("aw1", 6 if after_end else 0)])
        if k == "seg":
            return "seg" + str(rng.choice([0, 1, 2, 50]))
        if k == "nb":
            return "nb" + str(rng.choice([0, 1, 3, 20]))
        if k == "json":
            return "json" + str(rng.choice([0, 1, 2]))
        if k == "lw":
            return "lw:" + hx(rng.choice(["go", "forward", "nosuchword", "_forward"]))
        if k in ("aw0", "aw1"):
            return f"{k}:{hx(word())}:{hx(rng.choice(NEW_PRONS))}"
        return k
    return ",".join(one() for _ in range(rng.range(1, 6)))


def calls_case(rng, audios, stats=None):
    """a decode in which every lattice request is followed by public calls that feed no audio (queries, accessors,
    dictionary additions; after the end of the utterance also decoder_add_word(update=TRUE), which re-initialises the search)
    and by a second request: the cache clause quantifies over everything but new audio"""
    cs = gen_case(rng, audios, k=4)
    if rng.chance(0.5):
        cs = aim_case(rng, cs, audios, stats)
    if not cs["mids"]:
        cs["mids"] = [rng.range(8000, max(8001, cs["cut"] - 1))] if cs["cut"] > 8001 else []
    calls = {str(i): gen_calls(rng, False) for i in range(len(cs["mids"])) if rng.chance(0.7)}
    calls["end"] = gen_calls(rng, True, stats)
    if "aw1" not in calls["end"] and rng.chance(0.7):
        calls["end"] += f",aw1:{hx('_forward')}:{hx('F AO R W ER D')}" + rng.choice(["", ",hyp", ",nb1", ",lat"])
    # error / recovery path: grammar-setting calls the decoder REFUSES, spliced between the two requests after the end of the
    # utterance (0-3 of them at random positions among the other calls; sometimes alone).  Drawn from a side stream derived
    # from the generator state WITHOUT advancing it: the cases of every other family stay what they were for a given seed.
    r2 = vlib.Rng(rng.s ^ 0x9E3779B97F4A7C15).fork()
    nref = r2.weighted([(0, 2), (1, 5), (2, 2), (3, 1)])
    ops = [] if (nref and r2.chance(0.2)) else calls["end"].split(",")
    for _ in range(nref):
        op, kind = gen_refused(r2)
        if stats is not None:
            stats["cache:refused-grammar-generated:" + kind] = stats.get("cache:refused-grammar-generated:" + kind, 0) + 1
        ops.insert(r2.below(len(ops) + 1), op)
    calls["end"] = ",".join(ops)
    cs["calls"] = calls
    if rng.chance(0.5):
        cs["cfg"] = [o for o in cs["cfg"] if not o.startswith("bestpath")] + [rng.choice(["bestpath=no", "bestpath=yes"])]
    return cs


_PRON = {}


def pron_of(word):
    """pronunciation of a word of the model dictionary (first entry)"""
    if not _PRON:
        for line in (vlib.REPO / "model" / "en-us" / "dict.txt").read_text(errors="replace").split("\n"):
            t = line.split()
            if len(t) >= 2 and t[0] not in _PRON:
                _PRON[t[0]] = " ".join(t[1:])
    return _PRON.get(word)


def write_fsg(audios, fsg):
    """FSG text file (fsg_model_readfile) of a generated grammar with sparse / huge state numbers"""
    text = ["FSG_BEGIN big", f"NUM_STATES {fsg['n_states']}", f"START_STATE {fsg['start']}", f"FINAL_STATE {fsg['final']}"]
    text += [f"TRANSITION {f} {t} {pr} {w}" for (f, t, pr, w) in fsg["trans"]] + ["FSG_END", ""]
    body = "\n".join(text)
    import hashlib
    path = os.path.join(os.path.dirname(audios["pizza"]), "g-" + hashlib.sha1(body.encode()).hexdigest()[:16] + ".fsg")
    if not os.path.exists(path):
        open(path, "w").write(body)
    return path


def big_case(rng, audios, huge=False, short=False):
    """large-grammar family: an FSG whose state numbers are sparse and huge (around 2^15, 2^16, 2^16 + k, 2^17; the unused
    numbers are unreachable padding states), with two branches that differ in a HOMOPHONE (a word `_w` added to the dictionary with
    the pronunciation of `w`, so both branches end in the same frames), continue with the SAME word into two different grammar
    states — whose numbers are congruent modulo 2^16 or 2^15 — and then with different words: two lattice nodes with the same
    word and start frame and different grammar states coexist, and identifying them makes a path that is not a grammar path"""
    if rng.chance(0.7):
        ws, au = ["go", "forward", "ten", "meters"], "goforward"
    else:
        ws = [rng.choice(VOC[:14]) for _ in range(rng.range(3, 4))]
        au = rng.weighted([("goforward", 3), ("goforward_fr", 1)])
    i = rng.range(0, len(ws) - 2)                  # the word that gets a homophone; ws[i + 1] is the shared word
    if short:
        ws, au, i = ["go", "forward", "ten", "meters"], "goforward", rng.range(0, 1)
    hom = "_" + ws[i]
    alt_last = rng.choice([w for w in (["meter", "meet"] if ws[-1] == "meters" else VOC[:14]) if w != ws[-1]])
    # branch B after the shared word: the rest of the sentence with another last word (or one more word when nothing is left)
    rest_a = ws[i + 2:]
    rest_b = (rest_a[:-1] + [alt_last]) if rest_a else [alt_last]
    M = 1 << 16
    hi = [32767, 32768, 32769, 65535, 65536, 65537, 40000 + rng.range(0, 999), 65536 + rng.range(40, 999)]
    if huge:
        hi += [131071, 131072, 131073 + rng.range(0, 99)]
    used = set()

    def fresh(cands):
        for _ in range(200):
            x = cands()
            if x not in used:
                used.add(x)
                return x
        raise RuntimeError("state numbering")
    low = lambda: rng.range(0, 60)
    anyst = (lambda: rng.choice(hi)) if rng.chance(0.5) else low
    start = fresh(low if rng.chance(0.7) else anyst)
    final = fresh(low if rng.chance(0.5) else anyst)
    # the pair of states the shared word leads to: congruent modulo 2^16 (mostly) or 2^15
    delta = rng.weighted([(M, 6), (2 * M if huge else M, 2), (M // 2, 2)])
    while True:
        ka = rng.range(1, 60)
        if ka not in used and ka + delta not in used:
            break
    kb = ka + delta
    used.update([ka, kb])
    if rng.chance(0.5):
        ka, kb = kb, ka
    trans = []
    cur = start
    for w in ws[:i]:
        nx = fresh(low)
        trans.append((cur, nx, 1.0, w))
        cur = nx
    sa, sb = fresh(low), fresh(anyst)
    trans += [(cur, sa, 0.5, ws[i]), (cur, sb, 0.5, hom), (sa, ka, 1.0, ws[i + 1]), (sb, kb, 1.0, ws[i + 1])]

    def tail(st, words, to_final):
        for j, w in enumerate(words):
            nx = final if (j == len(words) - 1 and to_final) else fresh(anyst)
            trans.append((st, nx, 1.0, w))
            st = nx
        return st
    if rest_a:
        tail(ka, rest_a, True)
        tail(kb, rest_b, True)
    else:
        # the shared word is the last one of branch A: its target is the final state of A; B goes on
        final = ka
        tail(kb, rest_b, False)
    n_states = max(max(f, t) for (f, t, _, _) in trans) + 1 + rng.range(0, 3)
    n_states = max(n_states, final + 1, start + 1)
    cfg = list(BEAMS[rng.choice(["default", "default", "wide"])])
    if rng.chance(0.3):
        cfg.append("fsgusefiller=no")
    n = os.path.getsize(audios[au]) // 2
    if short:
        # last frames of "forward" / "ten" in tests/data/goforward.raw: 121 / 152; stop 8..40 frames after the shared word
        n = min(n, ([121, 152][i] + rng.range(8, 40)) * 160 + rng.range(0, 159))
    mids = sorted(rng.range(min(20000, n - 1), n) for _ in range(rng.range(0, 1)))
    return dict(grammar="(FSG file, see fsg)", kind="big-fsg", audio=au, cfg=cfg, cut=n, mids=mids, beam="default", k=4,
                addwords=[(hom, pron_of(ws[i]) or "G OW")],
                fsg=dict(n_states=n_states, start=start, final=final, trans=trans, congruent_pair=[ka, kb], homophone=hom))


def case_cmds(case, audios, bp=1):
    if case.get("utts"):
        cmds = ["newdec " + " ".join(case["cfg"]), "jsgf " + case["grammar"].encode().hex()]
        for u in case["utts"]:
            cmds += ["audio " + derive_audio(audios, u["audio"]), "start"]
            pos = 0
            for i, m in enumerate(u["mids"]):
                cmds += [f"proc {m - pos}", f"lat mid{i} {case['k']} {bp}"]
                pos = m
            cmds += [f"proc {u['cut'] - pos}", "end"]
            if u.get("end_request", True):
                cmds.append(f"lat end {case['k']} {bp}")
        return cmds
    cmds = ["newdec " + " ".join(case["cfg"])]
    # homophones / new words go into the dictionary before the grammar is compiled
    cmds += [f"addword {hx(w)} {hx(ph)} 0" for (w, ph) in case.get("addwords", [])]
    cmds += ["fsgfile " + write_fsg(audios, case["fsg"]) if case.get("fsg") else "jsgf " + case["grammar"].encode().hex(),
             "audio " + audios[case["audio"]], "start"]
    pos = 0
    ops = " " + case["ops"] if case.get("ops") else ""
    calls = case.get("calls") or {}     # request index ("0", "1", .. / "end") -> non-audio calls made after that request
    if case.get("full"):
        # everything searched inside one full_utt call: request the lattice on both sides of decoder_end_utt
        cmds += [f"procfull {case['cut']}", f"lat pre {min(case['k'], 200)} {bp}{ops}", "end", f"lat end {case['k']} {bp}{ops}"]
        return cmds
    for i, m in enumerate(case["mids"]):
        if case.get("sweep"):
            cmds += [f"proc {m - pos}", f"lat mid{i} 0 2"]      # light request (no history dump, no search passes)
        else:
            cmds += [f"proc {m - pos}", f"lat mid{i} {min(case['k'], 200)} {bp}{ops}"]
            if calls.get(str(i)):
                # public calls that feed no audio, then the lattice again (light request): must be the same object
                cmds += ["calls " + calls[str(i)], f"lat again{i} 0 2"]
        pos = m
    cmds += [f"proc {case['cut'] - pos}", "end", f"lat end {case['k']} {bp}{ops}"]
    if calls.get("end"):
        cmds += ["calls " + calls["end"], f"lat againend {min(case['k'], 8)} {bp}"]
    return cmds


# --------------------------------------------------------------------------------------------
# dump parser

def kv(ws):
    d = {}
    for t in ws:
        k, v = t.split("=")
        try:
            d[k] = int(v)
        except ValueError:
            d[k] = float(v)
    return d


def parse(out):
    """list of lattice dumps of one harness run"""
    res, cur, utt = [], None, -1
    trace, pending = [], []          # cache trace (Z lines) of the current decoder; requests made outside a dump
    for line in out.split("\n"):
        w = line.split()
        if not w:
            continue
        if w[0] == "newdec":
            trace, pending = [], []
        if w[0] == "Z" and len(w) == 4:
            trace.append((w[1], int(w[2]), int(w[3])))
            if w[1] == "decoder_lattice":
                (cur["Zreq"] if cur is not None else pending).append(len(trace) - 1)
            continue
        if w[0] == "start" and len(w) == 2 and cur is None:
            utt += 1
        if w[0] == "LAT" and w[1] == "begin":
            cur = {"utt": max(utt, 0), "tag": w[2], "final": int(w[3].split("=")[1]), "frame": int(w[4].split("=")[1]), "nodes": [], "links": [],
                   "entries": {}, "X": [], "B": [], "BX": {}, "R": {}, "PX": [], "fsgW": {}, "fsgA": [], "hist": [],
                   "null": False, "T": None, "trace": trace, "Zreq": pending}
            pending = []
        elif cur is None:
            continue
        elif w[0] == "LAT" and w[1] == "null":
            cur["null"] = True
            cur["again"] = w[2].split("=")[1]
        elif w[0] == "LAT" and w[1] == "end":
            mark_stale_history(cur)
            res.append(cur)
            cur = None
        elif w[0] == "H":
            cur["hyp"] = unhx(w[1])
            cur["hypscore"] = int(w[2])
        elif w[0] == "X":
            cur["X"].append((unhx(w[2]), int(w[3]), int(w[4]), int(w[5]), int(w[6])))
        elif w[0] == "G":
            cur["G"] = kv(w[1:])
        elif w[0] == "N":
            cur["nodes"].append(dict(word=unhx(w[2]), base=unhx(w[3]), fil=int(w[4]), sf=int(w[5]), fef=int(w[6]), lef=int(w[7]),
                                     sf2=int(w[8]), fef2=int(w[9]), lef2=int(w[10]), state=int(w[11]), id=int(w[12]),
                                     nex=int(w[13]), nen=int(w[14])))
        elif w[0] == "L":
            cur["links"].append(dict(src=int(w[2]), dst=int(w[3]), src2=int(w[4]), dst2=int(w[5]), ef=int(w[6]), ef2=int(w[7]),
                                     sf=int(w[8]), ascr=int(w[9])))
        elif w[0] == "I":
            cur["entries"][int(w[1])] = [int(t) for t in w[2:]]
        elif w[0] == "F":
            cur["F"] = [int(t) for t in w[1:]]
        elif w[0] == "W":
            cur["fsgW"][int(w[1])] = (unhx(w[2]), int(w[3]), int(w[4]), int(w[5]))
        elif w[0] == "A":
            cur["fsgA"].append((int(w[2]), int(w[3]), int(w[4])))
        elif w[0] == "E":
            cur["hist"].append(tuple(int(t) for t in w[1:]) if w[2] != "missing" else None)
        elif w[0] == "Y":
            cur["Y"] = kv(w[1:])
        elif w[0] == "T":
            cur["T"] = [int(t) for t in w[1:]]
        elif w[0] == "M":
            cur["M"] = kv(w[1:])
        elif w[0] == "B":
            cur["B"].append(dict(score=int(w[2]), hyp=unhx(w[3]), nodes=[int(t) for t in w[5:]]))
        elif w[0] == "BX":
            cur["BX"].setdefault(int(w[1]), []).append((unhx(w[3]), int(w[4]), int(w[5])))
        elif w[0] == "BN":
            cur["BN"] = dict(n=int(w[1]), **kv(w[2:]))
        elif w[0] == "P":
            cur["P"] = kv(w[1:])
        elif w[0] == "Q":
            cur["Q"] = kv(w[1:])
        elif w[0] == "R":
            cur["R"][int(w[1])] = dict(path_scr=int(w[2]), prev=int(w[3]), alpha=int(w[4]), beta=int(w[5]), post=int(w[6]), ascr=int(w[7]), scaled=int(w[8]) if len(w) > 8 else None)
        elif w[0] == "PX":
            cur["PX"].append((unhx(w[2]), int(w[3]), int(w[4])))
        elif w[0] == "PH":
            cur["PH"] = unhx(w[1])
        elif w[0] == "KU":
            cur["KU"] = kv(w[1:])
        elif w[0] == "K":
            cur["K"] = kv(w[1:])
        elif w[0] == "S":
            cur["same_after"] = int(w[1].split("=")[1])
        elif w[0] == "HO":
            cur.setdefault("hist_ops", []).append(dict(step=int(w[1]), op=w[2]))
        elif w[0] in ("HB", "HP", "HT"):
            cur["hist_ops"][-1].update(kv(w[2:]))
        elif w[0] in ("HS", "HV", "HA", "HE", "HN"):
            cur["hist_ops"][-1][w[0]] = [int(t) for t in w[2:]]
    return res


# --------------------------------------------------------------------------------------------
# cache trace: the public calls the harness made, in order (Z lines); classification mirrors Model/LatticeCache
# (`Call.ofApi`, evaluated by the driver on the same names: the two must agree, see cache_trace_check)

AUDIO_API = {"decoder_process_int16", "decoder_process_float32", "decoder_end_utt"}
RESTART_API = {"decoder_start_utt", "decoder_set_fsg", "decoder_set_jsgf_file", "decoder_set_jsgf_string", "decoder_set_align_text",
               "decoder_reinit", "decoder_reinit_feat"}


def quiet_event(ev):
    """no audio searched, no new utterance, search not replaced"""
    name, arg, _ = ev
    if name in AUDIO_API:
        return arg == 0
    return name not in RESTART_API


def mark_stale_history(d):
    """a request that returns an object built BEFORE a decoder_add_word(update=TRUE): fsg_search_reinit has emptied the
    history table since, so the dumped table is not what the lattice was built from (no build correspondence there)"""
    tr = d["trace"]
    # the dump's OWN request (the last one recorded: `lat` ops of a preceding `calls` line are attributed to this dump too and come
    # first, possibly before the add_word)
    for i in d["Zreq"][-1:]:
        obj = tr[i][2]
        if obj < 0:
            return
        first = next(j for j in range(len(tr)) if tr[j][0] == "decoder_lattice" and tr[j][2] == obj)
        if any(tr[j][0] == "decoder_add_word_update" for j in range(first, i)):
            d["nohist"] = True
            d["stale_hist"] = True


def trace_requests(d):
    """for every explicit request of this dump: (index, index of the previous request or None, calls in between,
    all of them quiet?)"""
    tr, res = d["trace"], []
    for i in d["Zreq"]:
        j = i - 1
        while j >= 0 and tr[j][0] != "decoder_lattice":
            j -= 1
        if j < 0:
            res.append((i, None, [], False))
            continue
        between = tr[j + 1:i]
        res.append((i, j, [e[0] for e in between], all(quiet_event(e) for e in between)))
    return res


def cache_trace_check(trace):
    """run the model (`Sess.init.outputs`, `quietFlags`) on the trace of one decoder; returns (mismatch or None, #requests)"""
    lines, reqs = [], []
    for (name, arg, obj) in trace:
        if name == "decoder_lattice":
            lines.append(f"z {name} {1 if obj >= 0 else 0}")
            reqs.append(obj)
        else:
            if arg < 0:
                return f"call {name} moved the search frame count by {arg}", len(reqs)
            lines.append(f"z {name} {arg}")
    if not reqs:
        return None, 0
    rc, out, err = vlib.run_driver("c11", "\n".join(lines) + "\nzrun\n", timeout=120)
    ids = quiet = None
    for line in out.split("\n"):
        w = line.split()
        if w and w[0] == "cachetrace":
            if len(w) > 1 and w[1] == "unknown-call":
                names = sorted(set(e[0] for e in trace))
                return f"the model's Call.ofApi does not classify one of the calls {names}", len(reqs)
            ids = [int(t) for t in w[1:]]
        elif w and w[0] == "quiet":
            quiet = [int(t) for t in w[1:]]
    if rc != 0 or ids is None or quiet is None:
        return f"driver failed on the cache trace: rc={rc} {err[-300:]}", len(reqs)
    if ids != reqs:
        k = next((i for i in range(min(len(ids), len(reqs))) if ids[i] != reqs[i]), min(len(ids), len(reqs)))
        return (f"lattice request #{k} of the call trace: the model's cache hands out object {ids[k] if k < len(ids) else '?'}, the implementation "
                f"returned {'NULL' if k < len(reqs) and reqs[k] < 0 else 'object ' + str(reqs[k] if k < len(reqs) else '?')} "
                f"(model {ids[:k + 1][-6:]}, implementation {reqs[:k + 1][-6:]}; objects numbered in order of creation)"), len(reqs)
    # the hypothesis of C11_cache_same_object_after_calls as the python oracle computes it
    pyq, q = [], True
    for ev in trace:
        if ev[0] == "decoder_lattice":
            pyq.append(1 if q else 0)
            q = True
        else:
            q = q and quiet_event(ev)
    if pyq != quiet:
        return f"quiet flags differ: model {quiet[-8:]}, python oracle {pyq[-8:]}", len(reqs)
    return None, len(reqs)


# --------------------------------------------------------------------------------------------
# driver protocol

def intern_words(d):
    """word string -> symbol id, shared by lattice nodes and FSG arcs"""
    tab = {}

    def sym(w):
        if w not in tab:
            tab[w] = len(tab)
        return tab[w]
    for k in sorted(d["fsgW"]):
        sym(d["fsgW"][k][0])
    for n in d["nodes"]:
        sym(n["word"])
    for x in d["X"]:
        sym(x[0])
    sym("<s>")
    sym("</s>")
    return tab


def real_segs(d):
    return [x for x in d["X"] if x[0] not in ("(NULL)", None)]


def driver_block(d, k, with_build=True):
    """driver input lines for one lattice dump"""
    tab = intern_words(d)
    lines = []
    if d["null"]:
        lines.append("begin 0 0 0")
    else:
        G = d["G"]
        lines.append(f"begin {G['nframes']} {G['start']} {G['end']}")
        for n in d["nodes"]:
            lines.append(f"n {tab[n['word']]} {n['sf']} {n['fef']} {n['lef']} {n['state']}")
        for l in d["links"]:
            lines.append(f"l {l['src']} {l['dst']} {l['ef']} {l['ascr']}")
    lines.append(f"g {d['F'][0]}")
    arcs = d["fsgA"]
    if len(arcs) > 20000:
        # huge FSG (tens of thousands of padding states, each with its filler self-loops): the model only ever follows arcs out of
        # states that occur in the dump (start state, states of lattice nodes and history entries) and one null hop from them;
        # send the arcs leaving the null-closure of those states
        keep = {d["F"][0]} | {n["state"] for n in d["nodes"]} | {x for h in d["hist"] if h for x in (h[2], h[3])}
        nullto = {}
        for (f, t, w) in arcs:
            if w < 0:
                nullto.setdefault(f, set()).add(t)
        todo = list(keep)
        while todo:
            for t in nullto.get(todo.pop(), ()):
                if t not in keep:
                    keep.add(t)
                    todo.append(t)
        arcs = [a for a in arcs if a[0] in keep]
        d["arcs_sent"] = len(arcs)
    for (f, t, w) in arcs:
        lines.append(f"a {f} {tab[d['fsgW'][w][0]] if w >= 0 else -1} {t}")
    segs = real_segs(d)
    if segs and not d["null"]:
        lines.append("segs")
        for (w, sf, ef, _, _) in segs:
            lines.append(f"s {tab[w]} {sf} {ef}")
    if with_build and not d.get("nohist"):
        for h in d["hist"]:
            if h is None:
                lines.append("h -1 -1 -1 0 0 0")
                continue
            (_, li, f, t, w, frame, score, pred) = h
            lines.append(f"h {f if li != -1 else -1} {tab[d['fsgW'][w][0]] if w >= 0 else -1} {t} {frame} {score} {pred}")
        fillers = [tab[v[0]] for v in d["fsgW"].values() if v[2]]
        sil = [tab[v[0]] for v in d["fsgW"].values() if v[3]]
        lines.append(f"b {d['frame']} {tab['<s>']} {tab['</s>']} {sil[0] if sil else 999999} {d['Y']['silpen']} {d['Y']['fillpen']} "
                     + " ".join(str(x) for x in fillers))
    if not d["null"] and d.get("R") and all(r.get("scaled") is not None for r in d["R"].values()) and len(d["R"]) == len(d["links"]) \
            and len(d["links"]) <= MAX_LINKS_INT:
        lines.append("c " + " ".join(str(d["R"][j]["scaled"]) for j in range(len(d["links"]))))
        lines.append("e " + " ".join(str(j) for j in d["entries"].get(d["G"]["end"], [])))
    lines.append(f"run {k}" if d["null"] or len(d["links"]) <= MAX_LINKS_MODEL else f"runlight {k}")
    return lines, tab


def parse_driver(out):
    """list of reports (one per `run`)"""
    reps, cur = [], None
    for line in out.split("\n"):
        w = line.split()
        if not w:
            continue
        if cur is None:
            cur = {"nbest": [], "bn": [], "bl": []}
        if w[0] == "end":
            reps.append(cur)
            cur = None
        elif w[0] == "bad-input":
            cur["bad"] = True
        elif w[0] == "clauses":
            cur["clauses"] = kv(w[1:])
        elif w[0] == "firstbest":
            cur["firstbest"] = w[1]
            if w[1] == "found":
                cur["fb_checked"] = int(w[2].split("=")[1])
                cur["fb_path"] = [int(t) for t in w[3:]]
        elif w[0] == "traverse":
            cur["traverse"] = None if (len(w) > 1 and w[1] == "skipped") else [int(t) for t in w[1:]]
            cur["skipped"] = len(w) > 1 and w[1] == "skipped"
        elif w[0] == "best":
            cur["best"] = None if w[1] == "none" else dict(link=int(w[1]), score=int(w[2]), chain=[int(t) for t in w[3:]])
        elif w[0] == "rem":
            cur["rem"] = [int(t) for t in w[1:]]
        elif w[0] in ("alpha", "beta"):
            cur[w[0]] = [int(t) for t in w[1:]]
        elif w[0] == "norm":
            cur["norm"] = int(w[1])
        elif w[0] == "p":
            cur["nbest"].append(dict(score=int(w[1]), nodes=[int(t) for t in w[2:]]))
        elif w[0] == "chain":
            cur["chain"] = dict(found=(w[1] == "found"), **({k: int(v) for k, v in (t.split("=", 1) for t in w[2:])} if w[1] == "found" else {}))
        elif w[0] == "histwf":
            cur["histwf"] = dict(ok=int(w[1]), **{k: v for k, v in (t.split("=", 1) for t in w[2:])})
        elif w[0] == "built":
            if w[1] == "skipped":
                cur["built"] = "skipped"
            elif w[1] == "none":
                cur["built"] = None
            else:
                cur["built"] = dict(nframes=int(w[1]), start=int(w[2]), final=int(w[3]), ok=int(w[6].split("=")[1]))
        elif w[0] == "bn":
            cur["bn"].append(tuple(int(t) for t in w[1:]))
        elif w[0] == "bl":
            cur["bl"].append(tuple(int(t) for t in w[1:]))
    return reps


def sweep_case(rng, audios, grammar, audio, cfg, cut_after_frame=None, step_frames=8, kind="sweep"):
    """one decode with a lattice request every `step_frames` frames (light requests) and a full request at the end;
    `cut_after_frame`: stop the audio shortly after that frame (an utterance cut off just after a word)"""
    n = os.path.getsize(audios[audio]) // 2
    cut = n if cut_after_frame is None else min(n, (cut_after_frame + 1 + rng.range(0, 20)) * 160 + rng.range(0, 159))
    first = rng.range(1, step_frames) * 160
    mids = list(range(first, cut, step_frames * 160 + rng.range(0, 40)))
    return dict(grammar=grammar, kind=kind, audio=audio, cfg=list(cfg), cut=cut, mids=mids, beam="default" if not cfg else "other", k=8, sweep=True)


def run_case(binp, case, audios, timeout=600):
    cmds = case_cmds(case, audios)
    # other checks running concurrently may prune the build cache: make sure the binary is there
    # (a cache hit costs a tree hash and touches the directory)
    pre = case.pop("_pre", None)          # harness run started ahead of time (check(): the slow large-grammar decodes)
    if pre is not None:
        try:
            rc, out, err = pre.result()
        except Exception:
            pre = None
    for attempt in range(3 if pre is None else 0):
        try:
            binp = vlib.build_harness("h_c11")
            rc, out, err = vlib.run_bin(binp, stdin_text="\n".join(cmds) + "\n", leaks=True, timeout=timeout)
            break
        except FileNotFoundError:
            if attempt == 2:
                raise
    lats = parse(out)
    if case.get("sweep"):
        for d in lats:
            if d["tag"] != "end":
                d["nohist"] = True
    for d in lats:
        if d["tag"].startswith("again") and d["tag"] != "againend":
            d["nohist"] = True          # light request (bp = 2)
    return rc, out, err, lats


def run_driver(lats, k, with_build=True):
    text, tabs = [], []
    for d in lats:
        kk = k if d["tag"] == "end" else min(k, 200)
        lines, tab = driver_block(d, kk, with_build)
        text += lines
        tabs.append(tab)
    rc, out, err = vlib.run_driver("c11", "\n".join(text) + "\n", timeout=900)
    return rc, parse_driver(out), err, tabs


# --------------------------------------------------------------------------------------------
# python-side helpers (independent second implementation, used to cross-check the driver's
# *negative* answers and to classify witnesses)

def adjacency(d):
    N, L = d["nodes"], d["links"]
    exits = {i: [] for i in range(len(N))}
    entries = {i: [] for i in range(len(N))}
    for j, l in enumerate(L):
        if 0 <= l["src"] < len(N) and 0 <= l["dst"] < len(N):
            exits[l["src"]].append(j)
            entries[l["dst"]].append(j)
    return exits, entries


def py_first_best(d):
    """independent search: is the first-best segmentation a start->end path?"""
    N, L, G = d["nodes"], d["links"], d["G"]
    s, e = G["start"], G["end"]
    exits, entries = adjacency(d)
    X = [x[:3] for x in real_segs(d)]
    if not X:
        return True
    smark = N[s]["state"] == -1
    cands = None
    for k, (w, sf, ef) in enumerate(X):
        mine = [i for i, n in enumerate(N) if n["word"] == w and n["sf"] == sf and n["state"] != -1 and n["fef"] <= ef <= n["lef"]]
        if k == 0:
            c2 = [i for i in mine if i == s or (smark and any(L[j]["dst"] == i for j in exits[s]))]
        else:
            pef = X[k - 1][2]
            c2 = [i for i in mine if any(L[j]["src"] in cands and L[j]["ef"] == pef and N[L[j]["src"]]["state"] != -1 for j in entries[i])]
        cands = c2
        if not cands:
            return False
    ef = X[-1][2]
    return any((i == e or any(L[j]["dst"] == e and N[e]["state"] == -1 for j in exits[i])) and N[i]["lef"] == ef for i in cands)


def classify_first_best(d):
    """witness class of a first-best-not-in-lattice violation (key for known_findings.json)"""
    X = real_segs(d)
    lastexit = max((n["lef"] for n in d["nodes"] if n["state"] != -1), default=-1)
    hist_last = max((h[5] for h in d["hist"] if h and h[4] >= 0), default=-1)
    if len(X) == 1 and X[0][1] == 0:
        return "first-best-not-in-lattice:single-word-path"
    if hist_last < d["frame"] - 1:
        return "first-best-not-in-lattice:last-exit-frame-tie"
    return "first-best-not-in-lattice:other"


def canon_lattice_c(d, tab):
    """canonical form of the C lattice: sorted node tuples and link tuples keyed by node tuples"""
    nodes = [(tab[n["word"]], n["sf"], n["fef"], n["lef"], n["state"]) for n in d["nodes"]]
    links = sorted((nodes[l["src"]], nodes[l["dst"]], l["ef"], l["ascr"]) for l in d["links"])
    return dict(nframes=d["G"]["nframes"], start=nodes[d["G"]["start"]], final=nodes[d["G"]["end"]], nodes=sorted(nodes), links=links)


def canon_lattice_m(rep):
    nodes = [tuple(x) for x in rep["bn"]]
    links = sorted((nodes[a], nodes[b], ef, ascr) for (a, b, ef, ascr) in rep["bl"])
    b = rep["built"]
    return dict(nframes=b["nframes"], start=nodes[b["start"]], final=nodes[b["final"]], nodes=sorted(nodes), links=links)


# --------------------------------------------------------------------------------------------

def lat_stats(stats, d, case):
    def inc(k, by=1):
        stats[k] = stats.get(k, 0) + by
    if case.get("sweep") and d["tag"] != "end":
        inc("request:light-sweep-position")
    inc(f"grammar:{case['kind']}")
    inc(f"beam:{case['beam']}")
    inc(f"audio:{case['audio']}")
    inc("request:" + ("end" if d["tag"] == "end" else "before-end-of-full_utt-decode" if d["tag"] == "pre" else "mid"))
    if d["null"]:
        inc("lattice:NULL")
        return
    N = d["nodes"]
    G = d["G"]
    sm = N[G["start"]]["state"] == -1
    em = N[G["end"]]["state"] == -1
    inc(f"start:{'<s>' if sm else 'word'}/end:{'</s>' if em else 'word'}")
    inc("hyp:" + ("some" if d["hyp"] else "none"))
    if len(N) == 1:
        inc("lattice:single-node")
    lastexit = max((n["lef"] for n in N if n["state"] != -1), default=-1)
    if lastexit < G["nframes"] - 1:
        inc("lattice:last-exit-before-last-frame")
    if d["final"] and not d["hyp"]:
        inc("final-state-not-reached-or-no-word")
    # which branches of fsg_search_lattice / the model's buildLattice this request went through
    if G.get("n_nodes_field", len(N)) > len(N) + (1 if sm else 0) + (1 if em else 0) - 2 * 0 and G.get("n_nodes_field", 0) > len(N):
        inc("branch:unreachable-nodes-deleted")
    if any(n["fef"] < n["lef"] for n in N if n["state"] != -1):
        inc("branch:new_node-updates-existing-node")
    if any(N[l["dst"]]["fil"] and l["dst"] not in (G["start"], G["end"]) for l in d["links"] if 0 <= l["dst"] < len(N)):
        inc("branch:filler-penalty-applied")
    if not em and N[G["end"]]["lef"] < G["nframes"] - 1:
        inc("branch:end-node-before-last-frame")
    if sum(1 for n in N if n["sf"] == 0) > 1:
        inc("branch:several-frame-0-nodes(A*-seeds)")
    nulls = sum(1 for h in d["hist"] if h and h[1] >= 0 and h[4] < 0)
    if nulls:
        inc("branch:history-has-null-transition-entries")
    b = len(N)
    inc("nodes:" + ("1" if b == 1 else "2-9" if b < 10 else "10-49" if b < 50 else "50+"))
    b = len(d["links"])
    inc("links:" + ("0" if b == 0 else "1-19" if b < 20 else "20-199" if b < 200 else "200+"))


def judge_c11(c, d, rep, tab, case, stats):
    """implementation-side oracle + correspondence for one lattice; returns list of (what, found_input, key)"""
    probs = []
    if rep.get("bad"):
        probs.append(("lattice dump has negative indices/times", True, None))
        return probs
    # cache clause over the call trace: a request after calls that searched no audio returns the object of the request before
    for (i, j, between, quiet) in trace_requests(d):
        if j is None or not quiet:
            continue
        tr = d["trace"]
        extra = [b for b in between if b not in ("decoder_hyp", "decoder_seg_iter")]
        for b in set(extra):
            stats["cache:call-between-two-requests:" + b] = stats.get("cache:call-between-two-requests:" + b, 0) + 1
        if extra:
            stats["cache:second-request-after-other-public-calls"] = stats.get("cache:second-request-after-other-public-calls", 0) + 1
        if any(b.endswith("_refused") for b in extra):
            stats["cache:second-request-after-refused-grammar"] = stats.get("cache:second-request-after-refused-grammar", 0) + 1
        if "decoder_add_word_update" in extra:
            stats["cache:second-request-after-add_word-update"] = stats.get("cache:second-request-after-add_word-update", 0) + 1
        if tr[j][2] >= 0 and tr[i][2] != tr[j][2]:
            probs.append((f"asking for the lattice again without new audio returned {'NULL' if tr[i][2] < 0 else 'a different object'}: "
                          f"calls between the two requests (no frame searched): {between}; frame count {tr[j][1]} then {tr[i][1]}", True, None))
    if d["null"]:
        nw = sum(1 for h in d["hist"] if h and h[4] >= 0)
        if d.get("again") != "null":
            probs.append(("second request after a NULL lattice returned an object", True, None))
        # (no lattice although the model builds one is a correspondence mismatch, see judge_build)
        return probs
    G = d["G"]
    if G["same"] != 1 or d.get("same_after", 1) != 1:
        probs.append(("second lattice request without new audio returned a different object", True, None))
    if d.get("utt", 0) > 0:
        stats["request:in-a-later-utterance-of-the-same-decoder"] = stats.get("request:in-a-later-utterance-of-the-same-decoder", 0) + 1
        if d.get("KU") and d["KU"]["prev_frames"] == G["nframes"]:
            stats["cache:same-frame-count-as-the-last-lattice-of-the-previous-utterance"] = \
                stats.get("cache:same-frame-count-as-the-last-lattice-of-the-previous-utterance", 0) + 1
    if d.get("KU") and d["KU"]["stale_previous_utterance"] == 1:
        probs.append((f"the lattice returned in utterance {d['utt'] + 1} ({d['tag']}, {G['nframes']} frames) is the object built for the previous utterance "
                      f"on this decoder: it does not describe this utterance", True, None))
    K = d.get("K")
    if K and K["held_frames"] == K["now_frames"]:
        stats["cache:request-at-unchanged-frame-count-after-other-calls"] = stats.get("cache:request-at-unchanged-frame-count-after-other-calls", 0) + 1
        if d["tag"] == "end":
            stats["cache:same-frame-count-across-decoder_end_utt"] = stats.get("cache:same-frame-count-across-decoder_end_utt", 0) + 1
        if K["same_as_held"] != 1:
            probs.append((f"the lattice request {'after decoder_end_utt' if d['tag'] == 'end' else 'at ' + d['tag']} returned a different object than the previous request "
                          f"although no frame was searched in between ({K['now_frames']} frames both times)", True, None))
    if G["nframes"] != d["frame"] or G["api_nframes"] != G["nframes"]:
        probs.append((f"lattice frame count {G['nframes']} != search frame count {d['frame']}", True, None))
    for i, n in enumerate(d["nodes"]):
        if (n["sf"], n["fef"], n["lef"]) != (n["sf2"], n["fef2"], n["lef2"]):
            probs.append((f"node {i}: iterator API times differ from the fields", True, None))
    for j, l in enumerate(d["links"]):
        if (l["src"], l["dst"], l["ef"]) != (l["src2"], l["dst2"], l["ef2"]):
            probs.append((f"link {j}: iterator API endpoints/times differ from the fields", True, None))
        if 0 <= l["src"] < len(d["nodes"]) and l["sf"] != d["nodes"][l["src"]]["sf"]:
            probs.append((f"link {j}: latlink_times start frame differs from the source node", True, None))
    exits, entries = adjacency(d)
    for i in range(len(d["nodes"])):
        if sorted(entries[i]) != sorted(d["entries"].get(i, [])):
            probs.append((f"entry list of node {i} is not the set of links whose target it is", True, None))
    cl = rep["clauses"]
    if cl["ok"] != 1:
        bad = [k for k, v in cl.items() if v == 0 and k != "ok"]
        probs.append((f"latticeOKB = false on the implementation's lattice: clauses {bad}", True, None))
    segs = real_segs(d)
    if segs:
        pyfb = py_first_best(d)
        if rep["firstbest"] == "found" and rep.get("fb_checked") == 1:
            stats["firstbest:on-path"] = stats.get("firstbest:on-path", 0) + 1
            if not pyfb:
                c.oblige("driver and python first-best searches agree", False, {"case": case, "tag": d["tag"]})
        else:
            if pyfb:
                c.oblige("driver and python first-best searches agree", False, {"case": case, "tag": d["tag"]})
            else:
                probs.append((f"first-best segmentation {[x[:3] for x in segs]} is not a start->end path of the lattice",
                              True, classify_first_best(d)))
    else:
        stats["firstbest:no-word-segment"] = stats.get("firstbest:no-word-segment", 0) + 1
    return probs


def judge_build(c, d, rep, tab):
    """correspondence buildLattice = fsg_search_lattice (canonically sorted); returns mismatch description or None"""
    if rep.get("bad") or rep.get("built") == "skipped":
        return None
    if d["null"]:
        return None if rep["built"] is None else "model builds a lattice, implementation returns NULL"
    if rep["built"] is None:
        return "implementation builds a lattice, model returns none"
    a, b = canon_lattice_c(d, tab), canon_lattice_m(rep)
    if a != b:
        for k in ("nframes", "start", "final", "nodes", "links"):
            if a[k] != b[k]:
                if isinstance(a[k], list):
                    only_c = [x for x in a[k] if x not in b[k]][:3]
                    only_m = [x for x in b[k] if x not in a[k]][:3]
                    return f"{k} differ: only in C {only_c}, only in model {only_m}"
                return f"{k} differ: C {a[k]} model {b[k]}"
    return None


def shrink_case(c, binp, audios, case, tag, still_fails, budget=12):
    """smaller case on which `still_fails(case) -> bool` holds: drop config options, other mid requests, shorten"""
    best = dict(case)
    tests = 0

    def attempt(cand):
        nonlocal best, tests
        if tests >= budget:
            return False
        tests += 1
        try:
            if still_fails(cand):
                best = cand
                return True
        except Exception:
            pass
        return False
    # keep only the request that failed
    if tag.startswith("mid"):
        i = int(tag[3:])
        m = case["mids"][i]
        attempt(dict(best, mids=[], cut=m))
    else:
        attempt(dict(best, mids=[]))
    for opt in list(best["cfg"]):
        attempt(dict(best, cfg=[o for o in best["cfg"] if o != opt]))
    return best


def eval_case(c, binp, audios, case, stats, with_build=True):
    """run one case; returns (problems per lattice, correspondence mismatches, harness failure)"""
    rc, out, err, lats = run_case(binp, case, audios)
    if rc != 0:
        return None, None, dict(rc=rc, stderr=err[-2500:], stdout_tail=out[-600:])
    rcd, reps, derr, tabs = run_driver(lats, case["k"], with_build)
    if rcd != 0 or len(reps) != len(lats):
        return None, None, dict(driver_rc=rcd, stderr=derr[-1500:], nrep=len(reps), nlat=len(lats))
    res, mism = [], []
    if with_build and lats:
        cm, nreq = cache_trace_check(lats[-1]["trace"])
        if stats is not None:
            stats["cache:requests-compared-with-the-cache-model(Sess.outputs)"] = stats.get("cache:requests-compared-with-the-cache-model(Sess.outputs)", 0) + nreq
        if cm:
            mism.append(("cache-trace", cm))
    for d, rep, tab in zip(lats, reps, tabs):
        if stats is not None:
            lat_stats(stats, d, case)
        res.append((d, rep, tab, judge_c11(c, d, rep, tab, case, stats if stats is not None else {})))
        mm = judge_build(c, d, rep, tab) if with_build else None
        if mm:
            mism.append((d["tag"], mm))
        hw = rep.get("histwf")
        if hw is not None and stats is not None:
            # hypothesis of C11_build_latticeOK (Props/C11Build): evaluated by the driver on the dumped history table
            stats["hyp:HistWF-evaluated-on-dumped-history-tables"] = stats.get("hyp:HistWF-evaluated-on-dumped-history-tables", 0) + 1
            stats["hyp:HistWF-history-entries-covered"] = stats.get("hyp:HistWF-history-entries-covered", 0) + int(hw.get("entries", 0))
            stats["hyp:HistWF-word-entries-covered"] = stats.get("hyp:HistWF-word-entries-covered", 0) + int(hw.get("word", 0))
            if str(hw.get("extra", "1")) != "1" or str(hw.get("wframe", "1")) != "1":
                stats["hyp:extraB-FAILED"] = stats.get("hyp:extraB-FAILED", 0) + 1
            if not hw["ok"]:
                stats["hyp:HistWF-FAILED"] = stats.get("hyp:HistWF-FAILED", 0) + 1
                fails = getattr(c, "_histwf_fail", [])
                fails.append(dict(case=describe(case), request=d["tag"], n_frames=d["frame"], bad_entry_indices=hw.get("bad"),
                                  entries=[h for h in d["hist"]][:40]))
                c._histwf_fail = fails
            ch = rep.get("chain")
            if ch is not None and not d["null"]:
                # hypothesis of C11_build_first_best: the first-best segmentation is a complete backtrace of the dumped table
                stats["hyp:ChainOK-evaluated-on-first-best-segmentations"] = stats.get("hyp:ChainOK-evaluated-on-first-best-segmentations", 0) + 1
                if not (ch["found"] and ch.get("ok") == 1):
                    stats["hyp:ChainOK-FAILED"] = stats.get("hyp:ChainOK-FAILED", 0) + 1
                    fails = getattr(c, "_chain_fail", [])
                    fails.append(dict(case=describe(case), request=d["tag"], n_frames=d["frame"], first_best=[x[:3] for x in real_segs(d)]))
                    c._chain_fail = fails
            if rep.get("built") not in (None, "skipped") and not rep["built"]["ok"]:
                stats["hyp:model-lattice-fails-LatticeOK"] = stats.get("hyp:model-lattice-fails-LatticeOK", 0) + 1
    return res, mism, None


def describe(case):
    if case.get("utts"):
        return dict(grammar=case["grammar"], config=case["cfg"], nbest=case["k"], one_decoder_utterances=[
            dict(audio=(u["audio"] if isinstance(u["audio"], str) else
                        f"{u['audio']['n']} samples derived from tests/data/{u['audio']['base']}: {u['audio']['kind']} {u['audio']['param']}"),
                 samples_fed=u["cut"], lattice_requests_after_samples=u["mids"] + (["end"] if u.get("end_request", True) else [])) for u in case["utts"]])
    extra = {}
    if case.get("fsg"):
        extra["grammar_fsg"] = case["fsg"]
        extra["words_added_before_the_grammar(decoder_add_word, update=FALSE)"] = case.get("addwords", [])
    if case.get("calls"):
        extra["public_calls_after_request_then_a_second_request(harness cmd_calls syntax, arguments in hex)"] = case["calls"]
    return dict(grammar=case["grammar"], audio=f"tests/data/{case['audio']}" + (".raw" if case["audio"] != "pizza" else "-float32.raw (converted to int16)"),
                config=case["cfg"], samples_fed=case["cut"], nbest=case["k"],
                lattice_requests_after_samples=(["all samples in one decoder_process_int16(full_utt=1) call, before decoder_end_utt", "end"]
                                                if case.get("full") else case["mids"] + ["end"]), **extra)


def load_corpus(prop):
    cases = []
    for f in sorted((vlib.ROOT / "corpus" / prop).glob("*.json")):
        obj = json.loads(f.read_text())
        obj["_file"] = f.name
        cases.append(obj)
    return cases


def check(c):
    c.trusted += ["harness/h_c11.c (dump of lattice/FSG/history through the public iterators and headers) + tools/props/c11.py "
                  "(generator, word interning, canonicalisation, diff)",
                  "clang ASan/UBSan/LSan as observer of memory errors in fsg_search.c / ps_lattice.c (any report fails the run)",
                  "the first-best path search of the driver is verified sound and complete (C11_first_best_decided); an independent python search cross-checks it"]
    c.assumptions += ["the property is stated for requests that return a lattice; decoder_lattice returns NULL exactly when the history has no word exit "
                      "(theorem C11_build_lattice_iff_word_entry on the model + correspondence on every request)",
                      "time consistency between word nodes is `link ef = t, target sf = t+1, source sf <= t, fef <= t <= lef`; the synthetic <s>/</s> nodes are markers "
                      "(<s> at frame 0 linked to the word nodes starting at 0 with ef 0; links into </s> carry ef = n_frames) — DESIGN §4/C11",
                      "grammar paths are checked against the search FSG (with filler loops and alternate pronunciations added), one word step = word arc or one null arc + word arc"]
    c.trusted += ["harness cmd_calls / the Z trace lines: that the harness prints the name of every public call it makes (the names are classified by "
                  "the model's Call.ofApi in the driver; an unknown name fails the run)",
                  "tools/gen_lattice.py gen_lattice_widths (compiled sizeof/signedness of the lattice fields, clang AST for the parameters of find_node/new_node)"]
    c.assumptions += ["cache clause: `without new audio` = any sequence of public calls except decoder_process_* / decoder_end_utt that searched a frame, "
                      "decoder_start_utt, and the calls that replace the search (decoder_set_fsg, _set_jsgf_*, _set_align_text, decoder_reinit*), which "
                      "legitimately drop the lattice; decoder_apply_mllr and decoder_set_logfile are not generated (need an MLLR file / redirect the log); "
                      "decoder_add_word(update=TRUE) while an utterance is in progress is outside the API protocol (DESIGN §4/C09: it frees the lextree "
                      "the active search points into) and is generated only after decoder_end_utt"]
    if not c.lean_obligations() and vlib._DRIVER_COPY is None:
        return
    # (when a theorem no longer checks but the model driver builds — e.g. C11_lattice_integer_widths after a field was narrowed —
    #  the run goes on: the failed obligation is recorded, and the generated families look for a concrete failing input)
    binp = vlib.build_harness("h_c11")
    audios = audio_files(str(c.scratch / "audio"))
    rng = c.rng.fork()
    stats = {}
    ncases = 22 if c.tier == "quick" else 700
    cases = [dict(x, _corpus=True) for x in load_corpus("C11")]
    ncorp = len(cases)
    for _ in range(ncases):
        cs = gen_case(rng, audios)
        if rng.chance(0.5):
            cs = aim_case(rng, cs, audios, stats)
        cases.append(cs)
    # several utterances of equal length on one decoder (a lattice must not survive decoder_start_utt)
    for _ in range(4 if c.tier == "quick" else 60):
        cases.append(multi_case(rng, audios))
    # cache across decoder_end_utt: full_utt decodes (nothing left to flush) with a request on both sides of the end
    for _ in range(4 if c.tier == "quick" else 60):
        cs = gen_case(rng, audios)
        cs.update(full=True, mids=[])
        cases.append(cs)
    # cache clause over the non-audio API: public calls between two requests (queries, accessors, add_word with and without update)
    for _ in range(5 if c.tier == "quick" else 120):
        cases.append(calls_case(rng, audios, stats))
    # large-grammar family: sparse / huge state numbers, homophone branches into states congruent modulo 2^16 / 2^15
    # (a decode costs ~50 ms per frame with 65 000 states under ASan: the quick tier cuts the audio soon after the shared word)
    # (the corpus holds the demo-like member of the family; the quick tier adds one generated member)
    for bi in range(1 if c.tier == "quick" else 36):
        cases.append(big_case(rng, audios, huge=(c.tier != "quick" and bi % 4 == 3), short=(c.tier == "quick" or bi % 2 == 0)))
    # position sweeps: one decode, a (light) lattice request every few frames — requests are cheap compared with the decode
    lin = "#JSGF V1.0; grammar g; public <g> = go forward ten meters ;"
    br = "#JSGF V1.0; grammar g; public <g> = go (forward | backward | for ward) (ten | one | two | tend | a) [meter | meters | meet] ;"
    cases.append(sweep_case(rng, audios, lin, "goforward", [], None, 4))
    cases.append(sweep_case(rng, audios, br, "goforward", [], rng.choice([None, 152, 210]), 4))
    for _ in range(2 if c.tier == "quick" else 80):
        g, kind = gen_grammar(rng)
        au = rng.weighted([("goforward", 5), ("goforward_fr", 2), ("pizza", 3)])
        cases.append(sweep_case(rng, audios, g, au, BEAMS[rng.choice(["default", "default", "narrow", "wide"])], None, rng.range(3, 7), kind=kind))
    nlat, build_ok, nbuild, distinct = 0, True, 0, set()
    cache_ok, ncache_mism = True, 0
    harness_ok = True
    viols, nmism = [], 0
    import time as _time
    fam_wall = {}
    # the large-grammar decodes are slow (~50 ms per frame with 65 000 states under ASan): start their harness runs now, they proceed
    # in parallel with the other cases (same binary, same commands, same judgement; run_case picks the result up)
    from concurrent.futures import ThreadPoolExecutor
    pool = ThreadPoolExecutor(max_workers=2)
    cases.sort(key=lambda cs: bool(cs.get("fsg")))          # (stable) their results are collected last
    for cs in cases:
        if cs.get("fsg"):
            cs["_pre"] = pool.submit(lambda text: vlib.run_bin(binp, stdin_text=text, leaks=True, timeout=600), "\n".join(case_cmds(cs, audios)) + "\n")
    for ci, case in enumerate(cases):
        _t0 = _time.time()
        res, mism, fail = eval_case(c, binp, audios, case, stats)
        _fam = "big-fsg" if case.get("fsg") else "calls-between-requests" if case.get("calls") else "multi-utterance" if case.get("utts") else \
            "sweep" if case.get("sweep") else "full_utt" if case.get("full") else "corpus" if case.get("_corpus") else "generated"
        fam_wall[_fam] = round(fam_wall.get(_fam, 0.0) + _time.time() - _t0, 1)
        if fail:
            harness_ok = False
            c.oblige("harness + driver run to completion without sanitizer report / abort", False, {"case": describe(case), **fail})
            viols.append((True, None, {"kind": "sanitizer report, abort or exit inside the lattice code", "case": describe(case), **fail,
                                       "how_to_rerun": "python3 tools/check.py C11 --replay <this file>", "case_raw": case}, None, None))
            if len(viols) > 8:
                break
            continue
        if ci < ncorp + 2:
            c.samples.append(dict(describe(case), lattices=[("NULL" if d["null"] else f"{len(d['nodes'])} nodes/{len(d['links'])} links @ {d['frame']} frames") for d, _, _, _ in res]))
        for (d, rep, tab, probs) in res:
            nlat += 1
            if not d["null"]:
                distinct.add((case["grammar"], case["audio"], tuple(case["cfg"]), d["frame"]))
                nbuild += 1
            for (what, found, key) in probs:
                viols.append((found, key, {"kind": "word lattice violates C11", "what": what, "request": d["tag"], "n_frames": d["frame"],
                                           "first_best": [x[:3] for x in real_segs(d)],
                                           "lattice_nodes": [(n["word"], n["sf"], n["fef"], n["lef"], n["state"]) for n in d["nodes"]][:60],
                                           "lattice_links": [(l["src"], l["dst"], l["ef"], l["ascr"]) for l in d["links"]][:120],
                                           "checker_clauses": rep.get("clauses"),
                                           "how_to_rerun": "python3 tools/check.py C11 --replay <this file>"}, case, d["tag"]))
        for (tag, mm) in mism:
            if tag == "cache-trace":
                cache_ok = False
                ncache_mism += 1
                if ncache_mism <= 3:
                    c.oblige("correspondence: cache model (Sess.outputs over the call trace) = object identities returned by decoder_lattice",
                             False, {"case": describe(case), "mismatch": mm, "case_raw": {k: v for k, v in case.items() if not k.startswith("_")}})
                continue
            build_ok = False
            nmism += 1
            if nmism <= 3:
                c.oblige("correspondence buildLattice = fsg_search_lattice", False, {"case": describe(case), "request": tag, "mismatch": mm})
        if case.get("fsg") and res:
            # did the family produce what it is for: two nodes with the same word and start frame whose grammar states are congruent
            ka, kb = case["fsg"]["congruent_pair"]
            for (d, _, _, _) in res:
                if d["null"]:
                    continue
                stats["big-fsg:requests"] = stats.get("big-fsg:requests", 0) + 1
                if max((n["state"] for n in d["nodes"]), default=0) >= 32768:
                    stats["big-fsg:lattice-with-a-node-state>=2^15"] = stats.get("big-fsg:lattice-with-a-node-state>=2^15", 0) + 1
                if max((n["state"] for n in d["nodes"]), default=0) >= 65536:
                    stats["big-fsg:lattice-with-a-node-state>=2^16"] = stats.get("big-fsg:lattice-with-a-node-state>=2^16", 0) + 1
                keys = {(n["word"], n["sf"], n["state"]) for n in d["nodes"]}
                if any((w, sf, kb) in keys for (w, sf, st) in keys if st == ka):
                    stats["big-fsg:two-nodes-same-word-same-start-frame-states-congruent"] = \
                        stats.get("big-fsg:two-nodes-same-word-same-start-frame-states-congruent", 0) + 1
        if len(viols) > 40:
            break
    pool.shutdown(wait=False, cancel_futures=True)
    # record violations: those with a failing input first, one per witness class, each shrunk
    viols.sort(key=lambda v: (not v[0],))
    seen_cls, nrec = set(), 0
    for (found, key, obj, case, tag) in viols:
        cls = key or obj.get("what", obj["kind"]).split(":")[0][:60]
        if cls in seen_cls or nrec >= 6:
            continue
        seen_cls.add(cls)
        nrec += 1
        if case is not None:
            small = case
            if found and not case.get("_corpus"):
                what = obj["what"]

                def still(cand, what=what):
                    r2, _, f2 = eval_case(c, binp, audios, cand, None, with_build=False)
                    if f2 or not r2:
                        return False
                    return any(w2.split(":")[0] == what.split(":")[0] for (_, _, _, p2) in r2 for (w2, _, _) in p2)
                small = shrink_case(c, binp, audios, case, tag, still)
            obj = dict(obj, case=describe(small), case_raw={k: v for k, v in small.items() if not k.startswith("_")})
        c.violation(obj, found, finding_key=key)
    c.oblige("latticeOKB (verified checker) accepts every lattice the implementation returned; first-best on a validated path; cache returns the same object",
             not viols, f"{len(viols)} violations in {nlat} lattice requests")
    c.oblige("correspondence: model buildLattice on the dumped history = lattice of fsg_search_lattice (nodes, links, scores, start/end; canonically sorted) on every request",
             build_ok, f"{nmism} mismatching requests")
    c.oblige("every harness run finished without sanitizer report, assert or leak", harness_ok)
    c.oblige("correspondence: the cache model run on the harness's call trace (API names classified by Call.ofApi in the driver, Sess.outputs) "
             "hands out the same object identities as decoder_lattice returned, for every request of every case; the quiet flags "
             "(hypothesis of C11_cache_same_object_after_calls) agree with the oracle's",
             cache_ok and stats.get("cache:requests-compared-with-the-cache-model(Sess.outputs)", 0) > 0,
             dict(requests=stats.get("cache:requests-compared-with-the-cache-model(Sess.outputs)", 0), mismatching_cases=ncache_mism))
    nhw = stats.get("hyp:HistWF-evaluated-on-dumped-history-tables", 0)
    hw_fail = getattr(c, "_histwf_fail", [])
    c.oblige("hypothesis HistWF of C11_build_latticeOK (Props/C11Build) holds for every history table dumped from the implementation "
             "(histWFB run by the driver; word arcs are FSG arcs, 1 <= frame < n_frames, predecessors earlier in table and time, "
             "null entries one hop below a word entry or the root)",
             nhw > 0 and not hw_fail,
             dict(evaluated=nhw, history_entries=stats.get("hyp:HistWF-history-entries-covered", 0),
                  word_entries=stats.get("hyp:HistWF-word-entries-covered", 0), failed=hw_fail[:3]))
    c.oblige("hypotheses extraB (C11_build_histWF_of_search_invariant, C11_build_first_best_of_seg_iter) and wordFrameB (C11_build_reachable_search/_first_best) hold for every dumped history table "
             "(no word exit in frame 0; the predecessor of a null entry is the root or a word entry)",
             nhw > 0 and stats.get("hyp:extraB-FAILED", 0) == 0, dict(evaluated=nhw, failed=stats.get("hyp:extraB-FAILED", 0)))
    c.oblige("instances of C11_build_checked agree with evaluation: whenever histWFB holds of the dumped table, latticeOKB accepts the model's lattice",
             stats.get("hyp:model-lattice-fails-LatticeOK", 0) == 0 or bool(hw_fail), dict(model_lattice_not_ok=stats.get("hyp:model-lattice-fails-LatticeOK", 0)))
    nch = stats.get("hyp:ChainOK-evaluated-on-first-best-segmentations", 0)
    ch_fail = getattr(c, "_chain_fail", [])
    c.oblige("hypothesis ChainOK of C11_build_first_best (Props/C11Build) holds for the first-best segmentation of every request with a dumped "
             "history table (findChain/chainOKB run by the driver: the segmentation is a complete backtrace of the table from the root whose "
             "last word ends in the last word-exit frame)",
             nch > 0 and not ch_fail, dict(evaluated=nch, failed=ch_fail[:3]))
    print(f"C11 hypotheses: ChainOK evaluated on {nch} first-best segmentations, failed {len(ch_fail)}", flush=True)
    print(f"C11 hypotheses: HistWF evaluated on {nhw} dumped history tables "
          f"({stats.get('hyp:HistWF-history-entries-covered', 0)} entries, {stats.get('hyp:HistWF-word-entries-covered', 0)} word entries), "
          f"failed {len(hw_fail)}; extraB failed {stats.get('hyp:extraB-FAILED', 0)}; model lattice fails LatticeOK: {stats.get('hyp:model-lattice-fails-LatticeOK', 0)}", flush=True)
    if harness_ok:
        c.oblige("later utterances on the same decoder requested a lattice at the frame count of the previous utterance's last lattice",
                 stats.get("cache:same-frame-count-as-the-last-lattice-of-the-previous-utterance", 0) >= 1, {k: v for k, v in stats.items() if k.startswith("cache")})
        c.oblige("the cache clause was exercised across decoder_end_utt at an unchanged frame count (full_utt decodes)",
                 stats.get("cache:same-frame-count-across-decoder_end_utt", 0) >= 1, {k: v for k, v in stats.items() if k.startswith("cache")})
        c.oblige("the cache clause was exercised with public calls between two requests, incl. decoder_add_word(update=TRUE) after the end "
                 "of the utterance",
                 stats.get("cache:second-request-after-add_word-update", 0) >= 1 and
                 sum(1 for k in stats if k.startswith("cache:call-between-two-requests:")) >= 10,
                 {k: v for k, v in stats.items() if k.startswith("cache")})
        c.oblige("the large-grammar family produced lattices with two nodes of the same word and start frame whose grammar states are "
                 "congruent modulo 2^16 / 2^15 (state numbers >= 2^15 in the lattice)",
                 stats.get("big-fsg:two-nodes-same-word-same-start-frame-states-congruent", 0) >= 1 and
                 stats.get("big-fsg:lattice-with-a-node-state>=2^15", 0) >= 1, {k: v for k, v in stats.items() if k.startswith("big-fsg")})
    c.cov.update({"evaluations": nlat, "distinct_nontrivial": len(distinct),
                  "rule": "one evaluation = one lattice request (mid-utterance or final) of a generated decode; non-trivial = a lattice was returned; "
                          "distinct by (grammar, audio, config, frame count)",
                  "cases": len(cases), "corpus_cases": ncorp, "lattices_compared_with_model": nbuild, "distribution": dict(sorted(stats.items())),
                  "wall_s_by_case_family": fam_wall})


def replay(c, path):
    c.lean_obligations()
    binp = vlib.build_harness("h_c11")
    audios = audio_files(str(c.scratch / "audio"))
    obj = json.loads(open(path).read())
    case = obj["case_raw"]
    res, mism, fail = eval_case(c, binp, audios, case, {})
    if fail:
        c.violation({"kind": "sanitizer report, abort or exit inside the lattice code", "case": describe(case), **fail, "case_raw": case}, True)
    else:
        for (d, rep, tab, probs) in res:
            for (what, found, key) in probs:
                c.violation({"kind": "word lattice violates C11", "what": what, "request": d["tag"], "case": describe(case), "case_raw": case}, found, finding_key=key)
        for (tag, mm) in mism:
            c.oblige("correspondence buildLattice = fsg_search_lattice", False, {"request": tag, "mismatch": mm})
    c.cov.update({"evaluations": 1, "distinct_nontrivial": 1})
