"""C11 — the word lattice is a well-formed, time-consistent graph of grammar paths.
(shared machinery of C11 and C12: generator, harness run, dump parser, driver protocol)

Lean: SSVerif/Props/C11.lean — `LatticeOK` (local, decidable predicate) decided by the verified
checker `latticeOKB`; graph theorems lift it to the universally quantified statements of the
property (no cycle, every node on a start->end path, every path a grammar path, ...).
Tie: harness/h_c11.c decodes audio against generated JSGF grammars (default/narrow/wide beams, audio
cut mid-sentence), requests `decoder_lattice` mid-utterance and at the end and dumps it through the
iterator API together with the search FSG and the history table; `ssdriver c11` runs `latticeOKB`
and `checkFirstBest` on the C lattice (implementation-side oracle) and the model's own
`buildLattice` on the dumped history (correspondence, canonically sorted).
"""
import json, os, array
import vlib

VOC = ["go", "forward", "backward", "ten", "meters", "meter", "one", "two", "three", "stop", "turn", "left", "right",
       "a", "the", "hello", "world", "and", "ford", "tend", "meet", "for", "ward", "hi", "yo", "pizza", "want", "i",
       "small", "large", "with", "ham", "order"]
DATA = vlib.REPO / "tests" / "data"


def hx(s):
    return s.encode().hex() if s else "-"


def unhx(h):
    return None if h == "null" else ("" if h == "-" else bytes.fromhex(h).decode(errors="replace"))


# --------------------------------------------------------------------------------------------
# generator

def gen_grammar(rng):
    kind = rng.weighted([("linear", 2), ("loop", 3), ("oneword", 1), ("branch", 3), ("random", 4), ("pizza", 1),
                         ("optional", 2), ("onealt", 2)])
    if kind == "linear":
        body = "go forward ten meters" if rng.chance(0.6) else " ".join(rng.choice(VOC) for _ in range(rng.range(2, 5)))
    elif kind == "loop":
        ws = ["go", "forward", "ten", "meters"] if rng.chance(0.5) else []
        ws += [rng.choice(VOC) for _ in range(rng.range(1, 5))]
        body = "(" + " | ".join(dict.fromkeys(ws)) + ")" + rng.choice(["+", "*"])
    elif kind == "oneword":
        body = rng.choice(["go", "forward", "ten", rng.choice(VOC)])
    elif kind == "onealt":
        # a one-word alternative next to longer ones (single-word first-best paths)
        body = rng.choice(VOC[:14]) + " | " + " ".join(rng.choice(VOC[:14]) for _ in range(rng.range(2, 3)))
        if rng.chance(0.5):
            body += " | " + rng.choice(VOC)
    elif kind == "branch":
        body = "go (forward | backward | for ward) (ten | one | two | tend | a) [meter | meters | meet]"
        if rng.chance(0.5):
            body = "(go | stop | turn) (forward | backward | left | right) [(ten | two) (meters | meter)]"
    elif kind == "pizza":
        return (DATA / "pizza.gram").read_text(), kind
    elif kind == "optional":
        body = "[go] [forward | ford] [ten | tend] [meters | meet]"
        if rng.chance(0.5):
            body = "[hello] (go forward)* [ten meters]"
    else:
        def rx(d):
            k = rng.weighted([("w", 5), ("seq", 3 if d < 3 else 0), ("alt", 3 if d < 3 else 0), ("opt", 1 if d < 3 else 0),
                              ("star", 1 if d < 3 else 0), ("plus", 1 if d < 3 else 0)])
            if k == "w":
                return rng.choice(VOC[:14])
            if k == "seq":
                return " ".join(rx(d + 1) for _ in range(rng.range(2, 3)))
            if k == "alt":
                return "(" + " | ".join(rx(d + 1) for _ in range(rng.range(2, 3))) + ")"
            if k == "opt":
                return "[" + rx(d + 1) + "]"
            if k == "star":
                return "(" + rx(d + 1) + ")*"
            return "(" + rx(d + 1) + ")+"
        body = rx(0)
    return f"#JSGF V1.0; grammar g; public <g> = {body} ;", kind


def audio_files(scratch):
    """int16 raw files: tests/data/*.raw (the float32 one converted)"""
    os.makedirs(scratch, exist_ok=True)
    res = {"goforward": str(DATA / "goforward.raw"), "goforward_fr": str(DATA / "goforward_fr.raw")}
    f32 = array.array("f")
    f32.frombytes((DATA / "pizza-float32.raw").read_bytes())
    mx = max(abs(x) for x in f32) or 1.0
    sc = 32767.0 / mx if mx <= 1.5 else 1.0
    i16 = array.array("h", [max(-32768, min(32767, int(x * sc))) for x in f32])
    p = os.path.join(scratch, "pizza16.raw")
    open(p, "wb").write(i16.tobytes())
    res["pizza"] = p
    return res


# size limits of the model evaluation in the driver (the model's per-link state is a function / an association
# list: quadratic in the number of updates); larger lattices are still judged by the verified checker and by the
# python oracles, and are counted in the evidence
MAX_LINKS_MODEL = 1500
MAX_LINKS_INT = 450

BEAMS = {"default": [], "narrow": ["beam=1e-20", "wbeam=1e-10", "pbeam=1e-20"],
         "vnarrow": ["beam=1e-8", "wbeam=1e-4", "pbeam=1e-8"], "wide": ["beam=1e-80", "wbeam=1e-60", "pbeam=1e-80"]}


def gen_case(rng, audios, k=8):
    g, kind = gen_grammar(rng)
    au = rng.weighted([("goforward", 6), ("goforward_fr", 2), ("pizza", 2)])
    n = os.path.getsize(audios[au]) // 2
    beamk = rng.weighted([("default", 4), ("narrow", 3), ("wide", 1), ("vnarrow", 2)])
    cfg = list(BEAMS[beamk])
    if rng.chance(0.15):
        cfg.append("fsgusefiller=no")
    if rng.chance(0.15):
        cfg.append("fsgusealtpron=no")
    if rng.chance(0.5):
        cfg.append("ascale=1")          # the float product in lattice_bestpath/_posterior is exact
    if rng.chance(0.1):
        cfg.append("silprob=0.5")
    if rng.chance(0.1):
        cfg.append("wip=0.2")
    cut = n if rng.chance(0.5) else rng.range(1000, n)          # audio cut mid-sentence
    mids = sorted(rng.range(0, cut) for _ in range(rng.range(0, 3)))
    return dict(grammar=g, kind=kind, audio=au, cfg=cfg, cut=cut, mids=mids, beam=beamk, k=k)


def aim_case(rng, case, audios, stats=None):
    """aim the cut point and the mid-utterance requests of a case just after word ends: one extra decode of the whole
    recording gives the first-best word boundaries; the audio is then cut 0..25 frames after one of them (an utterance
    cut off shortly after a word leaves dead-end word instances in the history) and the lattice is requested after
    several others.  Falls back to the unaimed case when the full decode has no word segment."""
    n = os.path.getsize(audios[case["audio"]]) // 2
    probe = dict(case, cut=n, mids=[], k=0, ops=None)
    cmds = case_cmds(probe, audios, bp=0)
    try:
        binp = vlib.build_harness("h_c11")
        rc, out, err = vlib.run_bin(binp, stdin_text="\n".join(cmds) + "\n", leaks=False, timeout=300)
    except Exception:
        return case
    lats = parse(out) if rc == 0 else []
    ends = sorted(set(x[2] for d in lats for x in d["X"] if x[0] not in ("(NULL)", None) and x[2] >= 0))
    if not ends:
        return case

    def pos(ef):
        return min(n, (ef + 1 + rng.range(0, 25)) * 160 + rng.range(0, 159))
    cut = pos(rng.choice(ends))
    mids = sorted(set(p2 for p2 in (pos(rng.choice(ends)) for _ in range(rng.range(2, 6))) if p2 < cut))
    if stats is not None:
        stats["generator:cut-aimed-after-a-word-end"] = stats.get("generator:cut-aimed-after-a-word-end", 0) + 1
    return dict(case, cut=cut, mids=mids, aimed=True)


def derive_audio(audios, spec):
    """path of an audio given by name, or derived from a base recording: same sample count, different content
    (rotation = time shift, equal-length excerpt at an offset, pseudo-noise mixed in); deterministic, written to the scratch dir"""
    if isinstance(spec, str):
        return audios[spec]
    base = array.array("h")
    base.frombytes(open(audios[spec["base"]], "rb").read())
    n, kind, par = spec["n"], spec["kind"], spec["param"]
    if kind == "rotate":
        src = base[:n] if len(base) >= n else base
        k = par % max(1, len(src))
        out = src[k:] + src[:k]
    elif kind == "excerpt":
        off = min(par, max(0, len(base) - n))
        out = base[off:off + n]
    else:   # noise
        out = array.array("h", base[:n])
        x = par & 0x7FFFFFFF
        for i in range(len(out)):
            x = (1103515245 * x + 12345) & 0x7FFFFFFF
            out[i] = max(-32768, min(32767, out[i] + ((x >> 16) % 801) - 400))
    out = array.array("h", out)
    while len(out) < n:          # pad by repetition so that the sample count is exactly n
        out.extend(out[:n - len(out)])
    path = os.path.join(os.path.dirname(audios["pizza"]), f"d-{spec['base']}-{kind}-{par}-{n}.raw")
    if not os.path.exists(path):
        open(path, "wb").write(out[:n].tobytes())
    return path


def multi_case(rng, audios):
    """several utterances on ONE decoder with exactly the same sample count (hence frame count) and different content;
    the lattice is requested at the same positions in each — a lattice surviving from the previous utterance would be
    handed out again by the frame-count test of fsg_search_lattice"""
    g, kind = gen_grammar(rng)
    base = rng.weighted([("goforward", 5), ("goforward_fr", 3), ("pizza", 2)])
    nfull = os.path.getsize(audios[base]) // 2
    n = nfull if rng.chance(0.5) else rng.range(nfull // 3, nfull)
    n -= n % 160
    mids = sorted(set((rng.range(160, n - 160) // 160) * 160 for _ in range(rng.range(0, 2))))

    def other():
        k2 = rng.weighted([("rotate", 3), ("excerpt", 3), ("noise", 2)])
        if k2 == "rotate":
            return dict(base=base, kind="rotate", param=rng.range(1600, max(1601, n - 1600)), n=n)
        if k2 == "excerpt":
            b2 = rng.choice([x for x in ("goforward", "goforward_fr", "pizza") if x != base])
            return dict(base=b2, kind="excerpt", param=rng.range(0, 8000), n=n)
        return dict(base=base, kind="noise", param=rng.range(1, 10 ** 6), n=n)
    first = dict(base=base, kind="excerpt", param=0, n=n)
    order = rng.weighted([("AB", 4), ("BA", 3), ("ABA", 2), ("ABC", 2)])
    pool = {"A": first, "B": other(), "C": other()}
    utts = [dict(audio=pool[ch], cut=n, mids=list(mids), end_request=True) for ch in order]
    if rng.chance(0.3) and mids:
        utts[0]["end_request"] = False          # lattice of the first utterance fetched only mid-utterance
    cfg = list(BEAMS[rng.choice(["default", "default", "narrow"])]) + [rng.choice(["bestpath=no", "bestpath=yes"])]
    return dict(grammar=g, kind=kind, audio=base, cfg=cfg, cut=n, mids=list(mids), beam="default", k=4, utts=utts, order=order)


def case_cmds(case, audios, bp=1):
    if case.get("utts"):
        cmds = ["newdec " + " ".join(case["cfg"]), "jsgf " + case["grammar"].encode().hex()]
        for u in case["utts"]:
            cmds += ["audio " + derive_audio(audios, u["audio"]), "start"]
            pos = 0
            for i, m in enumerate(u["mids"]):
                cmds += [f"proc {m - pos}", f"lat mid{i} {case['k']} {bp}"]
                pos = m
            cmds += [f"proc {u['cut'] - pos}", "end"]
            if u.get("end_request", True):
                cmds.append(f"lat end {case['k']} {bp}")
        return cmds
    cmds = ["newdec " + " ".join(case["cfg"]), "jsgf " + case["grammar"].encode().hex(), "audio " + audios[case["audio"]], "start"]
    pos = 0
    ops = " " + case["ops"] if case.get("ops") else ""
    if case.get("full"):
        # everything searched inside one full_utt call: request the lattice on both sides of decoder_end_utt
        cmds += [f"procfull {case['cut']}", f"lat pre {min(case['k'], 200)} {bp}{ops}", "end", f"lat end {case['k']} {bp}{ops}"]
        return cmds
    for i, m in enumerate(case["mids"]):
        if case.get("sweep"):
            cmds += [f"proc {m - pos}", f"lat mid{i} 0 2"]      # light request (no history dump, no search passes)
        else:
            cmds += [f"proc {m - pos}", f"lat mid{i} {min(case['k'], 200)} {bp}{ops}"]
        pos = m
    cmds += [f"proc {case['cut'] - pos}", "end", f"lat end {case['k']} {bp}{ops}"]
    return cmds


# --------------------------------------------------------------------------------------------
# dump parser

def kv(ws):
    d = {}
    for t in ws:
        k, v = t.split("=")
        try:
            d[k] = int(v)
        except ValueError:
            d[k] = float(v)
    return d


def parse(out):
    """list of lattice dumps of one harness run"""
    res, cur, utt = [], None, -1
    for line in out.split("\n"):
        w = line.split()
        if not w:
            continue
        if w[0] == "start" and len(w) == 2 and cur is None:
            utt += 1
        if w[0] == "LAT" and w[1] == "begin":
            cur = {"utt": max(utt, 0), "tag": w[2], "final": int(w[3].split("=")[1]), "frame": int(w[4].split("=")[1]), "nodes": [], "links": [],
                   "entries": {}, "X": [], "B": [], "BX": {}, "R": {}, "PX": [], "fsgW": {}, "fsgA": [], "hist": [],
                   "null": False, "T": None}
        elif cur is None:
            continue
        elif w[0] == "LAT" and w[1] == "null":
            cur["null"] = True
            cur["again"] = w[2].split("=")[1]
        elif w[0] == "LAT" and w[1] == "end":
            res.append(cur)
            cur = None
        elif w[0] == "H":
            cur["hyp"] = unhx(w[1])
            cur["hypscore"] = int(w[2])
        elif w[0] == "X":
            cur["X"].append((unhx(w[2]), int(w[3]), int(w[4]), int(w[5]), int(w[6])))
        elif w[0] == "G":
            cur["G"] = kv(w[1:])
        elif w[0] == "N":
            cur["nodes"].append(dict(word=unhx(w[2]), base=unhx(w[3]), fil=int(w[4]), sf=int(w[5]), fef=int(w[6]), lef=int(w[7]),
                                     sf2=int(w[8]), fef2=int(w[9]), lef2=int(w[10]), state=int(w[11]), id=int(w[12]),
                                     nex=int(w[13]), nen=int(w[14])))
        elif w[0] == "L":
            cur["links"].append(dict(src=int(w[2]), dst=int(w[3]), src2=int(w[4]), dst2=int(w[5]), ef=int(w[6]), ef2=int(w[7]),
                                     sf=int(w[8]), ascr=int(w[9])))
        elif w[0] == "I":
            cur["entries"][int(w[1])] = [int(t) for t in w[2:]]
        elif w[0] == "F":
            cur["F"] = [int(t) for t in w[1:]]
        elif w[0] == "W":
            cur["fsgW"][int(w[1])] = (unhx(w[2]), int(w[3]), int(w[4]), int(w[5]))
        elif w[0] == "A":
            cur["fsgA"].append((int(w[2]), int(w[3]), int(w[4])))
        elif w[0] == "E":
            cur["hist"].append(tuple(int(t) for t in w[1:]) if w[2] != "missing" else None)
        elif w[0] == "Y":
            cur["Y"] = kv(w[1:])
        elif w[0] == "T":
            cur["T"] = [int(t) for t in w[1:]]
        elif w[0] == "M":
            cur["M"] = kv(w[1:])
        elif w[0] == "B":
            cur["B"].append(dict(score=int(w[2]), hyp=unhx(w[3]), nodes=[int(t) for t in w[5:]]))
        elif w[0] == "BX":
            cur["BX"].setdefault(int(w[1]), []).append((unhx(w[3]), int(w[4]), int(w[5])))
        elif w[0] == "BN":
            cur["BN"] = dict(n=int(w[1]), **kv(w[2:]))
        elif w[0] == "P":
            cur["P"] = kv(w[1:])
        elif w[0] == "Q":
            cur["Q"] = kv(w[1:])
        elif w[0] == "R":
            cur["R"][int(w[1])] = dict(path_scr=int(w[2]), prev=int(w[3]), alpha=int(w[4]), beta=int(w[5]), post=int(w[6]), ascr=int(w[7]), scaled=int(w[8]) if len(w) > 8 else None)
        elif w[0] == "PX":
            cur["PX"].append((unhx(w[2]), int(w[3]), int(w[4])))
        elif w[0] == "PH":
            cur["PH"] = unhx(w[1])
        elif w[0] == "KU":
            cur["KU"] = kv(w[1:])
        elif w[0] == "K":
            cur["K"] = kv(w[1:])
        elif w[0] == "S":
            cur["same_after"] = int(w[1].split("=")[1])
        elif w[0] == "HO":
            cur.setdefault("hist_ops", []).append(dict(step=int(w[1]), op=w[2]))
        elif w[0] in ("HB", "HP", "HT"):
            cur["hist_ops"][-1].update(kv(w[2:]))
        elif w[0] in ("HS", "HV", "HA", "HE", "HN"):
            cur["hist_ops"][-1][w[0]] = [int(t) for t in w[2:]]
    return res


# --------------------------------------------------------------------------------------------
# driver protocol

def intern_words(d):
    """word string -> symbol id, shared by lattice nodes and FSG arcs"""
    tab = {}

    def sym(w):
        if w not in tab:
            tab[w] = len(tab)
        return tab[w]
    for k in sorted(d["fsgW"]):
        sym(d["fsgW"][k][0])
    for n in d["nodes"]:
        sym(n["word"])
    for x in d["X"]:
        sym(x[0])
    sym("<s>")
    sym("</s>")
    return tab


def real_segs(d):
    return [x for x in d["X"] if x[0] not in ("(NULL)", None)]


def driver_block(d, k, with_build=True):
    """driver input lines for one lattice dump"""
    tab = intern_words(d)
    lines = []
    if d["null"]:
        lines.append("begin 0 0 0")
    else:
        G = d["G"]
        lines.append(f"begin {G['nframes']} {G['start']} {G['end']}")
        for n in d["nodes"]:
            lines.append(f"n {tab[n['word']]} {n['sf']} {n['fef']} {n['lef']} {n['state']}")
        for l in d["links"]:
            lines.append(f"l {l['src']} {l['dst']} {l['ef']} {l['ascr']}")
    lines.append(f"g {d['F'][0]}")
    for (f, t, w) in d["fsgA"]:
        lines.append(f"a {f} {tab[d['fsgW'][w][0]] if w >= 0 else -1} {t}")
    segs = real_segs(d)
    if segs and not d["null"]:
        lines.append("segs")
        for (w, sf, ef, _, _) in segs:
            lines.append(f"s {tab[w]} {sf} {ef}")
    if with_build and not d.get("nohist"):
        for h in d["hist"]:
            if h is None:
                lines.append("h -1 -1 -1 0 0 0")
                continue
            (_, li, f, t, w, frame, score, pred) = h
            lines.append(f"h {f if li != -1 else -1} {tab[d['fsgW'][w][0]] if w >= 0 else -1} {t} {frame} {score} {pred}")
        fillers = [tab[v[0]] for v in d["fsgW"].values() if v[2]]
        sil = [tab[v[0]] for v in d["fsgW"].values() if v[3]]
        lines.append(f"b {d['frame']} {tab['<s>']} {tab['</s>']} {sil[0] if sil else 999999} {d['Y']['silpen']} {d['Y']['fillpen']} "
                     + " ".join(str(x) for x in fillers))
    if not d["null"] and d.get("R") and all(r.get("scaled") is not None for r in d["R"].values()) and len(d["R"]) == len(d["links"]) \
            and len(d["links"]) <= MAX_LINKS_INT:
        lines.append("c " + " ".join(str(d["R"][j]["scaled"]) for j in range(len(d["links"]))))
        lines.append("e " + " ".join(str(j) for j in d["entries"].get(d["G"]["end"], [])))
    lines.append(f"run {k}" if d["null"] or len(d["links"]) <= MAX_LINKS_MODEL else f"runlight {k}")
    return lines, tab


def parse_driver(out):
    """list of reports (one per `run`)"""
    reps, cur = [], None
    for line in out.split("\n"):
        w = line.split()
        if not w:
            continue
        if cur is None:
            cur = {"nbest": [], "bn": [], "bl": []}
        if w[0] == "end":
            reps.append(cur)
            cur = None
        elif w[0] == "bad-input":
            cur["bad"] = True
        elif w[0] == "clauses":
            cur["clauses"] = kv(w[1:])
        elif w[0] == "firstbest":
            cur["firstbest"] = w[1]
            if w[1] == "found":
                cur["fb_checked"] = int(w[2].split("=")[1])
                cur["fb_path"] = [int(t) for t in w[3:]]
        elif w[0] == "traverse":
            cur["traverse"] = None if (len(w) > 1 and w[1] == "skipped") else [int(t) for t in w[1:]]
            cur["skipped"] = len(w) > 1 and w[1] == "skipped"
        elif w[0] == "best":
            cur["best"] = None if w[1] == "none" else dict(link=int(w[1]), score=int(w[2]), chain=[int(t) for t in w[3:]])
        elif w[0] == "rem":
            cur["rem"] = [int(t) for t in w[1:]]
        elif w[0] in ("alpha", "beta"):
            cur[w[0]] = [int(t) for t in w[1:]]
        elif w[0] == "norm":
            cur["norm"] = int(w[1])
        elif w[0] == "p":
            cur["nbest"].append(dict(score=int(w[1]), nodes=[int(t) for t in w[2:]]))
        elif w[0] == "built":
            if w[1] == "skipped":
                cur["built"] = "skipped"
            elif w[1] == "none":
                cur["built"] = None
            else:
                cur["built"] = dict(nframes=int(w[1]), start=int(w[2]), final=int(w[3]), ok=int(w[6].split("=")[1]))
        elif w[0] == "bn":
            cur["bn"].append(tuple(int(t) for t in w[1:]))
        elif w[0] == "bl":
            cur["bl"].append(tuple(int(t) for t in w[1:]))
    return reps


def sweep_case(rng, audios, grammar, audio, cfg, cut_after_frame=None, step_frames=8, kind="sweep"):
    """one decode with a lattice request every `step_frames` frames (light requests) and a full request at the end;
    `cut_after_frame`: stop the audio shortly after that frame (an utterance cut off just after a word)"""
    n = os.path.getsize(audios[audio]) // 2
    cut = n if cut_after_frame is None else min(n, (cut_after_frame + 1 + rng.range(0, 20)) * 160 + rng.range(0, 159))
    first = rng.range(1, step_frames) * 160
    mids = list(range(first, cut, step_frames * 160 + rng.range(0, 40)))
    return dict(grammar=grammar, kind=kind, audio=audio, cfg=list(cfg), cut=cut, mids=mids, beam="default" if not cfg else "other", k=8, sweep=True)


def run_case(binp, case, audios, timeout=600):
    cmds = case_cmds(case, audios)
    # other checks running concurrently may prune the build cache: make sure the binary is there
    # (a cache hit costs a tree hash and touches the directory)
    for attempt in range(3):
        try:
            binp = vlib.build_harness("h_c11")
            rc, out, err = vlib.run_bin(binp, stdin_text="\n".join(cmds) + "\n", leaks=True, timeout=timeout)
            break
        except FileNotFoundError:
            if attempt == 2:
                raise
    lats = parse(out)
    if case.get("sweep"):
        for d in lats:
            if d["tag"] != "end":
                d["nohist"] = True
    return rc, out, err, lats


def run_driver(lats, k, with_build=True):
    text, tabs = [], []
    for d in lats:
        kk = k if d["tag"] == "end" else min(k, 200)
        lines, tab = driver_block(d, kk, with_build)
        text += lines
        tabs.append(tab)
    rc, out, err = vlib.run_driver("c11", "\n".join(text) + "\n", timeout=900)
    return rc, parse_driver(out), err, tabs


# --------------------------------------------------------------------------------------------
# python-side helpers (independent second implementation, used to cross-check the driver's
# *negative* answers and to classify witnesses)

def adjacency(d):
    N, L = d["nodes"], d["links"]
    exits = {i: [] for i in range(len(N))}
    entries = {i: [] for i in range(len(N))}
    for j, l in enumerate(L):
        if 0 <= l["src"] < len(N) and 0 <= l["dst"] < len(N):
            exits[l["src"]].append(j)
            entries[l["dst"]].append(j)
    return exits, entries


def py_first_best(d):
    """independent search: is the first-best segmentation a start->end path?"""
    N, L, G = d["nodes"], d["links"], d["G"]
    s, e = G["start"], G["end"]
    exits, entries = adjacency(d)
    X = [x[:3] for x in real_segs(d)]
    if not X:
        return True
    smark = N[s]["state"] == -1
    cands = None
    for k, (w, sf, ef) in enumerate(X):
        mine = [i for i, n in enumerate(N) if n["word"] == w and n["sf"] == sf and n["state"] != -1 and n["fef"] <= ef <= n["lef"]]
        if k == 0:
            c2 = [i for i in mine if i == s or (smark and any(L[j]["dst"] == i for j in exits[s]))]
        else:
            pef = X[k - 1][2]
            c2 = [i for i in mine if any(L[j]["src"] in cands and L[j]["ef"] == pef and N[L[j]["src"]]["state"] != -1 for j in entries[i])]
        cands = c2
        if not cands:
            return False
    ef = X[-1][2]
    return any((i == e or any(L[j]["dst"] == e and N[e]["state"] == -1 for j in exits[i])) and N[i]["lef"] == ef for i in cands)


def classify_first_best(d):
    """witness class of a first-best-not-in-lattice violation (key for known_findings.json)"""
    X = real_segs(d)
    lastexit = max((n["lef"] for n in d["nodes"] if n["state"] != -1), default=-1)
    hist_last = max((h[5] for h in d["hist"] if h and h[4] >= 0), default=-1)
    if len(X) == 1 and X[0][1] == 0:
        return "first-best-not-in-lattice:single-word-path"
    if hist_last < d["frame"] - 1:
        return "first-best-not-in-lattice:last-exit-frame-tie"
    return "first-best-not-in-lattice:other"


def canon_lattice_c(d, tab):
    """canonical form of the C lattice: sorted node tuples and link tuples keyed by node tuples"""
    nodes = [(tab[n["word"]], n["sf"], n["fef"], n["lef"], n["state"]) for n in d["nodes"]]
    links = sorted((nodes[l["src"]], nodes[l["dst"]], l["ef"], l["ascr"]) for l in d["links"])
    return dict(nframes=d["G"]["nframes"], start=nodes[d["G"]["start"]], final=nodes[d["G"]["end"]], nodes=sorted(nodes), links=links)


def canon_lattice_m(rep):
    nodes = [tuple(x) for x in rep["bn"]]
    links = sorted((nodes[a], nodes[b], ef, ascr) for (a, b, ef, ascr) in rep["bl"])
    b = rep["built"]
    return dict(nframes=b["nframes"], start=nodes[b["start"]], final=nodes[b["final"]], nodes=sorted(nodes), links=links)


# --------------------------------------------------------------------------------------------

def lat_stats(stats, d, case):
    def inc(k, by=1):
        stats[k] = stats.get(k, 0) + by
    if case.get("sweep") and d["tag"] != "end":
        inc("request:light-sweep-position")
    inc(f"grammar:{case['kind']}")
    inc(f"beam:{case['beam']}")
    inc(f"audio:{case['audio']}")
    inc("request:" + ("end" if d["tag"] == "end" else "before-end-of-full_utt-decode" if d["tag"] == "pre" else "mid"))
    if d["null"]:
        inc("lattice:NULL")
        return
    N = d["nodes"]
    G = d["G"]
    sm = N[G["start"]]["state"] == -1
    em = N[G["end"]]["state"] == -1
    inc(f"start:{'<s>' if sm else 'word'}/end:{'</s>' if em else 'word'}")
    inc("hyp:" + ("some" if d["hyp"] else "none"))
    if len(N) == 1:
        inc("lattice:single-node")
    lastexit = max((n["lef"] for n in N if n["state"] != -1), default=-1)
    if lastexit < G["nframes"] - 1:
        inc("lattice:last-exit-before-last-frame")
    if d["final"] and not d["hyp"]:
        inc("final-state-not-reached-or-no-word")
    # which branches of fsg_search_lattice / the model's buildLattice this request went through
    if G.get("n_nodes_field", len(N)) > len(N) + (1 if sm else 0) + (1 if em else 0) - 2 * 0 and G.get("n_nodes_field", 0) > len(N):
        inc("branch:unreachable-nodes-deleted")
    if any(n["fef"] < n["lef"] for n in N if n["state"] != -1):
        inc("branch:new_node-updates-existing-node")
    if any(N[l["dst"]]["fil"] and l["dst"] not in (G["start"], G["end"]) for l in d["links"] if 0 <= l["dst"] < len(N)):
        inc("branch:filler-penalty-applied")
    if not em and N[G["end"]]["lef"] < G["nframes"] - 1:
        inc("branch:end-node-before-last-frame")
    if sum(1 for n in N if n["sf"] == 0) > 1:
        inc("branch:several-frame-0-nodes(A*-seeds)")
    nulls = sum(1 for h in d["hist"] if h and h[1] >= 0 and h[4] < 0)
    if nulls:
        inc("branch:history-has-null-transition-entries")
    b = len(N)
    inc("nodes:" + ("1" if b == 1 else "2-9" if b < 10 else "10-49" if b < 50 else "50+"))
    b = len(d["links"])
    inc("links:" + ("0" if b == 0 else "1-19" if b < 20 else "20-199" if b < 200 else "200+"))


def judge_c11(c, d, rep, tab, case, stats):
    """implementation-side oracle + correspondence for one lattice; returns list of (what, found_input, key)"""
    probs = []
    if rep.get("bad"):
        probs.append(("lattice dump has negative indices/times", True, None))
        return probs
    if d["null"]:
        nw = sum(1 for h in d["hist"] if h and h[4] >= 0)
        if d.get("again") != "null":
            probs.append(("second request after a NULL lattice returned an object", True, None))
        # (no lattice although the model builds one is a correspondence mismatch, see judge_build)
        return probs
    G = d["G"]
    if G["same"] != 1 or d.get("same_after", 1) != 1:
        probs.append(("second lattice request without new audio returned a different object", True, None))
    if d.get("utt", 0) > 0:
        stats["request:in-a-later-utterance-of-the-same-decoder"] = stats.get("request:in-a-later-utterance-of-the-same-decoder", 0) + 1
        if d.get("KU") and d["KU"]["prev_frames"] == G["nframes"]:
            stats["cache:same-frame-count-as-the-last-lattice-of-the-previous-utterance"] = \
                stats.get("cache:same-frame-count-as-the-last-lattice-of-the-previous-utterance", 0) + 1
    if d.get("KU") and d["KU"]["stale_previous_utterance"] == 1:
        probs.append((f"the lattice returned in utterance {d['utt'] + 1} ({d['tag']}, {G['nframes']} frames) is the object built for the previous utterance "
                      f"on this decoder: it does not describe this utterance", True, None))
    K = d.get("K")
    if K and K["held_frames"] == K["now_frames"]:
        stats["cache:request-at-unchanged-frame-count-after-other-calls"] = stats.get("cache:request-at-unchanged-frame-count-after-other-calls", 0) + 1
        if d["tag"] == "end":
            stats["cache:same-frame-count-across-decoder_end_utt"] = stats.get("cache:same-frame-count-across-decoder_end_utt", 0) + 1
        if K["same_as_held"] != 1:
            probs.append((f"the lattice request {'after decoder_end_utt' if d['tag'] == 'end' else 'at ' + d['tag']} returned a different object than the previous request "
                          f"although no frame was searched in between ({K['now_frames']} frames both times)", True, None))
    if G["nframes"] != d["frame"] or G["api_nframes"] != G["nframes"]:
        probs.append((f"lattice frame count {G['nframes']} != search frame count {d['frame']}", True, None))
    for i, n in enumerate(d["nodes"]):
        if (n["sf"], n["fef"], n["lef"]) != (n["sf2"], n["fef2"], n["lef2"]):
            probs.append((f"node {i}: iterator API times differ from the fields", True, None))
    for j, l in enumerate(d["links"]):
        if (l["src"], l["dst"], l["ef"]) != (l["src2"], l["dst2"], l["ef2"]):
            probs.append((f"link {j}: iterator API endpoints/times differ from the fields", True, None))
        if 0 <= l["src"] < len(d["nodes"]) and l["sf"] != d["nodes"][l["src"]]["sf"]:
            probs.append((f"link {j}: latlink_times start frame differs from the source node", True, None))
    exits, entries = adjacency(d)
    for i in range(len(d["nodes"])):
        if sorted(entries[i]) != sorted(d["entries"].get(i, [])):
            probs.append((f"entry list of node {i} is not the set of links whose target it is", True, None))
    cl = rep["clauses"]
    if cl["ok"] != 1:
        bad = [k for k, v in cl.items() if v == 0 and k != "ok"]
        probs.append((f"latticeOKB = false on the implementation's lattice: clauses {bad}", True, None))
    segs = real_segs(d)
    if segs:
        pyfb = py_first_best(d)
        if rep["firstbest"] == "found" and rep.get("fb_checked") == 1:
            stats["firstbest:on-path"] = stats.get("firstbest:on-path", 0) + 1
            if not pyfb:
                c.oblige("driver and python first-best searches agree", False, {"case": case, "tag": d["tag"]})
        else:
            if pyfb:
                c.oblige("driver and python first-best searches agree", False, {"case": case, "tag": d["tag"]})
            else:
                probs.append((f"first-best segmentation {[x[:3] for x in segs]} is not a start->end path of the lattice",
                              True, classify_first_best(d)))
    else:
        stats["firstbest:no-word-segment"] = stats.get("firstbest:no-word-segment", 0) + 1
    return probs


def judge_build(c, d, rep, tab):
    """correspondence buildLattice = fsg_search_lattice (canonically sorted); returns mismatch description or None"""
    if rep.get("bad") or rep.get("built") == "skipped":
        return None
    if d["null"]:
        return None if rep["built"] is None else "model builds a lattice, implementation returns NULL"
    if rep["built"] is None:
        return "implementation builds a lattice, model returns none"
    a, b = canon_lattice_c(d, tab), canon_lattice_m(rep)
    if a != b:
        for k in ("nframes", "start", "final", "nodes", "links"):
            if a[k] != b[k]:
                if isinstance(a[k], list):
                    only_c = [x for x in a[k] if x not in b[k]][:3]
                    only_m = [x for x in b[k] if x not in a[k]][:3]
                    return f"{k} differ: only in C {only_c}, only in model {only_m}"
                return f"{k} differ: C {a[k]} model {b[k]}"
    return None


def shrink_case(c, binp, audios, case, tag, still_fails, budget=12):
    """smaller case on which `still_fails(case) -> bool` holds: drop config options, other mid requests, shorten"""
    best = dict(case)
    tests = 0

    def attempt(cand):
        nonlocal best, tests
        if tests >= budget:
            return False
        tests += 1
        try:
            if still_fails(cand):
                best = cand
                return True
        except Exception:
            pass
        return False
    # keep only the request that failed
    if tag.startswith("mid"):
        i = int(tag[3:])
        m = case["mids"][i]
        attempt(dict(best, mids=[], cut=m))
    else:
        attempt(dict(best, mids=[]))
    for opt in list(best["cfg"]):
        attempt(dict(best, cfg=[o for o in best["cfg"] if o != opt]))
    return best


def eval_case(c, binp, audios, case, stats, with_build=True):
    """run one case; returns (problems per lattice, correspondence mismatches, harness failure)"""
    rc, out, err, lats = run_case(binp, case, audios)
    if rc != 0:
        return None, None, dict(rc=rc, stderr=err[-2500:], stdout_tail=out[-600:])
    rcd, reps, derr, tabs = run_driver(lats, case["k"], with_build)
    if rcd != 0 or len(reps) != len(lats):
        return None, None, dict(driver_rc=rcd, stderr=derr[-1500:], nrep=len(reps), nlat=len(lats))
    res, mism = [], []
    for d, rep, tab in zip(lats, reps, tabs):
        if stats is not None:
            lat_stats(stats, d, case)
        res.append((d, rep, tab, judge_c11(c, d, rep, tab, case, stats if stats is not None else {})))
        mm = judge_build(c, d, rep, tab) if with_build else None
        if mm:
            mism.append((d["tag"], mm))
    return res, mism, None


def describe(case):
    if case.get("utts"):
        return dict(grammar=case["grammar"], config=case["cfg"], nbest=case["k"], one_decoder_utterances=[
            dict(audio=(u["audio"] if isinstance(u["audio"], str) else
                        f"{u['audio']['n']} samples derived from tests/data/{u['audio']['base']}: {u['audio']['kind']} {u['audio']['param']}"),
                 samples_fed=u["cut"], lattice_requests_after_samples=u["mids"] + (["end"] if u.get("end_request", True) else [])) for u in case["utts"]])
    return dict(grammar=case["grammar"], audio=f"tests/data/{case['audio']}" + (".raw" if case["audio"] != "pizza" else "-float32.raw (converted to int16)"),
                config=case["cfg"], samples_fed=case["cut"], nbest=case["k"],
                lattice_requests_after_samples=(["all samples in one decoder_process_int16(full_utt=1) call, before decoder_end_utt", "end"]
                                                if case.get("full") else case["mids"] + ["end"]))


def load_corpus(prop):
    cases = []
    for f in sorted((vlib.ROOT / "corpus" / prop).glob("*.json")):
        obj = json.loads(f.read_text())
        obj["_file"] = f.name
        cases.append(obj)
    return cases


def check(c):
    c.trusted += ["harness/h_c11.c (dump of lattice/FSG/history through the public iterators and headers) + tools/props/c11.py "
                  "(generator, word interning, canonicalisation, diff)",
                  "clang ASan/UBSan/LSan as observer of memory errors in fsg_search.c / ps_lattice.c (any report fails the run)",
                  "the first-best path search of the driver is verified sound and complete (C11_first_best_decided); an independent python search cross-checks it"]
    c.assumptions += ["the property is stated for requests that return a lattice; decoder_lattice returns NULL when the history has no word exit (observed: only then)",
                      "time consistency between word nodes is `link ef = t, target sf = t+1, source sf <= t, fef <= t <= lef`; the synthetic <s>/</s> nodes are markers "
                      "(<s> at frame 0 linked to the word nodes starting at 0 with ef 0; links into </s> carry ef = n_frames) — DESIGN §4/C11",
                      "grammar paths are checked against the search FSG (with filler loops and alternate pronunciations added), one word step = word arc or one null arc + word arc"]
    if not c.lean_obligations():
        return
    binp = vlib.build_harness("h_c11")
    audios = audio_files(str(c.scratch / "audio"))
    rng = c.rng.fork()
    stats = {}
    ncases = 22 if c.tier == "quick" else 700
    cases = [dict(x, _corpus=True) for x in load_corpus("C11")]
    ncorp = len(cases)
    for _ in range(ncases):
        cs = gen_case(rng, audios)
        if rng.chance(0.5):
            cs = aim_case(rng, cs, audios, stats)
        cases.append(cs)
    # several utterances of equal length on one decoder (a lattice must not survive decoder_start_utt)
    for _ in range(4 if c.tier == "quick" else 60):
        cases.append(multi_case(rng, audios))
    # cache across decoder_end_utt: full_utt decodes (nothing left to flush) with a request on both sides of the end
    for _ in range(4 if c.tier == "quick" else 60):
        cs = gen_case(rng, audios)
        cs.update(full=True, mids=[])
        cases.append(cs)
    # position sweeps: one decode, a (light) lattice request every few frames — requests are cheap compared with the decode
    lin = "#JSGF V1.0; grammar g; public <g> = go forward ten meters ;"
    br = "#JSGF V1.0; grammar g; public <g> = go (forward | backward | for ward) (ten | one | two | tend | a) [meter | meters | meet] ;"
    cases.append(sweep_case(rng, audios, lin, "goforward", [], None, 4))
    cases.append(sweep_case(rng, audios, br, "goforward", [], rng.choice([None, 152, 210]), 4))
    for _ in range(2 if c.tier == "quick" else 80):
        g, kind = gen_grammar(rng)
        au = rng.weighted([("goforward", 5), ("goforward_fr", 2), ("pizza", 3)])
        cases.append(sweep_case(rng, audios, g, au, BEAMS[rng.choice(["default", "default", "narrow", "wide"])], None, rng.range(3, 7), kind=kind))
    nlat, build_ok, nbuild, distinct = 0, True, 0, set()
    harness_ok = True
    viols, nmism = [], 0
    for ci, case in enumerate(cases):
        res, mism, fail = eval_case(c, binp, audios, case, stats)
        if fail:
            harness_ok = False
            c.oblige("harness + driver run to completion without sanitizer report / abort", False, {"case": describe(case), **fail})
            viols.append((True, None, {"kind": "sanitizer report, abort or exit inside the lattice code", "case": describe(case), **fail,
                                       "how_to_rerun": "python3 tools/check.py C11 --replay <this file>", "case_raw": case}, None, None))
            if len(viols) > 8:
                break
            continue
        if ci < ncorp + 2:
            c.samples.append(dict(describe(case), lattices=[("NULL" if d["null"] else f"{len(d['nodes'])} nodes/{len(d['links'])} links @ {d['frame']} frames") for d, _, _, _ in res]))
        for (d, rep, tab, probs) in res:
            nlat += 1
            if not d["null"]:
                distinct.add((case["grammar"], case["audio"], tuple(case["cfg"]), d["frame"]))
                nbuild += 1
            for (what, found, key) in probs:
                viols.append((found, key, {"kind": "word lattice violates C11", "what": what, "request": d["tag"], "n_frames": d["frame"],
                                           "first_best": [x[:3] for x in real_segs(d)],
                                           "lattice_nodes": [(n["word"], n["sf"], n["fef"], n["lef"], n["state"]) for n in d["nodes"]][:60],
                                           "lattice_links": [(l["src"], l["dst"], l["ef"], l["ascr"]) for l in d["links"]][:120],
                                           "checker_clauses": rep.get("clauses"),
                                           "how_to_rerun": "python3 tools/check.py C11 --replay <this file>"}, case, d["tag"]))
        for (tag, mm) in mism:
            build_ok = False
            nmism += 1
            if nmism <= 3:
                c.oblige("correspondence buildLattice = fsg_search_lattice", False, {"case": describe(case), "request": tag, "mismatch": mm})
        if len(viols) > 40:
            break
    # record violations: those with a failing input first, one per witness class, each shrunk
    viols.sort(key=lambda v: (not v[0],))
    seen_cls, nrec = set(), 0
    for (found, key, obj, case, tag) in viols:
        cls = key or obj.get("what", obj["kind"]).split(":")[0][:60]
        if cls in seen_cls or nrec >= 6:
            continue
        seen_cls.add(cls)
        nrec += 1
        if case is not None:
            small = case
            if found and not case.get("_corpus"):
                what = obj["what"]

                def still(cand, what=what):
                    r2, _, f2 = eval_case(c, binp, audios, cand, None, with_build=False)
                    if f2 or not r2:
                        return False
                    return any(w2.split(":")[0] == what.split(":")[0] for (_, _, _, p2) in r2 for (w2, _, _) in p2)
                small = shrink_case(c, binp, audios, case, tag, still)
            obj = dict(obj, case=describe(small), case_raw={k: v for k, v in small.items() if not k.startswith("_")})
        c.violation(obj, found, finding_key=key)
    c.oblige("latticeOKB (verified checker) accepts every lattice the implementation returned; first-best on a validated path; cache returns the same object",
             not viols, f"{len(viols)} violations in {nlat} lattice requests")
    c.oblige("correspondence: model buildLattice on the dumped history = lattice of fsg_search_lattice (nodes, links, scores, start/end; canonically sorted) on every request",
             build_ok, f"{nmism} mismatching requests")
    c.oblige("every harness run finished without sanitizer report, assert or leak", harness_ok)
    if harness_ok:
        c.oblige("later utterances on the same decoder requested a lattice at the frame count of the previous utterance's last lattice",
                 stats.get("cache:same-frame-count-as-the-last-lattice-of-the-previous-utterance", 0) >= 1, {k: v for k, v in stats.items() if k.startswith("cache")})
        c.oblige("the cache clause was exercised across decoder_end_utt at an unchanged frame count (full_utt decodes)",
                 stats.get("cache:same-frame-count-across-decoder_end_utt", 0) >= 1, {k: v for k, v in stats.items() if k.startswith("cache")})
    c.cov.update({"evaluations": nlat, "distinct_nontrivial": len(distinct),
                  "rule": "one evaluation = one lattice request (mid-utterance or final) of a generated decode; non-trivial = a lattice was returned; "
                          "distinct by (grammar, audio, config, frame count)",
                  "cases": len(cases), "corpus_cases": ncorp, "lattices_compared_with_model": nbuild, "distribution": dict(sorted(stats.items()))})


def replay(c, path):
    c.lean_obligations()
    binp = vlib.build_harness("h_c11")
    audios = audio_files(str(c.scratch / "audio"))
    obj = json.loads(open(path).read())
    case = obj["case_raw"]
    res, mism, fail = eval_case(c, binp, audios, case, {})
    if fail:
        c.violation({"kind": "sanitizer report, abort or exit inside the lattice code", "case": describe(case), **fail, "case_raw": case}, True)
    else:
        for (d, rep, tab, probs) in res:
            for (what, found, key) in probs:
                c.violation({"kind": "word lattice violates C11", "what": what, "request": d["tag"], "case": describe(case), "case_raw": case}, found, finding_key=key)
        for (tag, mm) in mism:
            c.oblige("correspondence buildLattice = fsg_search_lattice", False, {"request": tag, "mismatch": mm})
    c.cov.update({"evaluations": 1, "distinct_nontrivial": 1})
