"""C09 — no sequence of API calls corrupts memory, aborts, or leaks.

Lean: SSVerif/Model/Protocol.lean (protocol automaton + ownership ledger over the public calls),
SSVerif/Props/C09.lean (totality / documented classes, out-of-order calls are no-ops that leave the decoder
usable, ledger balance for every history, in-protocol calls only touch live objects).
Tie: generated call histories are replayed on the real library (harness/h_c09.c, ASan/UBSan/LSan, asserts
on); the transcript (call + what the implementation returned) is replayed on the model by `ssdriver c09`;
return class and protocol state (utterance state, search/aligner/json/lattice present, reference count,
outstanding iterators and user references) are diffed per call.
Oracle (implementation side): a sanitizer report, failed assertion, exit(), timeout or leak while replaying a
history of in-protocol / listed out-of-order calls is a violation with the shrunk history as replay; so is
a listed out-of-order call that does not return its documented error value or changes the state.
NOT proved: absence of out-of-bounds accesses in the C code (observed on the generated histories only).

API level (round 2; Model/ProtocolApi.lean, Props/C09Api.lean): the exported surface is regenerated from the current headers
(tools/gen_apisurface.py -> Generated/ApiSurface.lean + harness/gen_c09_api.h); `C09_api_total` says every exported function is
executed by a model operation or excluded with a reason.  The harness counts, per executed call, which exported functions it
reached (generated wrapper macros); the check compares that with the model's `executes` table (printed by the driver), demands that
every operation kind and every class-(a) function was executed, and prints the op-kind mix / return class per kind / call
count per function.  New operations: decoder_create, borrowed strings (decoder_hyp / result_json / get_cmn / hyp_iter_hyp kept and
READ later iff the model still calls them readable), owned strings (decoder_lookup_word), alignment_propagate, config_validate /
_expand / _log_* / config_parse_json(NULL) / config_set.  Predicted, not echoed (`Seen`, driver level): frame counter arithmetic,
repeat-stability of hyp / seg, hyp => seg, seg NULL => alignment NULL, add_word / lookup_word outcomes from the history.
"""
import json, os, re, concurrent.futures as cf
import vlib

NSLOT = 6
GOLEN = 44580  # samples in goforward.raw

GRAM_OK = ["go", "move", "opt", "star", "plus", "nullonly", "grp", "long", "hello"]
# documented error classes of a grammar string: empty string, no public rule, word missing from the dictionary.
# Syntactically malformed text ("syntax", "garbage" in the harness) belongs to C10 and is not generated here
# (known there: a JSGF syntax error leaks the parser's semantic values, witness class leak:jsgf-syntax-error).
GRAM_BAD = ["empty", "nopublic", "oov"]
GRAM_BAD_ALL = GRAM_BAD + ["syntax", "garbage"]
FSG_OK = ["file", "hand", "nulls", "loop", "shared"]
FSG_BAD = ["oov"]
ALIGN_OK = ["go", "one", "ws", "rep", "hello", "empty", "blank"]
ALIGN_BAD = ["oov"]
CLIPS = ["go", "go", "go", "zero", "noise", "quiet", "sq", "dc", "imp", "soft"]
INIT_OK = ["jsgf", "fsg", "none"]
INIT_BAD = ["nojsgf", "nofsg", "badhmm", "null"]
CFG_KEYS_F = ["beam", "wbeam", "pbeam", "lw", "wip", "pip", "silprob", "fillprob", "ascale"]
CFG_KEYS_B = ["compallsen", "backtrace", "fsgusefiller", "fsgusealtpron", "bestpath"]


class Track:
    """generator-side (untrusted) mirror of the protocol state: only used to aim the generator at
    in-protocol and listed out-of-order calls; the Lean model re-classifies the real transcript."""

    def __init__(self):
        self.alive = False
        self.refs = 0
        self.utt = "i"
        self.search = False
        self.blocks = 0      # audio blocks in this utterance
        self.full = False    # a full_utt block was given
        self.seg = {}        # slot -> kind ('S' from decoder, 'H' from a hyp iterator), valid
        self.hyp = {}
        self.ali = {}        # slot -> (source: -1 decoder-owned | k retained slot, valid)
        self.aln = set()
        self.everutt = False
        self.alias = {}      # believed lattice identity -> class of identities that may be the same real object
        self.dagobj = None   # identity of the decoder's current lattice object (None = none)
        self.dagfresh = False
        self.lat = {}        # slot -> lattice object identity (user references)
        self.ln = {}         # node iterators: slot -> [object identity, valid]
        self.ll = {}         # link iterators
        self.wildcfg = False
        self.built = set()   # alignment slots the history builds itself (alignment_init / add_word / populate)
        self.pos = 0         # position in the recording for streaming blocks
        self.speech = 0      # samples of the recording given in the current / last utterance
        self.cfg = {"jsgf": "none", "fsg": "none"}   # grammar keys of the decoder's configuration: none|good|bad
        self.created = False  # made by decoder_create, not initialised yet
        self.nocfg = False    # ... and without a configuration (decoder_create(NULL))

    def eff_gram(self):
        return self.cfg["jsgf"] if self.cfg["jsgf"] != "none" else self.cfg["fsg"]

    def same_obj(self, a, b):
        """may the two believed identities be one real object?  The generator does not know whether
        `decoder_lattice` really rebuilt the lattice when it only suspects that frames were searched (a block may
        search no frame): the new identity is then an ALIAS of the old one."""
        return a is not None and b is not None and self.alias.get(a, a) == self.alias.get(b, b)

    def kill_obj(self, obj, pruned=False):
        """node / link iterators into a lattice object that was released (exact identity: if it is in fact still
        alive under an alias, believing it dead is the safe side) or pruned (every alias: nodes are gone)"""
        for d in (self.ln, self.ll):
            for k in d:
                if d[k][0] == obj or (pruned and self.same_obj(d[k][0], obj)):
                    d[k][1] = False

    def lattice_call(self, counter):
        """decoder_lattice: reuse when it covers the current frames, else the old object is released"""
        if not (self.dagobj is not None and self.dagfresh):
            old = self.dagobj
            self.invalidate("dag")
            counter[0] += 1
            self.dagobj, self.dagfresh = counter[0], True
            if old is not None:
                # same search, no certain rebuild: the implementation may have returned the old object
                self.alias[self.dagobj] = self.alias.get(old, old)
        return self.dagobj

    def invalidate(self, what):
        """what: 'result' (search history gone), 'dag' (lattice gone), 'align' (decoder-owned aligner gone)"""
        if what == "result":
            for k in self.seg:
                self.seg[k] = (self.seg[k][0], False)
            what = "dag"
        if what == "dag":
            # the search dropped its lattice: the object lives on only through user references
            for k in self.hyp:
                self.hyp[k] = False
            for k in self.seg:
                if self.seg[k][0] == "H":
                    self.seg[k] = ("H", False)
            old, self.dagobj, self.dagfresh = self.dagobj, None, False
            if old is not None and old not in self.lat.values():
                self.kill_obj(old)
        if what == "align":
            for k in self.ali:
                if self.ali[k][0] == -1:
                    self.ali[k] = (-1, False)


_CFG_TABLE = None
# the widened API surface (lattice functions, typed configuration calls, held sub-objects, two decoders, MLLR, log file)
# is generated only when the model driver understands it
EXTENDED = os.environ.get("C09_EXTENDED", "1") == "1"


def _src_const(path, pattern, default):
    """a sizing constant of the families, read from the CURRENT source so that the family follows it"""
    try:
        m = re.search(pattern, (vlib.REPO / path).read_text())
        return int(m.group(1)) if m else default
    except OSError:
        return default


# entries per block of a blkarray_list (FSG history table); frames of a fresh feature buffer (acmod_alloc_buffers)
HIST_BLKSIZE = _src_const("src/blkarray_list.c", r"#define\s+BLKARRAY_DEFAULT_BLKSIZE\s+(\d+)", 16380)
FEAT_ALLOC = _src_const("src/acmod.c", r"acmod->n_mfc_alloc\s*=\s*(\d+)\s*;", 128)


def config_table():
    """(name, type) of the configuration parameters, read from the current config_defs.h"""
    global _CFG_TABLE
    if _CFG_TABLE is None:
        txt = (vlib.REPO / "include" / "soundswallower" / "config_defs.h").read_text()
        txt = txt.replace("\\\n", "\n")          # line continuations of the macro bodies
        ents = re.findall(r'\{\s*"([a-z_0-9]+)",\s*((?:REQ)?ARG_[A-Z]+),', txt)
        tmap = {"INTEGER": "int", "FLOATING": "float", "STRING": "str", "BOOLEAN": "bool"}
        _CFG_TABLE = {n: tmap[t.split("_")[-1]] for n, t in ents}
    return _CFG_TABLE


# parameters whose value may be changed on a live decoder (read at reinit / grammar load / lattice build only through
# code that accepts every value generated here)
SAFE_F = {"beam": ["1e-48", "1e-20", "1e-10", "1.0"], "wbeam": ["7e-29", "1e-8"], "pbeam": ["1e-48", "1e-10"],
          "lw": ["6.5", "1", "0.5", "12"], "wip": ["0.65", "1.0", "1e-5"], "pip": ["1.0", "0.5"],
          "silprob": ["0.005", "0.5", "1.0"], "fillprob": ["1e-8", "0.5"], "ascale": ["20.0", "1", "7.5"]}
SAFE_B = ["compallsen", "backtrace", "fsgusefiller", "fsgusealtpron", "bestpath"]
SAFE_I = {"maxhmmpf": ["-1", "50", "30000"]}
SAFE_S = {"cmninit": ["40,3,-1", "41", "NULL"]}
STR_VALUES = ["NULL", "EMPTY", "7", "-3", "2.5", "1e-5", "yes", "no", "true", "junk"]


def str_accepts(ktype, v):
    """does config_set_str accept the value for a parameter of this type (anytype_from_str)?  Generator side only:
    the model has its own copy (`cfgStrOk`)."""
    if v == "NULL":
        return True
    if v == "EMPTY":
        return False
    if ktype in ("str", "float"):
        return True
    if ktype == "int":
        return v in ("7", "-3", "2.5", "1e-5")
    return v in ("1e-5", "yes", "no", "true")      # bool: first character decides


def typed_config_call(rng, safe_only):
    """one config_* call (without the leading 'cfg' / 'cfgk <slot>')"""
    tab = config_table()
    if not safe_only:
        key = rng.choice(sorted(tab) + ["nosuchkey"])
        r = rng.below(6)
        if r == 0:
            return f"str {key} {rng.choice(STR_VALUES)}"
        if r == 1:
            return f"int {key} {rng.choice(['0', '-1', '7', '2000000000'])}"
        if r == 2:
            return f"float {key} {rng.choice(['0', '1e-30', '2.5', '-1e10'])}"
        if r == 3:
            return f"bool {key} {rng.below(2)}"
        if r == 4:
            return rng.choice(["unset", "setnull", "same", "get", "typeof"]) + " " + key
        return "parse " + rng.choice(["ok", "unknown", "empty", "trunc"])
    r = rng.below(10)
    if r == 0:
        k = rng.choice(sorted(SAFE_F))
        return f"float {k} {rng.choice(SAFE_F[k])}"
    if r == 1:
        k = rng.choice(sorted(SAFE_F))
        return f"str {k} {rng.choice(SAFE_F[k])}"
    if r == 2:
        return f"{rng.choice(['bool', 'int', 'float'])} {rng.choice(SAFE_B)} {rng.below(2)}"
    if r == 3:
        return f"str {rng.choice(SAFE_B)} {rng.choice(['yes', 'no', 'true', 'junk', '7', 'EMPTY'])}"
    if r == 4:
        k = rng.choice(sorted(SAFE_I))
        return f"{rng.choice(['int', 'str'])} {k} {rng.choice(SAFE_I[k])}"
    if r == 5:
        k = rng.choice(sorted(SAFE_S))
        return f"str {k} {rng.choice(SAFE_S[k])}"
    key = rng.choice(sorted(tab) + ["nosuchkey", "nosuchkey"])
    if r == 6:
        return rng.choice(["get", "typeof", "same", "same"]) + " " + key
    if r == 7:
        return "json x"
    if r == 8:
        # a value the parser of this parameter's type refuses: the configuration must stay as it is
        ktype = tab.get(key)
        bad = [v for v in STR_VALUES if ktype is None or not str_accepts(ktype, v)]
        return f"str {key} {rng.choice(bad)}" if bad else f"get {key}"
    k = rng.choice(sorted(SAFE_F) + SAFE_B + sorted(SAFE_I))
    return rng.choice(["unset", "setnull"]) + " " + k


# generator-side (untrusted) mirror of `keepsHyp` / `keepsJson` / `keepsCmn` of Model/ProtocolApi.lean, by harness op word:
# a borrowed pointer is believed dead after any call on its decoder that is not listed.  Being wrong only costs
# coverage (the model re-classifies the transcript: reading a borrow the model dropped is out-of-protocol).
KEEP_HYP = {"nframes", "times", "getcmn", "setcmn", "cmnhold", "lookup", "lookuphold", "retain", "logfile", "proc", "seg",
            "segnext", "segfree", "hypnext", "hypfree", "hypseg", "iterhold", "alinext", "alichild", "aligoto", "alifree",
            "albuild", "aladd", "alpop", "alfree", "alprop", "lnodenext", "lnodefree", "llink", "llinknext", "llinkfree",
            "cfgvalidate", "cfglog", "freenull", "buse", "struse", "strfree"}
KILL_JSON = {"json", "jsonhold", "start", "reinit", "reinitcfg", "free", "init", "initcfg", "create"}
KEEP_CMN = (KEEP_HYP - {"getcmn", "setcmn", "proc"}) | {"hyp", "hyphold", "prob", "nbest", "lattice", "latretain", "latwalk",
                                                        "latfree", "latbest", "latprune", "lattrav", "lnode", "align",
                                                        "alretain", "aliter", "json", "jsonhold", "addword"}


def borrow_survives(kind, opword, line):
    w = line.split()
    if opword in ("cfg", "cfgk"):
        sub = w[1] if opword == "cfg" else (w[2] if len(w) > 2 else "")
        quiet = sub in ("get", "typeof", "json")
    elif opword == "subretain":
        quiet = True
    else:
        quiet = None
    if kind == "hyp":
        return quiet if quiet is not None else opword in KEEP_HYP
    if kind == "json":
        return opword not in KILL_JSON
    if kind == "cmn":
        return quiet if quiet is not None else opword in KEEP_CMN
    return True


def gen_history(rng, stats, maxcalls=40, profile=None):
    """one history: list of call lines.  Never emits an out-of-protocol call (see module docstring of the
    Lean model for the classification)."""
    tracks = [Track(), Track()]

    class Cur:
        """the track of the decoder instance the next call is made on"""
        i = 0

        def __getattr__(self, name):
            return getattr(tracks[Cur.i], name)

        def __setattr__(self, name, val):
            setattr(tracks[Cur.i], name, val)
    t = Cur()
    sh = {"cfg": {}, "lmath": set(), "fe": set(), "feat": set(), "ml": {}, "wild": set(),   # held sub-objects (shared tables)
          "bor": {}, "str": set()}     # borrowed strings: slot -> (kind, instance, hyp slot) ; owned strings: slots
    objctr = [0]
    ops = []
    if EXTENDED:
        profile = profile or rng.weighted([("mixed", 24), ("queries", 12), ("lifecycle", 9), ("outoforder", 9), ("longaudio", 8),
                                           ("lattice", 9), ("config", 6), ("subobj", 5), ("twodec", 7), ("overlong", 3),
                                           ("apiwide", 12), ("betweenutt", 7), ("blockcross", 3)])
    else:
        profile = profile or rng.weighted([("mixed", 46), ("queries", 18), ("lifecycle", 14), ("outoforder", 14), ("longaudio", 8)])
    stats["profiles"][profile] = stats["profiles"].get(profile, 0) + 1
    stats["last_profile"] = profile
    smalldict = rng.chance(0.7)

    def emit(s, kind):
        ops.append(("@1 " if Cur.i == 1 else "") + s)
        stats["calls"][kind] = stats["calls"].get(kind, 0) + 1
        # borrowed pointers of this decoder die unless the call is known to leave them alone
        opw = s.split()[0]
        for k in list(sh["bor"]):
            bk, bi, _ = sh["bor"][k]
            if bi == Cur.i and not borrow_survives(bk, opw, s):
                del sh["bor"][k]

    def init_args(g):
        a = g
        if smalldict and g not in ("null",):
            a += " dict tests/data/turtle.dic"
        if rng.chance(0.15):
            a += " compallsen yes"
        if rng.chance(0.1):
            a += " backtrace yes"
        if rng.chance(0.1):
            a += " beam 1e-10 wbeam 1e-8 pbeam 1e-10"
        if rng.chance(0.08):
            a += " maxhmmpf 50"
        if rng.chance(0.06):
            a += " fsgusefiller no"
        if rng.chance(0.06):
            a += " bestpath yes"
        if EXTENDED and g != "null" and rng.chance(0.08):
            # a dictionary file with refused lines (alternate of a missing base, duplicate word, unknown phone): the
            # loader reports and ignores them
            a = a.replace(" dict tests/data/turtle.dic", "") + " sdict refused-lines.dic"
        if EXTENDED and rng.chance(0.2):
            a += " loglevel ERROR"      # error messages are really written (to stderr or to the decoder's log file)
        return a

    def do_init(force_good=False):
        if not force_good and rng.chance(0.12):
            g = rng.choice(INIT_BAD + ["badlog"])
            if g == "badlog":
                emit("init " + init_args(rng.choice(INIT_OK)) + " loglevel BOGUS", "init-bad")
            else:
                emit("init " + init_args(g), "init-bad")
            return
        g = rng.choice(["jsgf", "fsg"]) if force_good else rng.choice(INIT_OK)
        emit("init " + init_args(g), "init-" + g)
        t.alive, t.refs, t.utt, t.search = True, 1, "i", g != "none"
        t.cfg = {"jsgf": "good" if g == "jsgf" else "none", "fsg": "good" if g == "fsg" else "none"}
        t.blocks, t.full = 0, False

    def free_slot(d):
        fr = [k for k in range(NSLOT) if k not in d]
        return rng.choice(fr) if fr else None

    def audio_block(full=False):
        clip = rng.choice(CLIPS)
        if not full and rng.chance(0.55):
            # streaming speech: the next piece of the recording, so that real results (words, lattices with
            # several paths, alignments) appear
            ln = rng.choice([2048, 4000, 8000, 8000, 12000, 16000])
            off = t.pos
            t.pos = (t.pos + ln) % GOLEN
            t.speech += ln
            stats["blocks"]["go-stream"] = stats["blocks"].get("go-stream", 0) + 1
            return ("f32" if rng.chance(0.2) else "i16"), "go", off, ln
        if full:
            ln = rng.choice([0, 1, 160, 399, 400, 401, 2000, 4800, 8000, 16000, 24000, 36000, 44000])
            if ln >= 16000 and rng.chance(0.7):
                clip = "go"
                t.speech += ln
        else:
            ln = rng.choice([0, 1, 80, 159, 160, 161, 255, 256, 257, 399, 400, 401, 512, 1024, 2048, 4000, 8000,
                             rng.range(1, 3000), rng.range(3000, 16000)])
        off = rng.choice([0, 0, 3000, 8000, rng.range(0, GOLEN - 1)])
        fmt = "f32" if rng.chance(0.3) else "i16"
        stats["blocks"][clip] = stats["blocks"].get(clip, 0) + 1
        return fmt, clip, off, ln

    def long_utterances():
        """long-audio stratum: several whole-recording utterances on ONE decoder, alternating between streaming
        (one chunk size per utterance, buffers grow: feature buffer 128 -> 256 -> 512 -> 1024 frames while the MFCC
        ring stays small), buffering without search, and a single full_utt block of varied length (MFCC buffer
        resized to the utterance) - in both orders, with queries at random points.  The recording wraps around,
        so lengths beyond 2.8 s are repetitions of it."""
        modes = rng.choice([["stream", "full"], ["full", "stream"], ["stream", "full", "stream"], ["full", "stream", "full"],
                            ["stream", "full", "full"], ["buffer", "full"], ["stream", "stream", "full"],
                            ["full", "full"], ["stream", "buffer", "full"]])
        for mode in modes:
            emit("start", "start")
            t.utt, t.blocks, t.full, t.everutt, t.pos, t.speech = "s", 0, False, True, 0, 0
            t.invalidate("result"); t.invalidate("align")
            fmt = "f32" if rng.chance(0.25) else "i16"
            if mode == "full":
                ln = rng.choice([13000, 16000, 20500, 24000, 30000, 36000, GOLEN, 52000, 60000, 2 * GOLEN, rng.range(12900, 2 * GOLEN)])
                emit(f"proc {fmt} go 0 {ln} {1 if rng.chance(0.1) else 0} 1", "proc-long-full")
                t.blocks, t.full, t.speech = 1, True, ln
            else:
                total = rng.choice([21000, 30000, GOLEN, GOLEN, 60000, 2 * GOLEN])
                chunk = rng.choice([1024, 2048, 2048, 4000, 4096, 8000, 16000, total])
                if total // chunk > 45:
                    chunk = 4096
                ns = 1 if mode == "buffer" else 0
                pos = 0
                while pos < total:
                    ln = min(chunk, total - pos)
                    emit(f"proc {fmt} go {pos % GOLEN} {ln} {ns} 0", "proc-long-" + mode)
                    pos += ln
                    t.blocks += 1
                    if rng.chance(0.06):
                        q = rng.choice(["hyp", "nframes", "json 0", "lattice", "getcmn 1"])
                        emit(q, q.split()[0])
                        if q == "lattice":
                            t.lattice_call(objctr)
                t.speech = total
            stats["blocks"]["long-" + mode] = stats["blocks"].get("long-" + mode, 0) + 1
            t.dagfresh = False
            t.invalidate("align")
            if rng.chance(0.9):
                emit("end", "end")
                t.utt = "e"
                for q in ["hyp", "json 1", "align", "lattice", "json 0"]:
                    if rng.chance(0.3):
                        emit(q, q.split()[0] + (q.split()[1] if q.startswith("json") else ""))
                        if q == "lattice":
                            t.lattice_call(objctr)
                        if q in ("json 1", "align"):
                            t.invalidate("align")
            else:
                break   # the random tail continues (or frees) in the middle of the long utterance

    def kill_ali_of(k):
        for j in list(t.ali):
            if t.ali[j][0] == k:
                t.ali[j] = (k, False)

    def overlong_alignment():
        """over-long alignment family: an alignment built by hand whose word / phone / state level is driven across
        the capacity of its 16-bit counted vector (allocations grow 11, 21, ... so a fresh level holds 65530 entries):
        `alignment_add_word` must return 0 and `alignment_populate(_ci)` -1 instead of wrapping the counter"""
        k = rng.below(NSLOT)
        emit("albuild %d" % k, "albuild")
        t.aln.add(k); t.built.add(k)
        cap = 65530
        fam = rng.choice(["states", "states", "phones", "words", "words", "two-phone", "small", "regrow"])
        stats["blocks"]["overlong-" + fam] = stats["blocks"].get("overlong-" + fam, 0) + 1
        if fam == "states":      # 6-phone words, 3 states per phone: 3640 words fit, 3641 do not
            emit(f"aladd {k} {cap // 18 + rng.choice([-1, 0, 1, 1, 2, 60])} forward", "aladd")
        elif fam == "phones":    # 10921 words = 65526 phones fit the phone level, 10922 do not
            emit(f"aladd {k} {cap // 6 + rng.choice([-1, 0, 1, 1, 2])} forward", "aladd")
        elif fam == "words":     # one-phone words: the word level itself
            emit(f"aladd {k} {cap + rng.choice([-1, 0, 1, 1, 6, 70, 5000])} a", "aladd")
        elif fam == "two-phone":
            emit(f"aladd {k} {cap // 2 + rng.choice([-1, 0, 1, 2])} go", "aladd")
        elif fam == "small":
            emit(f"aladd {k} {rng.choice([0, 1, 2, 11, 12])} {rng.choice(['a', 'go', 'forward'])}", "aladd")
        else:                    # several additions and populations: the allocations of the emptied levels are kept
            emit(f"aladd {k} {rng.choice([1000, 3000, 3640])} forward", "aladd")
            emit(f"alpop {k} {rng.choice(['cd', 'ci'])}", "alpop")
            emit(f"aladd {k} {rng.choice([1, 2, 700, 8000])} {rng.choice(['forward', 'go', 'a'])}", "aladd")
        # (reaching 65k entries costs seconds under ASan - every tenth entry reallocates the level: one population
        # as a rule, a second one now and then)
        for _ in range(rng.choice([1, 1, 1, 1, 2])):
            emit(f"alpop {k} {rng.choice(['cd', 'cd', 'ci'])}", "alpop")
            kill_ali_of(k)
            # look at what is there: first, last and past-the-end entries of every level, children of the last word
            for lvl in rng.choice([["words"], ["phones", "states"], ["words", "phones", "states"]]):
                j = free_slot(t.ali)
                if j is None:
                    break
                emit(f"aliter {j} {k} {lvl}", "aliter")
                t.ali[j] = (k, True)
                pos = rng.choice([0, 1, 3639, 10920, 21845, 65529, 65530, 65535, 70000])
                emit(f"aligoto {j} {pos}", "aligoto")
                if rng.chance(0.6):
                    j2 = free_slot(t.ali)
                    if j2 is not None:
                        emit(f"alichild {j2} {j}", "alichild")
                        t.ali[j2] = (k, True)
                        emit(f"alinext {j2}", "alinext")
                for _ in range(rng.choice([0, 1, 3])):
                    emit(f"alinext {j}", "alinext")
                if rng.chance(0.5):
                    emit(f"alifree {j}", "alifree")
                    t.ali.pop(j, None)
            if rng.chance(0.3):
                emit(f"aladd {k} {rng.choice([1, 5, 100])} {rng.choice(['a', 'go'])}", "aladd")
                kill_ali_of(k)

    def one_utterance(total, mode, fmt="i16", kind="bu"):
        """start, `total` samples of the recording (one full_utt block or chunks), end"""
        emit("start", "start")
        t.utt, t.blocks, t.full, t.everutt, t.pos, t.speech = "s", 0, False, True, 0, 0
        t.invalidate("result"); t.invalidate("align")
        if mode == "full":
            emit(f"proc {fmt} go 0 {total} 0 1", f"proc-{kind}-full")
            t.blocks, t.full = 1, True
        else:
            chunk = rng.choice([4096, 8000, 16000, GOLEN])
            pos = 0
            while pos < total:
                ln = min(chunk, total - pos)
                emit(f"proc {fmt} go {pos % GOLEN} {ln} 0 0", f"proc-{kind}-stream")
                pos += ln
                t.blocks += 1
        t.speech = total
        t.dagfresh = False
        t.invalidate("align")
        emit("end", "end")
        t.utt = "e"

    def result_queries(qs):
        """the result queries of the main loop, emitted in the given order (same bookkeeping as there)"""
        for q in qs:
            if q in ("align", "json 1", "json 2"):
                emit(q, q.replace(" ", ""))
                t.invalidate("align")
            elif q in ("hyp", "json 0", "nframes", "prob"):
                emit(q, q.replace(" ", ""))
            elif q == "lattice":
                emit(q, q)
                t.lattice_call(objctr)
            elif q == "seg":
                k = free_slot(t.seg)
                if k is not None:
                    emit(f"seg {k}", "seg")
                    t.seg[k] = ("S", True)
            elif q == "alretain":
                fr = [k for k in range(NSLOT) if k not in t.aln]
                if fr:
                    k = rng.choice(fr)
                    emit(f"alretain {k}", "alretain")
                    t.aln.add(k)
                    t.invalidate("align")
            elif q == "aliter":
                k = free_slot(t.ali)
                if k is not None:
                    emit(f"aliter {k} -1 {rng.choice(['words', 'phones', 'states'])}", "aliter")
                    t.invalidate("align")
                    t.ali[k] = (-1, True)

    def between_utterances():
        """between-utterances family: an utterance is decoded and ended (shorter than / around / longer than the fresh
        feature buffer of FEAT_ALLOC frames), optionally its alignment / lattice / JSON is made, then ONE OR TWO of the
        documented calls that are allowed between utterances and rebuild or replace something the result queries use
        (decoder_reinit_feat: fresh feature buffers - the ended utterance can no longer be rewound, so the second pass of
        decoder_alignment is REFUSED; decoder_reinit; MLLR; CMN; dictionary; grammar), then the result queries - some
        of them now refused - and then valid calls again: next utterance, alignment again, release."""
        nfa = FEAT_ALLOC
        frames = rng.choice([nfa // 3, nfa - 1, nfa, nfa + 1, nfa + 2, nfa + 40, nfa + 40, 2 * nfa + 10, 2 * nfa + 10, 3 * nfa])
        total = min(frames * 160 + 500, 3 * GOLEN)
        if rng.chance(0.75):
            # a grammar that accepts every prefix of the recording: a hypothesis exists at every utterance length
            emit("jsgf " + rng.choice(["star", "star", "opt", "wide"]), "jsgf-ok")
            t.search = True
            t.invalidate("result")
        else:
            total = max(total, GOLEN)      # `go forward ten meters` is only accepted once the whole recording was heard
        one_utterance(total, rng.choice(["full", "stream"]), "f32" if rng.chance(0.15) else "i16")
        # (an alignment made BEFORE the call is reused afterwards - nothing is rewound: the rarer variant)
        pre = [q for q in ["hyp", "lattice"] if rng.chance(0.3)] + [q for q in ["align", "json 1", "alretain"] if rng.chance(0.07)]
        result_queries(pre)
        nb = rng.choice([1, 1, 1, 2])
        for _ in range(nb):
            bc = rng.weighted([("reinitfeat", 12), ("reinit", 3), ("mllrapply", 2), ("setcmn", 2), ("getcmn", 1), ("logfile", 1),
                               ("addword", 2), ("cfg", 1), ("jsgf", 2), ("lookup", 1)])
            stats["blocks"]["between-" + bc] = stats["blocks"].get("between-" + bc, 0) + 1
            if bc == "reinitfeat":
                emit("reinitfeat", "reinitfeat")
            elif bc == "reinit":
                emit("reinit " + rng.choice(["null", "same"]), "reinit-null")
                t.search = t.eff_gram() == "good"
                t.utt = "i"
                t.invalidate("result"); t.invalidate("align")
            elif bc == "mllrapply":
                emit("mllrapply null", "mllrapply-null")
            elif bc == "setcmn":
                emit("setcmn " + rng.choice(["ok", "short", "zero"]), "setcmn")
            elif bc == "getcmn":
                emit(f"getcmn {rng.below(2)}", "getcmn")
            elif bc == "logfile":
                emit("logfile null", "logfile")
            elif bc == "addword":
                emit(f"addword new{rng.below(4)} ok 0", "addword")
            elif bc == "cfg":
                emit(f"cfg float {rng.choice(CFG_KEYS_F)} {rng.choice(['1e-20', '1e-5', '0.5'])}", "cfg-set")
            elif bc == "lookup":
                emit("lookup " + rng.choice(["known", "unknown", "new0"]), "lookup")
            else:
                emit("jsgf " + rng.choice(["go", "move", "star"]), "jsgf-ok")
                t.search = True
                t.invalidate("result")
        post = [q for q in ["align", "json 1", "json 2", "alretain", "aliter", "hyp", "seg", "json 0", "lattice"] if rng.chance(0.45)]
        if not any(q in post for q in ("align", "json 1", "json 2", "alretain", "aliter")):
            post.insert(0, rng.choice(["align", "json 1", "json 2"]))
        rng.shuffle(post)
        result_queries(post)
        # ... and then valid calls again
        nxt = rng.choice(["utt", "utt", "align", "free", "reinitfeat", "tail"])
        if nxt == "utt" and t.search:
            one_utterance(rng.choice([8000, 21000, GOLEN]), rng.choice(["full", "stream"]))
            result_queries([q for q in ["hyp", "align", "json 1"] if rng.chance(0.5)])
        elif nxt == "align":
            result_queries(["align", "json 2"])
        elif nxt == "reinitfeat":
            emit("reinitfeat", "reinitfeat")
            result_queries([rng.choice(["align", "json 1"])])
        elif nxt == "free" and t.refs == 1:
            emit("free", "free")
            t.refs, t.alive = 0, False
            t.created = t.nocfg = False
            t.invalidate("result"); t.invalidate("align")

    def block_crossing():
        """block-crossing family: containers of the search that grow in blocks - the FSG history table is a blkarray_list
        of HIST_BLKSIZE entries per block (constant read from src/blkarray_list.c).  A bushy looping grammar and an
        utterance sized from that constant take the table to just below / just across / well across its first block
        boundary (and across the second one); then the table is reset and reused: next utterance (short, or crossing
        again), new grammar, re-initialisation, release.  The harness reports entries and blocks at decoder_end_utt."""
        g = rng.choice(["wide", "wide", "wide", "star"])
        emit("jsgf " + g, "jsgf-ok")
        t.search = True
        t.invalidate("result")
        epf = 36 if g == "wide" else 14       # entries per frame seen with these grammars on the recording
        big = [1.15, 1.15, 1.6, 2.2] + ([3.3, 5.0] if maxcalls > 40 else [])
        nutt = rng.choice([1, 2, 2, 3])
        for u in range(nutt):
            f = rng.choice(big if u == 0 and rng.chance(0.7) else [0.2, 0.9] + big)
            frames = int(HIST_BLKSIZE * f / epf) + 1
            one_utterance(frames * 160, rng.choice(["full", "stream", "stream"]), kind="bc")
            stats["blocks"]["blockcross-%s-x%.2f" % (g, f)] = stats["blocks"].get("blockcross-%s-x%.2f" % (g, f), 0) + 1
            result_queries([q for q in ["hyp", "json 0", "seg", "nframes"] if rng.chance(0.3)])
            r = rng.choice(["next", "next", "gram", "reinit", "free", "tail"]) if u == nutt - 1 else "next"
            if r == "gram":
                emit("jsgf " + rng.choice(["go", "wide"]), "jsgf-ok")
                t.invalidate("result")
            elif r == "reinit":
                emit("reinit null", "reinit-null")
                t.search = t.eff_gram() == "good"
                t.utt = "i"
                t.invalidate("result"); t.invalidate("align")
            elif r == "free" and t.refs == 1:
                emit("free", "free")
                t.refs, t.alive = 0, False
                t.created = t.nocfg = False
                t.invalidate("result"); t.invalidate("align")

    def add_refusals():
        """family: every refusal kind of decoder_add_word (duplicate word, duplicate alternate - added by the caller or already
        in the dictionary file -, alternate without base, unknown phone, empty word / pronunciation, duplicate of an added word
        and of its alternate) followed DIRECTLY by a grammar / FSG / alignment text that USES the words involved, then a decode"""
        for _ in range(rng.range(1, 3)):
            rk = rng.choice(["dup-word", "dup-alt", "dup-alt", "dup-alt-dict", "alt-no-base", "unknown-phone", "empty-word", "empty-pron",
                             "dup-new", "dup-alt-of-new"])
            upd = 1 if rng.chance(0.3) else 0
            k = rng.below(4)
            uses_fwd = [("jsgf go", "jsgf-ok"), ("jsgf move", "jsgf-ok"), ("jsgf star", "jsgf-ok"), ("fsg hand", "fsg-ok"), ("fsg file", "fsg-ok"),
                        ("fsg loop", "fsg-ok"), ("aligntext go", "aligntext-ok"), ("aligntext ws", "aligntext-ok")]
            nxt = rng.choice(uses_fwd)
            if rk == "dup-word":
                emit(f"addword known {rng.choice(['ok', 'one', 'long'])} {upd}", "addword")
            elif rk == "dup-alt":
                emit("addword alt ok 0", "addword")
                emit(f"addword alt {rng.choice(['ok', 'one', 'long'])} {upd}", "addword")
            elif rk == "dup-alt-dict":
                emit(f"addword altdict {rng.choice(['ok', 'one'])} {upd}", "addword")
                nxt = rng.choice([("jsgf hello", "jsgf-ok"), ("jsgf grp", "jsgf-ok"), ("aligntext hello", "aligntext-ok")])
            elif rk == "alt-no-base":
                emit(f"addword altmissing ok {upd}", "addword")
            elif rk == "unknown-phone":
                emit(f"addword {rng.choice(['altnew', 'alt', 'new%d' % k])} bad {upd}", "addword")
            elif rk == "empty-word":
                emit(f"addword empty ok {upd}", "addword")
            elif rk == "empty-pron":
                emit(f"addword {rng.choice(['altnew', 'known', 'new%d' % k])} {rng.choice(['empty', 'blank'])} {upd}", "addword")
            elif rk == "dup-new":
                emit(f"addword new{k} ok 0", "addword")
                emit(f"addword new{k} {rng.choice(['ok', 'one'])} {upd}", "addword")
                nxt = (f"jsgf usenew{k}", "jsgf-ok")
            else:
                emit(f"addword new{k} ok 0", "addword")
                emit(f"addword altofnew{k} ok 0", "addword")
                emit(f"addword altofnew{k} {rng.choice(['ok', 'one'])} {upd}", "addword")
                nxt = (f"jsgf usenew{k}", "jsgf-ok")
            if upd:
                t.invalidate("result")
            stats["blocks"]["addrefuse-" + rk] = stats["blocks"].get("addrefuse-" + rk, 0) + 1
            emit(*nxt)
            t.search = True
            t.invalidate("result")
            if rng.chance(0.8):
                one_utterance(rng.choice([8000, 16000, GOLEN]), rng.choice(["full", "stream"]))
                result_queries([q for q in ["hyp", "json 0", "seg"] if rng.chance(0.6)])

    if profile == "addrefuse":
        do_init(force_good=True)
        add_refusals()
        n = min(len(ops) + rng.range(1, 6), max(maxcalls, len(ops) + 1))
    elif profile == "betweenutt":
        do_init(force_good=True)
        between_utterances()
        n = min(len(ops) + rng.range(2, 10), max(maxcalls, len(ops) + 2))
    elif profile == "blockcross":
        do_init(force_good=True)
        block_crossing()
        n = min(len(ops) + rng.range(1, 6), max(maxcalls, len(ops) + 1))
    elif profile == "overlong":
        do_init(force_good=True)
        if rng.chance(0.25):
            # the alignment outlives its decoder (it retains the dictionary-to-senone mapping)
            k0 = len(ops)
            overlong_alignment()
            ops.insert(k0 + 1, "free")
            stats["calls"]["free"] = stats["calls"].get("free", 0) + 1
            t.alive, t.refs = False, 0
            t.invalidate("result"); t.invalidate("align")
        else:
            overlong_alignment()
        n = min(len(ops) + rng.range(2, 10), max(maxcalls, len(ops) + 2))
    elif profile == "longaudio":
        do_init(force_good=True)
        if rng.chance(0.3):
            emit("jsgf " + rng.choice(["go", "move", "star", "long"]), "jsgf-ok")
            t.invalidate("result")
        long_utterances()
        n = min(len(ops) + rng.range(2, 10), max(maxcalls, len(ops) + 2))
    else:
        do_init()
        n = rng.range(6, maxcalls)
    while len(ops) < n:
        if profile == "twodec" and rng.chance(0.35):
            Cur.i = 1 - Cur.i          # the next calls go to the other decoder instance
        alive = t.alive and not t.created
        inutt = alive and t.utt == "s"
        w = []
        usable_cfg = [k for k, o in sh["cfg"].items() if not o.get("wild")]
        if t.alive and t.created:
            # allocated and configured, not initialised: only re-initialisation, release, retention, the log file and
            # the configuration are calls of the protocol
            w += [("reinit", 24), ("free", 5), ("retain", 2), ("logfile", 2), ("freenull", 1),
                  ("reinitcfg", 6 if usable_cfg else 0)]
            if not t.nocfg:
                w += [("cfg", 3), ("cfgtyped", 3), ("cfg-gram", 3), ("cfgvalidate", 3), ("cfgexpand", 2), ("cfglog", 2),
                      ("cfgsetany", 2), ("subretaincfg", 2)]
        elif not alive:
            # decoder gone (or never created): a new decoder, the null-argument calls, and everything that works on
            # objects the history still holds
            w += [("init", 30), ("freenull", 3), ("stop", 6 if profile != "twodec" else 2), ("initcfg", 25 if usable_cfg else 0),
                  ("create", 7)]
        elif not inutt:
            w += [("start", 14 if t.search else 3)]
            w += [("end-ooo", 3), ("proc-ooo", 5)]
            w += [("gram", 7), ("aligntext", 4), ("fsg", 3), ("addword1", 2), ("reinit", 3), ("cfg-gram", 2), ("weirdwords", 3)]
        else:
            if not t.full:
                w += [("proc", 30 if t.blocks < 6 else 6)]
                if t.blocks == 0:
                    w += [("proc-full", 5)]
            w += [("end", 10), ("start-ooo", 3)]
        if alive:
            w += [("hyp", 6), ("prob", 2), ("nframes", 2), ("seg", 6), ("nbest", 5), ("lattice", 4), ("latbest", 2),
                  ("latretain", 2), ("align", 5), ("alretain", 2), ("aliter", 4), ("json", 6), ("getcmn", 2), ("setcmn", 2),
                  ("lookup", 2), ("addword0", 3), ("cfg", 2), ("cfgtyped", 2), ("times", 1), ("retain", 2), ("free", 4),
                  ("freenull", 1), ("logfile", 1), ("subretain", 2),
                  ("hyphold", 3), ("jsonhold", 2), ("cmnhold", 2), ("lookuphold", 2), ("cfgvalidate", 1), ("cfgexpand", 1),
                  ("cfglog", 1), ("cfgsetany", 1)]
            if not inutt:
                w += [("reinitfeat", 1), ("mllrapply", 1 + 4 * len(sh["ml"])), ("reinitcfg", 3 if usable_cfg else 0)]
        has_lat = alive or bool(t.lat)
        w += [("latbestk", 2 if has_lat else 0), ("latprune", 1 if has_lat else 0), ("lattrav", 2 if has_lat else 0),
              ("lnode", 2 if has_lat else 0),
              ("lnodenext", 5 * len(t.ln)), ("lnodefree", 2 * len(t.ln)), ("llink", 8 * len(t.ln)),
              ("llinknext", 8 * len(t.ll)), ("llinkfree", 2 * len(t.ll))]
        nheld = len(sh["cfg"]) + len(sh["lmath"]) + len(sh["fe"]) + len(sh["feat"])
        w += [("cfgnew", 1), ("subuse", 2 * nheld), ("subfree", 2 * nheld), ("cfgk", 2 * len(sh["cfg"])),
              ("cfgwild", 1 * len(sh["cfg"])), ("cfgretain", len(sh["cfg"])),
              ("mllrread", 1), ("mllrfree", 2 * len(sh["ml"])),
              ("albuild", 1 if alive else 0), ("aladd", 3 * len(t.built)), ("alpop", 3 * len(t.built))]
        w += [("buse", 5 * len(sh["bor"])), ("struse", 2 * len(sh["str"])), ("strfree", 2 * len(sh["str"])),
              ("iterhold", 3 * len([k for k in t.hyp if t.hyp[k]])), ("alprop", 2 * len(t.aln)),
              ("cfgparsenew", 1), ("cfgvalidatek", len(sh["cfg"])), ("cfglogk", len(sh["cfg"]))]
        w += [("segnext", 6 * len(t.seg)), ("segfree", 2 * len(t.seg)), ("hypnext", 6 * len(t.hyp)),
              ("hypfree", 2 * len(t.hyp)), ("hypseg", 4 * len(t.hyp)), ("alinext", 6 * len(t.ali)),
              ("alichild", 4 * len(t.ali)), ("alifree", 2 * len(t.ali)), ("aligoto", 2 * len(t.ali)),
              ("latwalk", 3 * len(t.lat)), ("latfree", 2 * len(t.lat)), ("alfree", 2 * len(t.aln))]
        if profile == "queries":
            w = [(a, b * (4 if a in ("hyp", "seg", "nbest", "lattice", "align", "json", "segnext", "hypnext", "alinext",
                                     "alichild", "hypseg", "aliter", "latbest") else 1)) for a, b in w]
        elif profile == "lifecycle":
            w = [(a, b * (5 if a in ("free", "retain", "reinit", "gram", "fsg", "aligntext", "start", "end") else 1)) for a, b in w]
        elif profile == "outoforder":
            w = [(a, b * (6 if a.endswith("-ooo") else 1)) for a, b in w]
        elif profile == "lattice":
            w = [(a, b * (6 if a in ("lattice", "latbest", "latretain", "nbest", "latbestk", "latprune", "lattrav", "lnode",
                                     "lnodenext", "llink", "llinknext", "latwalk", "hypnext", "hypseg") else 1)) for a, b in w]
        elif profile == "config":
            w = [(a, b * (8 if a in ("cfg", "cfgtyped", "cfg-gram", "reinit", "cfgnew", "cfgk", "cfgwild", "subretain",
                                     "reinitcfg", "cfgretain", "initcfg") else 1)) for a, b in w]
        elif profile == "apiwide":
            w = [(a, b * (7 if a in ("create", "hyphold", "jsonhold", "cmnhold", "lookuphold", "buse", "struse", "strfree", "iterhold",
                                     "alprop", "cfgvalidate", "cfgexpand", "cfglog", "cfgsetany", "cfgparsenew", "cfgvalidatek",
                                     "cfglogk", "nbest", "hypnext") else 1)) for a, b in w]
        elif profile in ("subobj", "twodec"):
            w = [(a, b * (6 if a in ("subretain", "subuse", "subfree", "cfgnew", "cfgretain", "initcfg", "reinitcfg", "logfile",
                                     "mllrread", "mllrapply", "mllrfree", "reinitfeat", "free") else 1)) for a, b in w]
        # aim: results exist (about a second of speech was given) -> explore them; no result can exist -> keep only a
        # few queries (they must return the documented empty value)
        likely = alive and t.search and t.speech >= 10000
        QUERY = ("hyp", "seg", "nbest", "lattice", "latbest", "latretain", "align", "alretain", "aliter", "json", "latbestk",
                 "lattrav", "lnode", "latprune")
        ITER = ("segnext", "hypnext", "hypseg", "alinext", "alichild", "aligoto", "latwalk", "lnodenext", "llink", "llinknext")
        if likely:
            w = [(a, b * (4 if a in QUERY or a in ITER else 1)) for a, b in w]
            w = [(a, (max(1, b // 3) if b else 0) if a in ("free", "reinit", "gram", "fsg", "aligntext", "addword1", "start") else b) for a, b in w]
        elif profile != "queries":
            w = [(a, (max(1, b // 3) if b else 0) if a in QUERY else b) for a, b in w]
        if inutt and t.speech < 10000 and not t.full:
            w = [(a, b * 3 if a == "proc" else b) for a, b in w]
        if not EXTENDED:
            NEW = ("create", "hyphold", "jsonhold", "cmnhold", "lookuphold", "buse", "struse", "strfree", "iterhold", "alprop",
                   "cfgvalidate", "cfgexpand", "cfglog", "cfgsetany", "cfgparsenew", "cfgvalidatek", "cfglogk", "subretaincfg",
                   "albuild", "aladd", "alpop", "cfgtyped", "logfile", "subretain", "reinitfeat", "mllrapply", "reinitcfg", "latbestk", "latprune", "lattrav",
                   "lnode", "lnodenext", "lnodefree", "llink", "llinknext", "llinkfree", "cfgnew", "subuse", "subfree", "cfgk",
                   "cfgwild", "cfgretain", "mllrread", "mllrfree", "initcfg")
            w = [(a, 0 if a in NEW else b) for a, b in w]
        w = [(a, b) for a, b in w if b > 0]
        c = rng.weighted(w)

        if c == "stop":
            break
        elif c == "init":
            do_init()
        elif c == "create":
            g = rng.choice(["jsgf", "fsg", "none", "nojsgf", "null", "null"])
            emit("create " + (init_args(g) if g != "null" else "null"), "create" if g != "null" else "create-null")
            t.alive, t.refs, t.utt, t.search = True, 1, "i", False
            t.created, t.nocfg = True, g == "null"
            t.cfg = {"jsgf": "good" if g == "jsgf" else ("bad" if g == "nojsgf" else "none"), "fsg": "good" if g == "fsg" else "none"}
            t.blocks, t.full = 0, False
        elif c in ("hyphold", "jsonhold", "cmnhold"):
            k = rng.below(NSLOT)
            if c == "jsonhold":
                lvl = rng.choice([0, 0, 1, 2])
                emit(f"jsonhold {k} {lvl}", "jsonhold")
                if lvl:
                    t.invalidate("align")
            else:
                emit(f"{c} {k}", c)
            sh["bor"][k] = ({"hyphold": "hyp", "jsonhold": "json", "cmnhold": "cmn"}[c], Cur.i, None)
            if c != "cmnhold" and inutt and not t.full and rng.chance(0.5):
                # the family "a result string stays readable while more audio is processed"
                fmt, clip, off, ln = audio_block(False)
                emit(f"proc {fmt} {clip} {off} {ln} 0 0", "proc")
                t.blocks += 1
                t.dagfresh = False
                t.invalidate("align")
                if k in sh["bor"]:
                    emit(f"buse {k}", "buse")
        elif c == "iterhold":
            j = rng.choice([k for k in t.hyp if t.hyp[k]])
            k = rng.below(NSLOT)
            emit(f"iterhold {k} {j}", "iterhold")
            sh["bor"][k] = ("iter", Cur.i, j)
        elif c == "buse":
            emit(f"buse {rng.choice(sorted(sh['bor']))}", "buse")
        elif c == "lookuphold":
            fr = [k for k in range(NSLOT) if k not in sh["str"]]
            if fr:
                k = rng.choice(fr)
                wk = rng.choice(["known", "known", "alt", "filler", "unknown", "empty", "new0", "long"])
                emit(f"lookuphold {k} {wk}", "lookuphold")
                if wk in ("known", "alt", "filler"):
                    sh["str"].add(k)
        elif c in ("struse", "strfree"):
            k = rng.choice(sorted(sh["str"]))
            emit(f"{c} {k}", c)
            if c == "strfree":
                sh["str"].discard(k)
        elif c == "alprop":
            emit(f"alprop {rng.choice(sorted(t.aln))}", "alprop")
        elif c in ("cfgvalidate", "cfgexpand", "cfglog"):
            emit(f"{c} -1", c)
        elif c in ("cfgvalidatek", "cfglogk"):
            emit(f"{c[:-1]} {rng.choice(sorted(sh['cfg']))}", c[:-1] + "-held")
        elif c == "cfgsetany":
            r = rng.below(4)
            if r == 0:
                k = rng.choice(sorted(SAFE_F))
                emit(f"cfg setany {k} {rng.choice(['float', 'str'])} {rng.choice(SAFE_F[k])}", "cfg-setany")
            elif r == 1:
                emit(f"cfg setany {rng.choice(SAFE_B)} {rng.choice(['bool', 'int', 'float'])} {rng.below(2)}", "cfg-setany")
            elif r == 2:
                k = rng.choice(sorted(SAFE_I))
                emit(f"cfg setany {k} {rng.choice(['int', 'str'])} {rng.choice(SAFE_I[k])}", "cfg-setany")
            else:
                emit(f"cfg setany {rng.choice(['nosuchkey', 'nosuchkey', 'hmm'])} str {rng.choice(['EMPTY', '7', 'junk'])}", "cfg-setany")
        elif c == "cfgparsenew":
            fr = [k for k in range(NSLOT) if k not in sh["cfg"]]
            if fr:
                k = rng.choice(fr)
                kind = rng.choice(["ok", "ok", "unknown", "empty", "trunc", "null"])
                emit(f"cfgparsenew {k} {kind}", "cfgparsenew")
                if kind == "ok":
                    # no acoustic model is named: never given to a decoder
                    sh["cfg"][k] = {"jsgf": "none", "fsg": "none", "wild": True}
        elif c == "subretaincfg":
            fr = [k for k in range(NSLOT) if k not in sh["cfg"]]
            if fr:
                k = rng.choice(fr)
                emit(f"subretain cfg {k}", "subretain-cfg")
                sh["cfg"][k] = t.cfg
        elif c == "initcfg":
            k = rng.choice(usable_cfg)
            obj = sh["cfg"].pop(k)
            emit(f"initcfg {k}", "initcfg")
            g = obj["jsgf"] if obj["jsgf"] != "none" else obj["fsg"]
            if g != "bad":
                t.alive, t.refs, t.utt, t.search = True, 1, "i", g == "good"
                t.cfg = obj
                t.blocks, t.full = 0, False
        elif c == "start":
            emit("start", "start" if t.search else "start-nosearch")
            if t.search:
                t.utt, t.blocks, t.full, t.everutt = "s", 0, False, True
                t.pos, t.speech = 0, 0
                t.invalidate("result"); t.invalidate("align")
        elif c == "start-ooo":
            emit("start", "start-twice")
        elif c == "end":
            emit("end", "end")
            t.utt = "e"
            t.dagfresh = False
            t.invalidate("align")
        elif c == "end-ooo":
            emit("end", "end-without-start")
        elif c in ("proc", "proc-full", "proc-ooo"):
            fmt, clip, off, ln = audio_block(c == "proc-full")
            ns = 1 if rng.chance(0.2) else 0
            fu = 1 if c == "proc-full" else 0
            if c == "proc-ooo":
                fu = 1 if rng.chance(0.2) else 0
            emit(f"proc {fmt} {clip} {off} {ln} {ns} {fu}",
                 {"proc": "proc", "proc-full": "proc-full", "proc-ooo": "proc-before-start" if t.utt == "i" else "proc-after-end"}[c])
            if c != "proc-ooo":
                t.blocks += 1
                t.full = t.full or fu == 1
                t.dagfresh = False
                t.invalidate("align")
        elif c == "gram":
            k = rng.choice(GRAM_BAD) if rng.chance(0.3) else rng.choice(GRAM_OK)
            if rng.chance(0.1):
                k = rng.choice(["good", "missing"])
                emit("jsgffile " + k, "jsgffile")
                k = "go" if k == "good" else "empty"
            else:
                emit("jsgf " + k, "jsgf-" + ("bad" if k in GRAM_BAD else "ok"))
            if k not in GRAM_BAD:
                t.search = True
                t.invalidate("result")
        elif c == "fsg":
            k = rng.choice(FSG_BAD) if rng.chance(0.2) else rng.choice(FSG_OK)
            emit("fsg " + k, "fsg-" + ("bad" if k in FSG_BAD else "ok"))
            if k not in FSG_BAD:
                t.search = True
                t.invalidate("result")
        elif c == "weirdwords":
            # family: words whose spellings use the whole byte range the dictionary accepts (DEL, control bytes, quote,
            # backslash, bytes >= 0x80) are added, aligned against speech, and the result is asked for in every form
            for i2 in range(4):
                emit(f"addword weird{i2} {rng.choice(['ok', 'one', 'long'])} 0", "addword")
            emit("aligntext weird", "aligntext-ok")
            t.search = True
            t.invalidate("result")
            emit("start", "start")
            t.utt, t.blocks, t.full, t.everutt, t.pos = "s", 0, False, True, 0
            t.invalidate("result"); t.invalidate("align")
            fu = 1 if rng.chance(0.4) else 0
            ln = rng.choice([16000, 24000, 36000, GOLEN])
            emit(f"proc {'f32' if rng.chance(0.2) else 'i16'} go 0 {ln} 0 {fu}", "proc-full" if fu else "proc")
            t.blocks, t.full, t.speech, t.dagfresh = 1, fu == 1, ln, False
            if rng.chance(0.85):
                emit("end", "end")
                t.utt = "e"
            lv = [0, 1, 2]
            rng.shuffle(lv)
            for lvl in lv[:rng.range(1, 3)]:
                emit(f"json {lvl}", f"json{lvl}")
                if lvl:
                    t.invalidate("align")
            emit("hyp", "hyp")
        elif c == "aligntext":
            k = rng.choice(ALIGN_BAD) if rng.chance(0.2) else rng.choice(ALIGN_OK)
            emit("aligntext " + k, "aligntext-" + ("bad" if k in ALIGN_BAD else "ok"))
            if k not in ALIGN_BAD:
                t.search = True
                t.invalidate("result")
        elif c in ("addword0", "addword1"):
            upd = 1 if c == "addword1" else 0
            # new word, duplicate, existing alternate, new alternate of an existing base, alternate of a MISSING base,
            # alternate of a word added earlier (or not), empty word, lone parenthesis, very long word, filler
            wk = rng.choice(["new%d" % rng.below(4), "new%d" % rng.below(4), "known", "alt", "altnew", "altmissing", "altmissing",
                             "altofnew%d" % rng.below(4), "empty", "paren", "long", "filler"])
            pk = rng.choice(["ok", "ok", "one", "sil", "spaces", "empty", "blank", "bad", "long"])
            emit(f"addword {wk} {pk} {upd}", "addword")
            if upd:
                t.invalidate("result")
        elif c == "reinit":
            k = rng.choice(["null", "null", "same", "jsgf", "fsg", "none"])
            emit("reinit " + (k if k in ("null", "same") else init_args(k)), "reinit-" + k)
            if k in ("jsgf", "fsg", "none"):
                t.cfg = {"jsgf": "good" if k == "jsgf" else "none", "fsg": "good" if k == "fsg" else "none"}
            if t.created and t.nocfg and k in ("null", "same"):
                pass            # no configuration to initialise from: refused, still only created
            else:
                t.created = t.nocfg = False
                t.search = t.eff_gram() == "good"
                t.utt = "i"
                t.invalidate("result"); t.invalidate("align")
        elif c == "cfg-gram":
            k, v, g = rng.choice([("jsgf", "@tests/data/goforward.gram", "good"), ("fsg", "@tests/data/goforward.fsg", "good"),
                                  ("jsgf", "NULL", "none"), ("fsg", "NULL", "none"),
                                  ("jsgf", "@tests/data/nonexistent.gram", "bad"), ("fsg", "@tests/data/nonexistent.fsg", "bad")])
            emit(f"cfg str {k} {v}", "cfg-grammar")
            t.cfg[k] = g
        elif c == "cfg":
            r = rng.below(7)
            if r == 0:
                emit(f"cfg float {rng.choice(CFG_KEYS_F)} {rng.choice(['1e-20', '1e-5', '0.5', '1.0', '7.5'])}", "cfg-set")
            elif r == 1:
                emit(f"cfg bool {rng.choice(CFG_KEYS_B)} {rng.below(2)}", "cfg-set")
            elif r == 2:
                emit(f"cfg int {rng.choice(['maxhmmpf', 'maxhmmpf', 'nosuchkey'])} {rng.choice(['-1', '100', '30000'])}", "cfg-set")
            elif r == 3:
                emit(f"cfg str {rng.choice(['cmninit', 'cmninit', 'nosuchkey'])} {rng.choice(['EMPTY', 'NULL', '40,3,-1', '41'])}", "cfg-set")
            elif r == 4:
                emit(f"cfg unset {rng.choice(CFG_KEYS_F + CFG_KEYS_B + ['nosuchkey'])}", "cfg-unset")
            elif r == 5:
                emit(f"cfg get {rng.choice(CFG_KEYS_F + CFG_KEYS_B + ['nosuchkey', 'hmm', 'jsgf'])}", "cfg-get")
            else:
                emit("cfg json x", "cfg-json")
        elif c == "seg":
            k = free_slot(t.seg)
            if k is not None:
                emit(f"seg {k}", "seg")
                t.seg[k] = ("S", True)
        elif c == "nbest":
            k = free_slot(t.hyp)
            if k is not None:
                emit(f"nbest {k}", "nbest")
                t.lattice_call(objctr)
                t.hyp[k] = True
        elif c in ("lattice", "latbest"):
            emit(c, c)
            t.lattice_call(objctr)
        elif c == "latretain":
            fr = [k for k in range(NSLOT) if k not in t.lat]
            if fr:
                k = rng.choice(fr)
                emit(f"latretain {k}", "latretain")
                t.lat[k] = t.lattice_call(objctr)
        elif c in ("align",):
            emit("align", "align")
            t.invalidate("align")
        elif c == "alretain":
            fr = [k for k in range(NSLOT) if k not in t.aln]
            if fr:
                k = rng.choice(fr)
                emit(f"alretain {k}", "alretain")
                t.aln.add(k)
                t.invalidate("align")
        elif c == "aliter":
            k = free_slot(t.ali)
            if k is not None:
                src = rng.choice([-1] + sorted(t.aln))
                emit(f"aliter {k} {src} {rng.choice(['words', 'phones', 'states'])}", "aliter")
                if src == -1:
                    t.invalidate("align")
                t.ali[k] = (src, True)
        elif c == "json":
            lvl = rng.choice([0, 0, 1, 2])
            emit(f"json {lvl}", f"json{lvl}")
            if lvl:
                t.invalidate("align")
        elif c in ("hyp", "prob", "nframes", "times", "freenull"):
            emit(c + (" 1" if c == "hyp" and rng.chance(0.3) else ""), c)
        elif c == "getcmn":
            emit(f"getcmn {rng.below(2)}", "getcmn")
        elif c == "setcmn":
            emit("setcmn " + rng.choice(["ok", "short", "empty", "long", "junk", "zero"]), "setcmn")
        elif c == "lookup":
            emit("lookup " + rng.choice(["known", "alt", "filler", "unknown", "empty", "paren", "new0", "long"]), "lookup")
        elif c == "retain":
            emit("retain", "retain")
            t.refs += 1
        elif c == "free":
            emit("free", "free-mid-utt" if inutt and t.refs == 1 else "free")
            t.refs -= 1
            if t.refs == 0:
                t.alive = False
                t.created = t.nocfg = False
                t.invalidate("result"); t.invalidate("align")
        elif c in ("segnext", "segfree"):
            k = rng.choice(sorted(t.seg))
            if c == "segfree" or not t.seg[k][1]:
                emit(f"segfree {k}", "segfree-stale" if not t.seg[k][1] else "segfree")
                del t.seg[k]
            else:
                for _ in range(rng.choice([1, 1, 2, 3, 8])):
                    emit(f"segnext {k}", "segnext")
        elif c in ("hypnext", "hypfree", "hypseg"):
            k = rng.choice(sorted(t.hyp))
            if c == "hypfree" or not t.hyp[k]:
                emit(f"hypfree {k}", "hypfree-stale" if not t.hyp[k] else "hypfree")
                del t.hyp[k]
                for bk in [b for b, v in sh["bor"].items() if v == ("iter", Cur.i, k)]:
                    del sh["bor"][bk]
            elif c == "hypnext":
                for _ in range(rng.choice([1, 1, 2, 4])):
                    emit(f"hypnext {k}", "hypnext")
            else:
                j = free_slot(t.seg)
                if j is not None:
                    emit(f"hypseg {j} {k}", "hypseg")
                    t.seg[j] = ("H", True)
        elif c in ("alinext", "alifree", "alichild", "aligoto"):
            k = rng.choice(sorted(t.ali))
            if c == "alifree" or not t.ali[k][1]:
                emit(f"alifree {k}", "alifree-stale" if not t.ali[k][1] else "alifree")
                del t.ali[k]
            elif c == "alinext":
                for _ in range(rng.choice([1, 1, 2, 3, 8, 30])):
                    emit(f"alinext {k}", "alinext")
            elif c == "aligoto":
                emit(f"aligoto {k} {rng.choice([0, 1, 2, 5, 40, 70000])}", "aligoto")
            else:
                j = free_slot(t.ali)
                if j is not None:
                    emit(f"alichild {j} {k}", "alichild")
                    t.ali[j] = t.ali[k]
        elif c in ("latwalk", "latfree"):
            k = rng.choice(sorted(t.lat))
            emit(f"{c} {k}", c)
            if c == "latfree":
                obj = t.lat.pop(k)
                if obj != t.dagobj and obj not in t.lat.values():
                    t.kill_obj(obj)
        elif c in ("latbestk", "latprune", "lattrav", "lnode"):
            # lattice functions on the decoder's lattice (-1) or on a retained one
            src = rng.choice([-1] + sorted(t.lat) * 2) if t.alive else rng.choice(sorted(t.lat))
            obj = t.lattice_call(objctr) if src == -1 else t.lat[src]
            if c == "latbestk":
                emit(f"latbest {src}", "latbest-retained" if src >= 0 else "latbest")
            elif c == "lattrav":
                emit(f"lattrav {src} {rng.choice(['fwd', 'rev'])} {rng.choice([0, 1, 2, 5, 1000, 1000])}", "lattrav")
            elif c == "latprune":
                emit(f"latprune {src} {rng.choice(['all', 'none', 'half', 'small', 'small'])}", "latprune")
                # nodes and links are deleted: every iterator into this object (under any alias) dies
                t.kill_obj(obj, pruned=True)
                if t.same_obj(obj, t.dagobj):
                    for k in t.hyp:
                        t.hyp[k] = False
                    for k in t.seg:
                        if t.seg[k][0] == "H":
                            t.seg[k] = ("H", False)
            else:
                j = free_slot(t.ln)
                if j is not None:
                    emit(f"lnode {j} {src}", "lnode")
                    t.ln[j] = [obj, True]
        elif c in ("lnodenext", "lnodefree", "llink"):
            k = rng.choice(sorted(t.ln))
            if c == "lnodefree" or not t.ln[k][1]:
                emit(f"lnodefree {k}", "lnodefree-stale" if not t.ln[k][1] else "lnodefree")
                del t.ln[k]
            elif c == "lnodenext":
                for _ in range(rng.choice([1, 1, 2, 3, 10])):
                    emit(f"lnodenext {k}", "lnodenext")
            else:
                j = free_slot(t.ll)
                if j is not None:
                    emit(f"llink {j} {k} {rng.choice(['exits', 'entries'])}", "llink")
                    t.ll[j] = [t.ln[k][0], True]
        elif c in ("llinknext", "llinkfree"):
            k = rng.choice(sorted(t.ll))
            if c == "llinkfree" or not t.ll[k][1]:
                emit(f"llinkfree {k}", "llinkfree-stale" if not t.ll[k][1] else "llinkfree")
                del t.ll[k]
            else:
                for _ in range(rng.choice([1, 1, 2, 4])):
                    emit(f"llinknext {k}", "llinknext")
        elif c == "cfgtyped":
            # typed setters / getters on the decoder's configuration: valid changes only on parameters that are safe to
            # change on a live decoder; every other parameter only through calls that leave its value unchanged
            emit("cfg " + typed_config_call(rng, safe_only=True), "cfg-typed")
        elif c == "logfile":
            emit("logfile " + rng.choice(["null", "bad", f"log{Cur.i}.txt", f"log{Cur.i}.txt", "logx.txt"]), "logfile")
        elif c == "reinitfeat":
            emit("reinitfeat", "reinitfeat")
        elif c == "subretain":
            kind = rng.choice(["cfg", "cfg", "lmath", "fe", "feat"])
            table = sh["cfg"] if kind == "cfg" else sh[kind]
            fr = [k for k in range(NSLOT) if k not in table]
            if fr:
                k = rng.choice(fr)
                emit(f"subretain {kind} {k}", "subretain-" + kind)
                if kind == "cfg":
                    sh["cfg"][k] = t.cfg          # the same object as the decoder's configuration (aliased dict)
                else:
                    table.add(k)
        elif c == "cfgnew":
            fr = [k for k in range(NSLOT) if k not in sh["cfg"]]
            if fr:
                k = rng.choice(fr)
                g = rng.choice(["jsgf", "fsg", "none", "nojsgf"])
                emit(f"cfgnew {k} " + init_args(g), "cfgnew")
                sh["cfg"][k] = {"jsgf": "good" if g == "jsgf" else ("bad" if g == "nojsgf" else "none"),
                                "fsg": "good" if g == "fsg" else "none"}
        elif c in ("subuse", "subfree", "cfgk", "cfgwild", "cfgretain", "reinitcfg"):
            pool = [("cfg", k) for k in sh["cfg"]] + [(kd, k) for kd in ("lmath", "fe", "feat") for k in sh[kd]]
            if c in ("cfgk", "cfgwild", "cfgretain", "reinitcfg"):
                pool = [x for x in pool if x[0] == "cfg"]
            if pool:
                kind, k = rng.choice(pool)
                if c == "subuse":
                    emit(f"subuse {kind} {k}", "subuse-" + kind)
                elif c == "subfree":
                    emit(f"subfree {kind} {k}", "subfree-" + kind)
                    if kind == "cfg":
                        del sh["cfg"][k]
                    else:
                        sh[kind].discard(k)
                elif c == "cfgretain":
                    fr = [j for j in range(NSLOT) if j not in sh["cfg"]]
                    if fr:
                        j = rng.choice(fr)
                        emit(f"cfgretain {k} {j}", "cfgretain")
                        sh["cfg"][j] = sh["cfg"][k]
                elif c == "cfgk":
                    emit(f"cfgk {k} " + typed_config_call(rng, safe_only=True), "cfgk")
                elif c == "cfgwild":
                    # arbitrary typed sets, only on a configuration no decoder uses or will use
                    obj = sh["cfg"][k]
                    if not any(tr.alive and tr.cfg is obj for tr in tracks):
                        emit(f"cfgk {k} " + typed_config_call(rng, safe_only=False), "cfg-wild")
                        obj["wild"] = True
                elif c == "reinitcfg" and t.alive and t.utt != "s":
                    obj = sh["cfg"][k]
                    if not obj.get("wild"):
                        emit(f"reinitcfg {k}", "reinitcfg")
                        if obj is not t.cfg:
                            del sh["cfg"][k]
                        t.cfg = obj
                        t.created = t.nocfg = False
                        t.search = t.eff_gram() == "good"
                        t.utt = "i"
                        t.invalidate("result"); t.invalidate("align")
        elif c in ("mllrread", "mllrapply", "mllrfree"):
            if c == "mllrread":
                fr = [k for k in range(NSLOT) if k not in sh["ml"]]
                if fr:
                    k = rng.choice(fr)
                    kind = rng.choice(["id", "id", "id", "missing", "short", "bad"])
                    emit(f"mllrread {k} {kind}", "mllrread")
                    if kind == "id":
                        sh["ml"][k] = True
            elif c == "mllrapply":
                if t.alive and t.utt != "s":
                    pool = sorted(sh["ml"])
                    if pool and rng.chance(0.8):
                        k = rng.choice(pool)
                        if rng.chance(0.4):
                            emit(f"mllrapply {k} keep", "mllrapply")
                        else:
                            emit(f"mllrapply {k}", "mllrapply")
                            del sh["ml"][k]
                    else:
                        emit("mllrapply null", "mllrapply-null")
            elif sh["ml"]:
                k = rng.choice(sorted(sh["ml"]))
                emit(f"mllrfree {k}", "mllrfree")
                del sh["ml"][k]
        elif c == "albuild":
            fr = [k for k in range(NSLOT) if k not in t.aln]
            if fr:
                k = rng.choice(fr)
                emit(f"albuild {k}", "albuild")
                t.aln.add(k); t.built.add(k)
        elif c in ("aladd", "alpop"):
            k = rng.choice(sorted(t.built))
            if c == "aladd":
                emit(f"aladd {k} {rng.choice([0, 1, 2, 3, 10, 11, 40, 500])} {rng.choice(['a', 'go', 'forward', 'ten', 'meters'])}", "aladd")
            else:
                emit(f"alpop {k} {rng.choice(['cd', 'ci'])}", "alpop")
            kill_ali_of(k)
        elif c == "alfree":
            k = rng.choice(sorted(t.aln))
            emit(f"alfree {k}", "alfree")
            t.aln.discard(k); t.built.discard(k)
            for j in list(t.ali):
                if t.ali[j][0] == k:
                    t.ali[j] = (k, False)
    # closing: a random part of what is still held is released explicitly and in random order, the rest is
    # released by the harness at end of input (in slot order, decoder last)
    if rng.chance(0.5):
        rest = []
        for i, tr in enumerate(tracks):
            pre = "@1 " if i == 1 else ""
            rest += [pre + f"segfree {k}" for k in tr.seg] + [pre + f"hypfree {k}" for k in tr.hyp] + \
                    [pre + f"alifree {k}" for k in tr.ali] + [pre + f"latfree {k}" for k in tr.lat] + \
                    [pre + f"alfree {k}" for k in tr.aln] + [pre + f"lnodefree {k}" for k in tr.ln] + \
                    [pre + f"llinkfree {k}" for k in tr.ll] + [pre + "free"] * (tr.refs if tr.alive else 0)
        rest += [f"subfree cfg {k}" for k in sh["cfg"]] + [f"subfree {kd} {k}" for kd in ("lmath", "fe", "feat") for k in sh[kd]] + \
                [f"mllrfree {k}" for k in sh["ml"]] + [f"strfree {k}" for k in sh["str"]]
        rng.shuffle(rest)
        for r in rest[:rng.range(0, len(rest))]:
            ops.append(r)
            stats["calls"]["closing"] = stats["calls"].get("closing", 0) + 1
    return ops


# ---------------------------------------------------------------------------------------------
# running one history on the implementation

class Ent(tuple):
    """(call, ret, state) with the exported functions the call reached (`fns`, from the harness's counting wrappers)"""
    fns = ()


def parse_transcript(out):
    """-> list of (call, ret, state) ; the last entry has ret None when the process died inside the call"""
    res, cur = [], None
    for l in out.split("\n"):
        if l.startswith("*") and res and cur is None:
            e = Ent(res[-1])
            e.fns = tuple(l[1:].split())
            res[-1] = e
        elif l.startswith("> "):
            if cur is not None:
                res.append((cur, None, None))
            cur = l[2:]
        elif l.startswith("< ") and cur is not None:
            body = l[2:]
            ret, _, st = body.partition(" | ")
            res.append((cur, ret.strip(), st.strip()))
            cur = None
    if cur is not None:
        res.append((cur, None, None))
    return res


def run_history(binp, ops, timeout=120):
    rc, out, err = vlib.run_bin(binp, stdin_text="\n".join(ops) + "\n", timeout=timeout, leaks=True,
                                env_extra={"SS_REPO": str(vlib.REPO), "SS_SCRATCH": SCRATCH_DIR or "/tmp"})
    return rc, parse_transcript(out), err


def failure_kind(rc, tr, err):
    """None when the process replayed the whole history and exited cleanly"""
    if rc == 0 and tr and tr[-1][0] == "exit":
        return None
    if rc == -999:
        return "timeout"
    if "LeakSanitizer" in err and tr and tr[-1][0] == "exit":
        return "leak"
    m = re.search(r"ERROR: AddressSanitizer: ([a-zA-Z0-9-]+)", err)
    if m:
        return "asan:" + m.group(1)
    if "runtime error:" in err:
        return "ubsan"
    if "Assertion" in err:
        return "assert"
    if tr and tr[-1][1] is None:
        return "exit-inside-call" if rc in (0, 1) else f"signal/exit {rc}"
    return f"exit code {rc}"


def where(err):
    """short location of a sanitizer report / assertion for the evidence (function names of the top frames)"""
    fr = re.findall(r"#\d+ 0x[0-9a-f]+ in (\S+) (\S+)", err)
    fr = [f"{a} {os.path.basename(b)}" for a, b in fr if "h_c09" not in b and "sanitizer" not in b and "asan" not in b.lower()]
    m = re.search(r"Assertion `([^']*)' failed", err)
    s = (m.group(1) + " @ " if m else "")
    m = re.search(r"(\S+:\d+:\d+): runtime error: (.*)", err)
    if m:
        s += m.group(2) + " @ " + os.path.basename(m.group(1)) + " "
    return (s + " <- ".join(fr[:4]))[:400]


# ---------------------------------------------------------------------------------------------
# transcript -> model calls (symbolic arguments decide the expected class; the data-dependent part of
# the outcome is taken from what the implementation returned)

def b(x):
    return "1" if x else "0"


def st_field(st, key):
    m = re.search(r"(?:^| )" + key + r"=(\S+)", st or "")
    return m.group(1) if m else None


IDBASE = {"seg": 0, "hyp": 100, "ali": 200}
# a configuration whose decoder_init fails before the grammar is looked at is modelled as `fails`

INIT_MAP = {"jsgf": "1 good 0", "fsg": "0 good 0", "none": "0 none 0", "nojsgf": "1 bad 0", "nofsg": "0 bad 0",
            "badhmm": "0 none 1", "null": "0 none 1"}


def strval_class(v):
    """class of a string value for the parsers of anytype_from_str (mirrors `StrVal` of the model)"""
    if v == "NULL":
        return "null"
    if v == "EMPTY":
        return "empty"
    if not v:
        return "junk"
    if v[0] in "01":
        return "numbool"
    if re.match(r"[+-]?\d", v):
        return "num"
    if v[0] in "yYtTnNfF":
        return "boolword"
    return "junk"


def config_call_model(w):
    """w = <setter|get|...> key [value]  ->  (key type, model op tokens, safe?)"""
    tab = config_table()
    op = w[0]
    key = w[1] if len(w) > 1 else ""
    val = w[2] if len(w) > 2 else ""
    kt = tab.get(key, "unknown")
    if op == "json":
        return "unknown", "json", True
    if op == "parse":
        return "unknown", None, False          # outcome taken from the implementation
    if op in ("get", "typeof", "same"):
        return kt, op, True
    if kt == "unknown":
        return kt, {"str": "setstr " + strval_class(val), "int": "setint", "float": "setfloat", "bool": "setbool"}.get(op, op), True
    safe_key = key in SAFE_F or key in SAFE_B or key in SAFE_I or key in SAFE_S
    if op == "str":
        return kt, "setstr " + strval_class(val), (not str_accepts(kt, val)) or safe_key
    if op in ("int", "float", "bool"):
        return kt, "set" + op, safe_key
    if op in ("unset", "setnull"):
        return kt, op, safe_key
    return kt, op, False


def to_model(call, ret, st):
    """one transcript entry -> model call line (None = not a call of the model)"""
    w = call.split()
    inst = "a"
    if w and w[0].startswith("@"):
        inst = "b" if w[0] == "@1" else "a"
        w = w[1:]
    if not w:
        return None
    r0 = ret.split()[0]
    ptr = r0 == "ptr"
    parts = (st or "").split(" || ")
    mine = parts[1 if inst == "b" and len(parts) > 1 else 0] if parts else ""
    a_after = st_field(mine, "a") == "1"
    g_after = st_field(mine, "g") == "1"
    op = w[0]
    D = f"dec {inst} "

    def src_of(x):
        return "dec" if x == "-1" else x
    if op == "create":
        if w[1] == "null":
            return f"x create {inst} null"
        return f"x create {inst} new " + " ".join(INIT_MAP[w[1]].split()[:2])
    if op == "hyphold":
        return f"x hyphold {inst} {w[1]} {b(ptr)}"
    if op == "jsonhold":
        return f"x jsonhold {inst} {w[1]} {w[2]} {b('ru=1' in ret)} {b(ptr)} {b(a_after)}"
    if op == "cmnhold":
        return f"x cmnhold {inst} {w[1]}"
    if op == "iterhold":
        return f"x iterhold {inst} {100 + int(w[2])} {w[1]} {b(ptr)}"
    if op == "buse":
        return f"x buse {w[1]}"
    if op == "lookuphold":
        return f"x lookuphold {inst} {w[1]} {b(ptr)}"
    if op in ("struse", "strfree"):
        return f"x {op} {w[1]}"
    if op == "alprop":
        return f"x alprop {inst} {w[1]}"
    if op in ("cfgvalidate", "cfgexpand", "cfglog"):
        tgt = f"dec {inst}" if w[1] == "-1" else f"held {w[1]}"
        return f"x {op} {tgt}" + (f" {b(r0 == 'ok')}" if op == "cfgvalidate" else "")
    if op == "cfgparsenew":
        return f"x cfgparsenew {w[1]} {b(ptr)}"
    if op == "init":
        if "BOGUS" in w:
            # an invalid log level: decoder_init fails before anything is loaded (and still consumes the configuration, D82)
            return f"init {inst} new 0 none 1"
        return f"init {inst} new " + INIT_MAP[w[1]]
    if op == "initcfg":
        return f"init {inst} held {w[1]}"
    if op == "reinit":
        if w[1] in ("null", "same"):
            return f"reinit {inst} keep"
        return f"reinit {inst} new " + " ".join(INIT_MAP[w[1]].split()[:2])
    if op == "reinitcfg":
        return f"reinit {inst} held {w[1]}"
    if op in ("retain", "free", "start", "prob", "nframes", "times", "freenull", "reinitfeat"):
        return D + op
    if op in ("cfg", "cfgk"):
        tgt = f"dec {inst}" if op == "cfg" else f"held {w[1]}"
        cw = w[1:] if op == "cfg" else w[2:]
        if cw[0] == "str" and cw[1] in ("jsgf", "fsg"):
            v = cw[2]
            g = "none" if v == "NULL" else ("bad" if "nonexistent" in v else "good")
            if v == "EMPTY":
                return f"cfgcall {tgt} str 1 setstr empty"
            return f"cfggram {tgt} {b(cw[1] == 'jsgf')} {g}"
        if cw[0] == "setany":
            # config_set(c, key, &val, type): the type tag of the CALL selects the setter
            tab = config_table()
            kt = tab.get(cw[1], "unknown")
            safe_key = cw[1] in SAFE_F or cw[1] in SAFE_B or cw[1] in SAFE_I or cw[1] in SAFE_S
            ty = "str " + strval_class(cw[3]) if cw[2] == "str" else cw[2]
            refused = kt == "unknown" or (cw[2] == "str" and not str_accepts(kt, cw[3]))
            return f"x cfgsetany {tgt} {kt} {b(safe_key or refused)} {ty}"
        kt, mop, safe = config_call_model(cw)
        if mop is None:
            mop = f"parse {b(ptr)}"
        return f"cfgcall {tgt} {kt} {b(safe)} {mop}"
    if op == "subretain":
        return f"cfgretaindec {inst} {w[2]}" if w[1] == "cfg" else f"subretain {inst} {w[1]} {w[2]}"
    if op == "cfgnew":
        return f"cfgnew {w[1]} " + " ".join(INIT_MAP[w[2]].split()[:2])
    if op == "cfgretain":
        return f"cfgretainheld {w[1]} {w[2]}"
    if op == "subuse":
        return f"cfguse {w[2]}" if w[1] == "cfg" else f"subuse {w[1]} {w[2]}"
    if op == "subfree":
        return f"cfgfree {w[2]}" if w[1] == "cfg" else f"subfree {w[1]} {w[2]}"
    if op == "logfile":
        return D + "logfile " + (w[1] if w[1] in ("null", "bad") else "file")
    if op == "mllrread":
        return f"mllrread {w[1]} {b(w[2] == 'id')}"
    if op == "mllrapply":
        if w[1] == "null":
            return f"mllrapplynull {inst}"
        return f"mllrapply {inst} {w[1]} {b(len(w) > 2 and w[2] == 'keep')}"
    if op == "mllrfree":
        return f"mllrfree {w[1]}"
    if op == "proc":
        adv = "adv=1" in ret
        # c1: the acoustic model stands in ACMOD_PROCESSING after the block (a cepstral frame was consumed)
        return ("c1 " if st_field(mine, "u") == "p" else "") + D + f"proc {w[6]} {b(adv)}"
    if op == "end":
        return D + f"end {b('adv=1' in ret)}"
    if op == "hyp":
        return D + f"hyp {b(ptr)}"
    if op == "seg":
        return D + f"seg {w[1]} {b(ptr)}"
    # the harness has one handle table per iterator type, the model one table: seg k, hyp 100+k, alignment 200+k,
    # lattice node 300+k, lattice link 400+k
    if op in ("segnext", "hypnext", "alinext"):
        return D + f"{op} {IDBASE[op[:3]] + int(w[1])} {b(not ptr)}"
    if op in ("segfree", "hypfree", "alifree"):
        return D + f"{op} {IDBASE[op[:3]] + int(w[1])}"
    if op in ("latwalk", "latfree", "alfree", "albuild"):
        return D + f"{op} {w[1]}"
    if op == "aladd":
        plen = re.search(r"plen=(\d+)", ret)
        return D + f"aladd {w[1]} {w[2]} {plen.group(1) if plen else 0}"
    if op == "alpop":
        ne = re.search(r"ne=(\d+)", ret)
        return D + f"alpop {w[1]} {ne.group(1) if ne else 3}"
    if op == "nbest":
        return D + f"nbest {100 + int(w[1])} {b(g_after)} {b(ptr)}"
    if op == "hypseg":
        return D + f"hypseg {w[1]} {100 + int(w[2])} {b(ptr)}"
    if op == "lattice":
        return D + f"lattice {b(ptr)}"
    if op == "latbest":
        src = src_of(w[1]) if len(w) > 1 else "dec"
        return D + f"latbest {src} {b(g_after if src == 'dec' else True)} {b(ptr)}"
    if op == "latprune":
        src = src_of(w[1])
        return D + f"latprune {src} {b(g_after if src == 'dec' else True)} {b(r0.startswith('n='))}"
    if op == "lattrav":
        src = src_of(w[1])
        return D + f"lattrav {src} {b(r0 != 'null')}"
    if op == "lnode":
        return D + f"lnode {300 + int(w[1])} {src_of(w[2])} {b('lat=1' in ret)} {b(ptr)}"
    if op in ("lnodenext", "llinknext"):
        return D + f"{op} {(300 if op[1] == 'n' else 400) + int(w[1])} {b(not ptr)}"
    if op in ("lnodefree", "llinkfree"):
        return D + f"{op} {(300 if op[1] == 'n' else 400) + int(w[1])}"
    if op == "llink":
        return D + f"llink {400 + int(w[1])} {300 + int(w[2])} {b(ptr)}"
    if op == "latretain":
        return D + f"latretain {w[1]} {b(ptr)}"
    ru = "ru=1" in ret
    if op == "align":
        return D + f"align {b(ru)} {b(ptr)} {b(a_after)}"
    if op == "alretain":
        return D + f"alretain {w[1]} {b(ru)} {b(ptr)} {b(a_after)}"
    if op == "aliter":
        src = "dec" if w[2] == "-1" else w[2]
        al = "al=1" in ret
        return D + f"aliter {200 + int(w[1])} {src} {b(ru)} {b(al)} {b(a_after)} {b(ptr)}"
    if op == "alichild":
        return D + f"alichild {200 + int(w[1])} {200 + int(w[2])} {b(ptr)}"
    if op == "aligoto":
        return D + f"aligoto {200 + int(w[1])} {b(not ptr)}"
    if op == "json":
        return D + f"json {w[1]} {b(ru)} {b(ptr)} {b(a_after)}"
    if op == "getcmn":
        return D + "getcmn"
    if op == "setcmn":
        return D + "setcmn"
    if op == "lookup":
        return D + f"lookup {b(ptr)}"
    if op == "addword":
        return D + f"addword {w[3]} {b(r0.startswith('n='))}"
    if op == "jsgf":
        return D + f"setgrammar {b(w[1] not in GRAM_BAD_ALL)}"
    if op == "jsgffile":
        return D + f"setgrammar {b(w[1] == 'good')}"
    if op == "fsg":
        return D + f"setgrammar {b(w[1] not in FSG_BAD)}"
    if op == "aligntext":
        return D + f"setgrammar {b(w[1] not in ALIGN_BAD)}"
    return None


def canon_ret(ret):
    r0 = ret.split()[0]
    if r0.startswith("n="):
        return "count"
    return r0


DRIVER = None
SCRATCH_DIR = None      # where the harness may write (log files, MLLR files): the check's scratch directory


def pin_driver(dirpath):
    """private copy of the freshly built driver: other checks may relink lean/.lake/build/bin/ssdriver while this
    one is running"""
    global DRIVER
    import shutil
    dst = os.path.join(str(dirpath), "ssdriver-c09")
    for _ in range(50):
        try:
            shutil.copy2(str(vlib.driver_path()), dst)
            DRIVER = dst
            return
        except FileNotFoundError:
            import time
            time.sleep(0.2)
    raise RuntimeError("ssdriver binary not found")


def prepare_scratch(dirpath):
    """directory the harness may write to (log files); MLLR transform files for mllr_read: an identity transform
    with the stream layout of the acoustic model (read from the header of its means file), a truncated one and text
    that is not a transform"""
    global SCRATCH_DIR
    import struct
    SCRATCH_DIR = str(dirpath)
    os.makedirs(SCRATCH_DIR, exist_ok=True)
    b = (vlib.REPO / "model" / "en-us" / "means").read_bytes()
    i = b.index(b"endhdr\n") + 7
    n_mgau, n_feat, n_density = struct.unpack("<3i", b[i + 4:i + 16])
    veclen = struct.unpack(f"<{n_feat}i", b[i + 16:i + 16 + 4 * n_feat])
    out = [f"1\n{n_feat}"]
    for v in veclen:
        out.append(str(v))
        for r in range(v):
            out.append(" ".join("1.0" if r == c else "0.0" for c in range(v)))
        out.append(" ".join("0.0" for _ in range(v)))
        out.append(" ".join("1.0" for _ in range(v)))
    text = "\n".join(out) + "\n"
    open(os.path.join(SCRATCH_DIR, "mllr-id.txt"), "w").write(text)
    open(os.path.join(SCRATCH_DIR, "mllr-short.txt"), "w").write(text[:len(text) // 3])
    open(os.path.join(SCRATCH_DIR, "mllr-bad.txt"), "w").write("this is not an MLLR transform\n")
    base = (vlib.REPO / "tests" / "data" / "turtle.dic").read_text()
    open(os.path.join(SCRATCH_DIR, "refused-lines.dic"), "w").write(
        base + "zzyzxqq(2) Z IH K S\nforward F AO R W ER D\nqqbadphone Q QQ\nhello(9) HH AH L OW\n")


def pin_harness(dirpath, pool=False):
    """private copy of the harness binary (statically linked with the library): other checks prune
    .build/repo/* while this one is running.  pool=True: the flavour whose element pool is one heap block per
    element (-DVF_PASSTHROUGH_POOL), so that ASan sees stale lattice nodes / links / A* paths"""
    import shutil, time
    for _ in range(5):
        try:
            src = vlib.build_harness("h_c09", extra_flags=("-DVF_PASSTHROUGH_POOL",)) if pool else vlib.build_harness("h_c09")
            dst = os.path.join(str(dirpath), "h_c09p" if pool else "h_c09")
            shutil.copy2(str(src), dst)
            return dst
        except FileNotFoundError:
            time.sleep(0.5)
    raise vlib.BuildError("harness binary vanished while copying")


def run_model(text):
    import subprocess
    path = DRIVER or str(vlib.driver_path())
    r = subprocess.run([path, "c09"], input=text.encode(), stdout=subprocess.PIPE, stderr=subprocess.PIPE, timeout=120)
    return r.returncode, r.stdout.decode(errors="replace"), r.stderr.decode(errors="replace")


def word_tokens(cw):
    """what the history knows about the word / phones of a decoder_add_word / decoder_lookup_word call (symbolic names of
    harness/h_c09.c `word_text` / `phones_text`), for the model's prediction of the outcome (`Seen.addPred`, `Seen.lookupPred`):
    the model, not the implementation, says whether the word is accepted / found"""
    if cw[0] not in ("addword", "lookup", "lookuphold"):
        return ""
    wk = cw[2] if cw[0] == "lookuphold" else cw[1]
    add = cw[0] == "addword"
    if re.fullmatch(r"new\d+|weird\d+|long|paren|altnew", wk):
        w = f"W fresh {wk} -"
    elif wk.startswith("altofnew"):
        w = f"W altof {wk} new{wk[8:]}"
    elif wk in ("known", "filler"):
        w = "W present - -"
    elif wk in ("unknown", "empty") or (add and wk == "altmissing"):
        w = "W absent - -"
    else:
        w = "W echo - -"          # `alt` (forward(2)): in some of the dictionaries used, not in others
    pt = ""
    if add:
        pk = cw[2]
        pt = "P valid " if pk in ("ok", "one", "sil", "spaces", "long") else ("P invalid " if pk in ("empty", "blank", "bad") else "P echo ")
    return w + " " + pt


_API_MAP = None


def api_map():
    """(executes: kind -> set of function names, excluded: name -> reason), printed by the model driver from the Lean
    definitions `executes` / `excluded` of Model/ProtocolApi.lean"""
    global _API_MAP
    if _API_MAP is None:
        rc, out, err = run_model("apimap\n")
        if rc != 0 or "|" not in out:
            raise RuntimeError("ssdriver c09 apimap failed: " + (err or out)[-300:])
        a, _, bpart = out.strip().partition("|")
        ex = {}
        for ent in a.split(";"):
            k, _, fs = ent.partition("=")
            ex[k] = set(f for f in fs.split(",") if f)
        excl = {}
        for ent in bpart.split(";"):
            if ent:
                n, _, r = ent.partition(":")
                excl[n] = r
        _API_MAP = (ex, excl)
    return _API_MAP


ITER_MAKERS = ("seg", "hypseg", "aliter", "alichild", "aligoto", "lnode", "llink")


def model_replay(tr):
    """run the model on a transcript; -> list of (index in tr, model call, model ret, model state, class)"""
    lines, idx = [], []
    for i, (call, ret, st) in enumerate(tr):
        if ret is not None and ret.startswith("skip"):
            continue
        if ret is None:
            # the process died inside this call: it is still classified by the model (a crash in an
            # out-of-protocol call is not a violation); the outcome flags are irrelevant for that
            try:
                m = to_model(call, "null", "")
            except (IndexError, KeyError, ValueError):
                m = None
        else:
            m = to_model(call, ret, st)
        if m is None:
            continue
        # observations the model uses only where it has no prediction of its own: the frame counter of each decoder
        # after the call, the count an audio block returned
        parts = (st or "").split(" || ")
        fa = st_field(parts[0], "fr") if parts else None
        fb = st_field(parts[1], "fr") if len(parts) > 1 else None
        nr = re.match(r"n=(\d+)", ret or "")
        cw = [x for x in call.split() if not x.startswith("@")]
        # the number of further elements a freshly created (or repositioned) iterator will deliver, observed ONCE by the
        # harness: from then on the model predicts every ..._next of that iterator (Model/ProtocolPred.lean)
        kr = re.search(r"(?:^| )k=(\d+)", ret or "")
        kt = f"K {kr.group(1)} " if kr and cw[0] in ITER_MAKERS else ""
        m = f"F {fa or 0} {fb or 0} " + (f"N {nr.group(1)} " if nr and cw[0] == "proc" else "") + kt + word_tokens(cw) + m
        lines.append(m)
        idx.append(i)
    rc, out, err = run_model("\n".join(lines) + "\n" if lines else "")
    if rc != 0:
        raise RuntimeError("ssdriver c09 failed: " + err[-500:])
    res = []
    for i, m, o in zip(idx, lines, out.rstrip("\n").split("\n") if lines else []):
        parts = [p.strip() for p in o.split(" | ")]
        if len(parts) < 3:
            res.append((i, m, o, "", "bad"))
        else:
            res.append((i, m, parts[0], parts[1], parts[2]))
    return res


def compare(tr):
    """-> (divergences, classes) ; a divergence is (index, call, impl ret, impl state, model call, model ret,
    model state, class)"""
    div, classes = [], []
    executes, _ = api_map()
    for i, m, mret, mst, cls in model_replay(tr):
        call, ret, st = tr[i]
        kind = (cls.split() + ["", "", ""])[2]
        ce = Ent((call, cls))
        ce.fns, ce.kind = (getattr(tr[i], "fns", ()) if ret is not None else ()), kind
        ce.ret = mret
        ce.idx = i
        classes.append(ce)
        if ret is not None and not cls.startswith("oop") and cls != "bad":
            # the functions the call really reached must be among those the model's mapping names for its kind
            extra = [f for f in getattr(tr[i], "fns", ()) if f not in executes.get(kind, ())]
            if extra:
                div.append((f"API mapping: a call of kind {kind} reached {extra}, which `executes` does not list", i, call, ret, st,
                            m, mret, mst, cls))
                break
        if cls.startswith("oop") or cls == "bad":
            div.append(("out-of-protocol call in transcript (generator/harness error)", i, call, ret, st, m, mret, mst, cls))
            break
        if ret is None:
            break
        if canon_ret(ret) != mret or st != mst:
            div.append(("return class / state differs", i, call, ret, st, m, mret, mst, cls))
            break
    return div, classes


# ---------------------------------------------------------------------------------------------

def finding_key(kind, err, tr):
    """stable identifier of a witness class: (failure kind, call class in which it happened or allocation site)"""
    if kind == "leak":
        if "jsgf_atom_new" in err and "yyparse" in err:
            return "leak:jsgf-syntax-error"
        fr = re.findall(r"#\d+ 0x[0-9a-f]+ in (\S+) ", err)
        fr = [f for f in fr if not f.startswith("__") and f not in ("malloc", "calloc", "realloc")]
        return "leak:" + (fr[1] if len(fr) > 1 else (fr[0] if fr else "?"))
    last = [x for x in tr[-1][0].split() if not x.startswith("@")][0] if tr and tr[-1][1] is None else "?"
    return f"{kind}:{last}"


def judge(c, binp, ops, label, stats, shrink=True):
    """replay one history on implementation and model; record a violation when the property fails.
    Returns True when nothing was found."""
    rc, tr, err = run_history(binp, ops)
    kind = failure_kind(rc, tr, err)
    stats["calls_executed"] += sum(1 for t in tr if t[1] is not None and not t[1].startswith("skip"))
    stats["skipped_calls"] += sum(1 for t in tr if t[1] is not None and t[1].startswith("skip"))
    try:
        div, classes = compare(tr)
    except RuntimeError as e:
        c.oblige(f"model driver runs ({label})", False, str(e))
        return False
    for call, cls in classes:
        k = cls.split()[0]
        stats["classes"][k] = stats["classes"].get(k, 0) + 1
        if k == "ooo":
            o = call.split()[0]
            stats["ooo"][o] = stats["ooo"].get(o, 0) + 1
    for call, ret, st in tr:
        if ret and not ret.startswith("skip"):
            key = call.split()[0] + ":" + canon_ret(ret)
            stats["returns"][key] = stats["returns"].get(key, 0) + 1
    if kind is None and not div:
        account_api(stats, tr, classes)
        account_families(stats, tr)
        return True
    if div and div[0][0].startswith("out-of-protocol"):
        c.oblige(f"generated history is inside the protocol ({label})", False, {"ops": ops, "at": div[0][1:]})
        return False

    def fails(sub):
        r2, t2, e2 = run_history(binp, sub)
        k2 = failure_kind(r2, t2, e2)
        if kind is not None:
            if k2 != kind or finding_key(k2, e2, t2) != finding_key(kind, err, tr):
                return False
        try:
            d2, _ = compare(t2)
        except RuntimeError:
            return False
        if d2 and d2[0][0].startswith("out-of-protocol"):
            return False        # shrinking must stay inside the protocol
        return (k2 is not None) if kind is not None else bool(d2)
    small = vlib.ddmin(ops, fails, max_tests=150) if shrink and len(ops) > 1 else ops
    rc, tr, err = run_history(binp, small)
    kind2 = failure_kind(rc, tr, err)
    div2, _ = compare(tr)
    if kind2 is None and not div2:      # flaky shrink: fall back to the full history
        small = ops
        rc, tr, err = run_history(binp, small)
        kind2 = failure_kind(rc, tr, err)
        div2, _ = compare(tr)
    replay = {"kind": "API call history (one call per line; harness/h_c09.c)", "ops": small,
              "transcript": [list(t) for t in tr][-12:], "exit_code": rc,
              "how_to_rerun": "python3 tools/check.py C09 --replay <this file>"}
    if kind2 is not None:
        key = finding_key(kind2, err, tr)
        replay.update({"failure": kind2, "where": where(err), "stderr_tail": err[-2500:], "finding_key": key,
                       "implementation_violates_property": True,
                       "what": "the library aborted / reported a memory error / leaked while replaying a history of "
                               "in-protocol and listed out-of-order calls"})
        c.violation(replay, True, finding_key=key)
        stats["failures"][key] = stats["failures"].get(key, 0) + 1
        stats.setdefault("witnessed", []).append(key)
    else:
        d = div2[0]
        # which side is wrong?  A listed out-of-order call that does not return its documented error value or
        # changes the state is a violation by the implementation; any other difference is a model/impl divergence
        # ... and so is an iterator that delivers another number of elements than the structure it walks holds (the count
        # was read off that structure when the iterator was made; class marker `L`)
        miscount = d[8].endswith(" L")
        impl_wrong = d[8].startswith("ooo") or miscount
        replay.update({"divergence": {"what": d[0], "call": d[2], "implementation_return": d[3], "implementation_state": d[4],
                                      "model_call": d[5], "model_return": d[6], "model_state": d[7], "class": d[8]},
                       "implementation_violates_property": impl_wrong,
                       "what": ("an iterator delivered another number of elements than the segmentation / alignment / lattice list "
                                "it walks holds (or was not released by the call that returned NULL)" if miscount else
                                "a listed out-of-order call did not return its documented error value or changed the state")
                               if impl_wrong else "return class or protocol state of the implementation differs from the model"})
        c.oblige(f"correspondence model = implementation ({label})", False, replay["divergence"])
        c.violation(replay, impl_wrong)
    return False


def truncate_at_oop(binp, ops, stats, max_rounds=4):
    """A generated history whose transcript contains an out-of-protocol call (the generator's beliefs about the
    implementation's data-dependent outcomes were wrong) says nothing about the property from that call on.  It is
    cut before that call and replayed; returns (ops, rc, transcript, stderr, divergences, classes).  Only counted,
    never an alarm: an alarm needs the IMPLEMENTATION to do something wrong inside the protocol."""
    for _ in range(max_rounds):
        rc, tr, err = run_history(binp, ops)
        div, classes = compare(tr)
        if not (div and div[0][0].startswith("out-of-protocol")):
            return ops, rc, tr, err, div, classes
        cut = div[0][1]                      # index in the transcript = index in ops (one entry per op, in order)
        stats["generator_artefacts_truncated"] = stats.get("generator_artefacts_truncated", 0) + 1
        key = div[0][2].split()[0] if not div[0][2].startswith("@") else div[0][2].split()[1]
        stats.setdefault("generator_artefact_calls", {})
        stats["generator_artefact_calls"][key] = stats["generator_artefact_calls"].get(key, 0) + 1
        if cut >= len(ops):
            # the out-of-protocol call is one of the closing calls issued by the harness itself (cannot happen: they
            # only free); keep the alarm path for that
            return ops, rc, tr, err, div, classes
        ops = ops[:cut]
    return ops, rc, tr, err, div, classes


TWIN_SKIP_KINDS = ("setGrammar", "addWord")   # refused grammar / alignment-text loads, refused decoder_add_word calls


def refused_indices(tr, classes, nops):
    """transcript indices (< nops) of the calls the property says are no-ops: listed out-of-order calls (class `ooo`) and
    grammar / alignment-text loads that were refused with an error.  -> (indices, all of them listed out-of-order?)"""
    idx, only_ooo = [], True
    for ce in classes:
        j = getattr(ce, "idx", None)
        if j is None or j >= nops or tr[j][1] is None or tr[j][1].startswith("skip"):
            continue
        cls = ce[1]
        if cls.startswith("ooo"):
            idx.append(j)
        elif cls.startswith("in") and getattr(ce, "kind", "") in TWIN_SKIP_KINDS and getattr(ce, "ret", "") == "err":
            idx.append(j)
            only_ooo = False
    return idx, only_ooo


def twin_check(binp, ops, tr, classes):
    """Error recovery, implementation against implementation: replay the history WITHOUT its refused calls on a fresh
    process (the twin decoder that never saw them) and compare what every remaining call returned and the state after it
    (C09_pred_refused_skippable is the model-side statement).  -> None (nothing to skip), or
    (number skipped, first difference or None, only listed out-of-order calls were skipped)"""
    nops = len(ops)
    R, only_ooo = refused_indices(tr, classes, nops)
    if not R:
        return None
    Rs = set(R)
    twin_ops = [o for j, o in enumerate(ops) if j not in Rs]
    rc2, tr2, err2 = run_history(binp, twin_ops)
    kept = [j for j in range(len(tr)) if j not in Rs]
    if failure_kind(rc2, tr2, err2) is not None or len(tr2) != len(kept):
        return len(R), {"what": "the twin history did not replay cleanly", "failure": failure_kind(rc2, tr2, err2),
                        "twin_ops": twin_ops, "lengths": [len(tr2), len(kept)]}, only_ooo
    for k, j in enumerate(kept):
        if tuple(tr[j][:3]) != tuple(tr2[k][:3]):
            return len(R), {"what": "after refused calls the decoder does not behave like the twin that skipped them",
                            "call": tr[j][0], "index": j, "with_refused_calls": list(tr[j][:3]),
                            "twin": list(tr2[k][:3]), "refused_calls_skipped": [tr[x][0] for x in R],
                            "twin_ops": twin_ops}, only_ooo
    return len(R), None, only_ooo


CLOSED_STATE = ("D=0 it=0,0,0 lr=0 ar=0 ln=0,0 ub=- || D=0 it=0,0,0 lr=0 ar=0 ln=0,0 ub=- || "
                "cf=0 lm=0 fe=0 ft=0 ml=0 so=0")


def new_stats():
    return {"profiles": {}, "calls": {}, "blocks": {}, "classes": {}, "ooo": {}, "returns": {}, "failures": {},
            "calls_executed": 0, "skipped_calls": 0, "kinds": {}, "kind_returns": {}, "kind_fns": {}, "fn_calls": {}}


NEXT_KINDS = ("segNext", "hypNext", "aliNext", "lnodeNext", "llinkNext")


# ---------------------------------------------------------------------------------------------
# block-crossing class, second half: the container itself against its model (Model/BlkArray.lean, Props/C09Blk.lean)

def gen_blk_ops(rng, real_size=False):
    """one op sequence for the real blkarray_list and its model: table shapes with tiny blocks (every boundary is hit
    exactly: k-1, k, k+1, 2k, m*k, m*k+1 elements ...) or, `real_size`, the block size of the source with a few rows"""
    def shape():
        return (rng.choice([2, 3, 4]), HIST_BLKSIZE) if real_size else (rng.choice([1, 2, 3, 4, 7]), rng.choice([1, 2, 3, 5, 16]))
    m, k = shape()
    ops = [f"new {m} {k}"]
    for _ in range(rng.range(3, 6 if real_size else 12)):
        r = rng.below(10)
        if r < 6:
            n = rng.choice([0, 1, 1, k - 1, k, k + 1, 2 * k - 1, 2 * k, 2 * k + 1, m * k - 1, m * k, m * k + 1, rng.range(0, m * k + 3)])
            if real_size:
                n = rng.choice([1, 1, 2, k - 1, k, k + 1, k + 1, 2 * k, 2 * k + 1])
            ops.append(f"app {max(n, 0)}")
        elif r < 9 or real_size:
            ops.append("reset")
        else:
            m, k = shape()
            ops += ["free", f"new {m} {k}"]
    if rng.chance(0.5):
        ops.append(rng.choice(["reset", "free"]))
    return ops


def run_blk(binp, ops, timeout=120):
    """-> (implementation rc, implementation lines, stderr, model lines)"""
    import subprocess
    rc, out, err = vlib.run_bin(binp, stdin_text="\n".join(ops) + "\n", timeout=timeout, leaks=True)
    path = DRIVER or str(vlib.driver_path())
    r = subprocess.run([path, "c09blk"], input=("\n".join(ops) + "\n").encode(), stdout=subprocess.PIPE, stderr=subprocess.PIPE,
                       timeout=timeout)
    if r.returncode != 0:
        raise RuntimeError("ssdriver c09blk failed: " + r.stderr.decode(errors="replace")[-500:])
    return rc, out.rstrip("\n").split("\n") if out else [], err, r.stdout.decode().rstrip("\n").split("\n")


def blk_failure(rc, lines, err, mlines, nops):
    """None, or (kind, implementation_violates_property, detail)"""
    if rc != 0 or len(lines) != nops:
        if "LeakSanitizer" in err:
            kind = "leak"
        else:
            m = re.search(r"ERROR: AddressSanitizer: ([a-zA-Z0-9-]+)", err)
            kind = "asan:" + m.group(1) if m else ("assert" if "Assertion" in err else ("ubsan" if "runtime error:" in err else f"exit code {rc}"))
        return kind, True, err[-1500:]
    for i, (a, b_) in enumerate(zip(lines, mlines)):
        if a != b_:
            return "divergence", False, {"op_index": i, "implementation": a, "model": b_}
    return None


def blk_probe_family(c, stats):
    """drives src/blkarray_list.c and the model with the same op sequences; records violations / obligations"""
    binp = vlib.build_harness("h_c09blk")
    import shutil
    dst = os.path.join(str(c.scratch), "h_c09blk")
    shutil.copy2(str(binp), dst)
    rng = vlib.Rng(((c.seed + 7) * 0x9E3779B97F4A7C15) & (2 ** 64 - 1))
    n_small, n_real = (60, 2) if c.tier == "quick" else (1500, 12)
    seqs = [["new 3 2", "app 5", "reset", "app 1", "reset", "app 7", "free", "new 1 1", "app 2", "reset", "reset", "app 1"],
            [f"new 3 {HIST_BLKSIZE}", f"app {HIST_BLKSIZE}", "app 1", "reset", f"app {HIST_BLKSIZE + 1}", "free"]]
    seqs += [gen_blk_ops(rng.fork()) for _ in range(n_small)] + [gen_blk_ops(rng.fork(), True) for _ in range(n_real)]
    cover = {"sequences": len(seqs), "ops": 0, "appends_refused_table_full": 0, "resets_by_rows_in_use": {}, "appends_taking_a_new_row": 0,
             "max_rows_in_use": 0, "real_block_size_sequences": n_real + 1, "block_size_of_source": HIST_BLKSIZE}
    bad = []
    for ops in seqs:
        rc, lines, err, mlines = run_blk(dst, ops)
        f = blk_failure(rc, lines, err, mlines, len(ops))
        cover["ops"] += len(ops)
        prev_cr = -1
        for o, l in zip(ops, lines):
            m = re.search(r"cr=(-?\d+)", l)
            cr = int(m.group(1)) if m else -1
            if o.startswith("app") and "ret=-1" in l:
                cover["appends_refused_table_full"] += 1
            if o.startswith("app") and cr > prev_cr:
                cover["appends_taking_a_new_row"] += 1
            if o in ("reset", "free"):
                d = cover["resets_by_rows_in_use"]
                d[str(prev_cr + 1)] = d.get(str(prev_cr + 1), 0) + 1
            cover["max_rows_in_use"] = max(cover["max_rows_in_use"], cr + 1)
            prev_cr = cr if not o.startswith("new") and o != "free" else -1
        if f is None:
            continue
        kind = f[0]

        def fails(sub):
            if not sub or not sub[0].startswith("new"):
                return False
            r2 = run_blk(dst, sub)
            f2 = blk_failure(*r2, len(sub))
            return f2 is not None and f2[0] == kind
        small = vlib.ddmin(ops, fails, max_tests=80) if len(ops) > 1 else ops
        rc, lines, err, mlines = run_blk(dst, small)
        f = blk_failure(rc, lines, err, mlines, len(small)) or f
        bad.append(kind)
        replay = {"kind": "blkarray_list op sequence (harness/h_c09blk.c; model driver `c09blk`)", "blk_ops": small,
                  "implementation_lines": lines[-6:], "model_lines": mlines[-6:], "failure": f[0], "detail": f[2],
                  "implementation_violates_property": f[1],
                  "what": "the block-wise growing table of the search history (src/blkarray_list.c) aborted / leaked / reported a memory "
                          "error on a sequence of appends and resets" if f[1] else
                          "counters or row pointers of src/blkarray_list.c differ from the model after an operation",
                  "how_to_rerun": "python3 tools/check.py C09 --replay <this file>"}
        c.violation(replay, f[1], finding_key=("blkarray:" + f[0]) if f[1] else None)
        if len(bad) >= 3:
            break
    c.oblige("block-crossing class, the container itself: src/blkarray_list.c (_blkarray_list_init / append / reset / free, ASan/UBSan/LSan, "
             "asserts on) and the model Model/BlkArray.lean (theorems C09_blk_* : reset after ANY history restores the initial state) "
             "agree on counters and row pointers after every operation of every generated sequence - tiny blocks hitting every "
             "boundary exactly, and the block size of the source - and nothing is left allocated at exit",
             not bad, {"failures": bad})
    c.cov.update({"blkarray_list_against_model": cover})
    return not bad


def addword_refusal_kind(cw, earlier):
    """refusal kind of a refused `addword <word> <phones> <update>` call, from its symbolic arguments and the words added before"""
    wk, pk = cw[1], cw[2]
    if pk in ("empty", "blank"):
        return "empty-pronunciation"
    if pk == "bad":
        return "unknown-phone"
    if wk == "empty":
        return "empty-word"
    if wk == "altmissing" or (wk.startswith("altofnew") and "new" + wk[8:] not in earlier):
        return "alternate-without-base"
    if wk in ("alt", "altdict", "altnew") or wk.startswith("altofnew"):
        return "duplicate-alternate"
    return "duplicate-word"


def ret_ok(nx, calls, j, inst):
    r = next((r2 for i2, c2, r2 in calls[j + 1:] if i2 == inst), "")
    return r.startswith("ok")


def account_addword_refusals(stats, tr):
    """matrix (refusal kind of decoder_add_word) x (the NEXT call on that decoder; `uses-word` marks a grammar / FSG / alignment
    text containing the base word or the word involved), over every cleanly replayed history"""
    mat = stats.setdefault("addword_refusal_x_next_call", {})
    added = [set(), set()]
    calls = [(1 if c.startswith("@1 ") else 0, [x for x in c.split() if not x.startswith("@")], r) for c, r, _ in tr if r is not None and not r.startswith("skip")]
    for j, (inst, cw, ret) in enumerate(calls):
        if cw[0] in ("init", "initcfg", "reinit", "reinitcfg", "create", "free"):
            added[inst] = set()
        if cw[0] != "addword" or len(cw) < 4:
            continue
        if ret.startswith("n="):
            added[inst].add(cw[1])
            continue
        rk = addword_refusal_kind(cw, added[inst])
        nx = next((c2 for i2, c2, _ in calls[j + 1:] if i2 == inst), None)
        if nx is None:
            nk = "(end of history)"
        else:
            nk = nx[0]
            base = {"known": "fwd", "alt": "fwd", "altnew": "fwd", "altdict": "hello"}.get(cw[1], cw[1][-1] if cw[1].startswith(("new", "altofnew")) else "")
            uses = (nk == "jsgf" and (nx[1] in ("go", "move", "star", "opt", "plus", "long", "wide", "grp") and base == "fwd" or nx[1] in ("hello", "grp", "wide") and base == "hello"
                                      or nx[1] == "usenew" + base)) or (nk == "fsg" and base == "fwd" and nx[1] != "oov") or \
                   (nk == "aligntext" and (base == "fwd" and nx[1] in ("go", "ws") or base == "hello" and nx[1] == "hello")) or (nk == "jsgffile" and base == "fwd" and nx[1] == "good")
            if cw[1] in ("altmissing", "empty"):      # no word of the dictionary is involved: any accepted grammar counts
                uses = ret_ok(nx, calls, j, inst)
            if nk in ("jsgf", "jsgffile", "fsg", "aligntext"):
                nk = "grammar-load:" + ("uses-word" if uses else "other-words")
        mat.setdefault(rk, {})
        mat[rk][nk] = mat[rk].get(nk, 0) + 1


def account_families(stats, tr):
    account_addword_refusals(stats, tr)
    """what the between-utterances and block-crossing families really reached (measured on the transcript of a
    cleanly replayed history, per decoder instance): alignment requests REFUSED after decoder_reinit_feat (the
    ended utterance no longer fits the fresh feature buffer) and whether valid calls followed; utterances by
    number of history-table blocks in use at decoder_end_utt, and which call reset a table of >= 2 blocks"""
    fam = stats.setdefault("families", {"align_refused_after_reinit_feat": 0, "of_which_followed_by_more_calls_on_that_decoder": 0,
                                        "align_reused_after_reinit_feat": 0, "align_after_reinit_feat_within_fresh_buffer": 0,
                                        "utterances_by_history_blocks": {}, "max_history_entries": 0,
                                        "reset_of_a_multi_block_history_by": {}, "history_block_size": HIST_BLKSIZE,
                                        "fresh_feature_buffer_frames": FEAT_ALLOC})
    rf, blocks, pending = [False, False], [0, 0], [False, False]
    # matrix: documented call made between utterances (after decoder_end_utt, before the next start) -> outcome of the
    # alignment-kind queries that followed it
    BETWEEN = ("reinitfeat", "reinit", "reinitcfg", "mllrapply", "setcmn", "getcmn", "addword", "jsgf", "jsgffile", "fsg",
               "aligntext", "cfg", "logfile", "lookup", "latprune")
    mat = fam.setdefault("alignment_queries_after_a_between_utterances_call", {})
    ended, lastb = [False, False], [None, None]
    for call, ret, st in tr:
        if ret is None or ret.startswith("skip"):
            continue
        w = call.split()
        i = 0
        if w[0].startswith("@"):
            i = 1 if w[0] == "@1" else 0
            w = w[1:]
        if not w:
            continue
        op = w[0]
        mine = (st or "").split(" || ")
        mine = mine[i] if len(mine) > i else ""
        if pending[i] and op not in ("exit",):
            fam["of_which_followed_by_more_calls_on_that_decoder"] += 1
            pending[i] = False
        if op == "end" and ret.startswith("ok"):
            ended[i], lastb[i] = True, None
        elif op in ("start", "free", "init", "initcfg"):
            ended[i], lastb[i] = False, None
        elif ended[i] and op in BETWEEN:
            lastb[i] = op
        if lastb[i] and (op in ("align", "alretain") or (op == "json" and len(w) > 1 and w[1] != "0") or
                         (op == "aliter" and len(w) > 2 and w[2] == "-1")):
            oc = "reused" if "ru=1" in ret else ("made" if not ret.startswith("null") else
                                                 ("null-with-aligner-present" if st_field(mine, "a") == "1" else "null"))
            d = mat.setdefault(lastb[i], {})
            d[oc] = d.get(oc, 0) + 1
        if op == "reinitfeat" and ret.startswith("ok"):
            rf[i] = True
        elif op in ("start", "reinit", "reinitcfg", "init", "initcfg") and not ret.startswith("err"):
            rf[i] = False
        if op == "end" and "hb=" in ret:
            hb = int(re.search(r"hb=(-?\d+)", ret).group(1))
            he = int(re.search(r"he=(-?\d+)", ret).group(1))
            d = fam["utterances_by_history_blocks"]
            d[str(hb)] = d.get(str(hb), 0) + 1
            fam["max_history_entries"] = max(fam["max_history_entries"], he)
            blocks[i] = hb
        elif blocks[i] >= 2 and op in ("start", "reinit", "reinitcfg", "jsgf", "jsgffile", "fsg", "aligntext", "free") \
                and not ret.startswith("err") and (op != "free" or ret.startswith("rc=0")):
            d = fam["reset_of_a_multi_block_history_by"]
            d[op] = d.get(op, 0) + 1
            blocks[i] = 0
        if rf[i] and (op in ("align", "alretain") or (op == "json" and len(w) > 1 and w[1] != "0") or
                      (op in ("aliter", "jsonhold") and len(w) > 2 and w[2] == "-1" and op == "aliter") or
                      (op == "jsonhold" and len(w) > 2 and w[2] != "0")):
            frames = int(st_field(mine, "fr") or 1) - 1
            if "ru=1" in ret:
                fam["align_reused_after_reinit_feat"] += 1
            elif frames <= FEAT_ALLOC:
                fam["align_after_reinit_feat_within_fresh_buffer"] += 1
            elif ret.startswith("null") and st_field(mine, "a") == "1":
                # an aligner was made (there were words to align) and the second pass was refused
                fam["align_refused_after_reinit_feat"] += 1
                pending[i] = True


def account_api(stats, tr, classes):
    """op-kind mix, return class per kind, functions reached per kind / in total (executed, in-protocol calls only)"""
    for ce in classes:
        cls = ce[1]
        if cls.startswith("oop") or cls == "bad" or not getattr(ce, "kind", ""):
            continue
        k = ce.kind
        stats["kinds"][k] = stats["kinds"].get(k, 0) + 1
        stats["kind_fns"].setdefault(k, set()).update(ce.fns)
        # return class the model predicts for the call (equal to the implementation's: the history replayed without divergence)
        rc = {"ok": "ok", "void": "ok", "ptr": "ok", "count": "ok", "err": "documented-error", "null": "null"}.get(
            getattr(ce, "ret", ""), "ok" if getattr(ce, "ret", "").startswith("rc=") else getattr(ce, "ret", "?"))
        if cls.startswith("ooo"):
            rc = "documented-error (listed out-of-order call)"
        d = stats["kind_returns"].setdefault(k, {})
        d[rc] = d.get(rc, 0) + 1
        if k in NEXT_KINDS:
            # was the outcome of this ..._next call predicted from the element count observed when the iterator was made?
            d2 = stats.setdefault("next_calls", {}).setdefault(k, {"predicted_from_count": 0, "of_which_NULL": 0, "echoed": 0})
            if cls.split()[-1] == "L":
                d2["predicted_from_count"] += 1
                d2["of_which_NULL"] += getattr(ce, "ret", "") == "null"
            else:
                d2["echoed"] += 1
    for e in tr:
        if e[1] is not None and not e[1].startswith("skip"):
            for f in getattr(e, "fns", ()):
                stats["fn_calls"][f] = stats["fn_calls"].get(f, 0) + 1
    # ledger at exit: after the closing calls (issued by the harness, replayed on the model like every other call) nothing
    # is held - the state summary, equal for model and implementation, is the empty one
    if tr and tr[-1][0] == "exit":
        stats["closed_total"] = stats.get("closed_total", 0) + 1
        if tr[-1][2] == CLOSED_STATE:
            stats["closed_empty"] = stats.get("closed_empty", 0) + 1
        else:
            stats.setdefault("closed_nonempty", []).append(tr[-1][2])


def check(c):
    c.trusted += ["harness/h_c09.c + tools/props/c09.py (generator, transcript translation incl. the symbolic word / phone classes of "
                  "`word_tokens`, diff, shrinking); tools/gen_apisurface.py (header scanner: a prototype it does not recognise is "
                  "not in the enumeration - it raises when fewer than 40 are found)",
                  "the white lists keepsHyp / keepsJson / keepsCmn (which calls leave a borrowed buffer alone) are validated by "
                  "really reading the borrowed strings under ASan, not proved against the C code",
                  "clang ASan/UBSan/LSan as observers of memory errors, undefined behaviour and leaks",
                  "the element counts the harness observes when an iterator is created (h_c09.c `rem_*`: read off the history "
                  "backtrace / alignment vector / lattice lists, not through the iterator functions; best-path and A* segmentations "
                  "are counted by walking a private second iterator) and `refused_indices` (which calls the twin replay drops)",
                  "absence of out-of-bounds accesses in the C code is OBSERVED on the generated histories, not proved"]
    c.assumptions += ["at most two decoders at a time; handles are used by one thread",
                      "a decoder made by decoder_create accepts only decoder_reinit / _free / _retain / _config + config_* / "
                      "_set_logfile until a decoder_reinit built its acoustic model (every other entry point dereferences d->acmod == NULL): "
                      "classified out-of-protocol, not generated",
                      "out-of-protocol calls (grammar / dictionary update=1 / alignment text / reinit during an utterance, a "
                      "full_utt block that is not the only block of its utterance, use of an iterator after its source object "
                      "was released) are outside the quantifier and are not generated",
                      "malformed model files and malformed grammar text are C17 / C10; here only documented-null, empty-string, "
                      "unknown-word and missing-file arguments are generated"]
    if not c.lean_obligations():
        return
    binp = pin_harness(c.scratch)
    pin_driver(c.scratch)
    prepare_scratch(c.scratch)
    stats = new_stats()
    ok = True
    ncorp = 0
    binp_pool = None
    for f in sorted((vlib.ROOT / "corpus" / "C09").glob("*.ops")):
        ops = [l for l in f.read_text().split("\n") if l.strip() and not l.startswith("#")]
        ncorp += 1
        ok = judge(c, binp, ops, f"corpus {f.name}", stats) and ok
        if any(l.split()[0].lstrip("@01 ").startswith("lat") or " lat" in l for l in ops):
            # corpus cases with lattice calls also run on the pass-through-pool flavour
            if binp_pool is None:
                binp_pool = pin_harness(c.scratch, pool=True)
            ok = judge(c, binp_pool, ops, f"corpus {f.name} (pass-through pool)", stats) and ok
    ok = blk_probe_family(c, stats) and ok
    n = 300 if c.tier == "quick" else 4000
    maxcalls = 40 if c.tier == "quick" else 60
    # vlib.Rng streams of neighbouring seeds are shifted copies of each other: derive a decorrelated root
    root = vlib.Rng(((c.seed + 1) * 0x2545F4914F6CDD1D) & (2 ** 64 - 1))
    hs, on_pool = [], []
    for i in range(n):
        hs.append(gen_history(root.fork(), stats, maxcalls=maxcalls))
        # lattice-heavy histories (and every fifth other one) run on the pass-through-pool flavour
        on_pool.append(stats["last_profile"] in ("lattice", "queries") or i % 5 == 0)
    # family `addrefuse` (own random stream, appended: the other histories of a seed stay what they were): every refusal kind of
    # decoder_add_word followed directly by a grammar / alignment text that uses the words involved, then a decode
    root2 = vlib.Rng(((c.seed + 1) * 0x9E3779B97F4A7C15 + 0xADD0) & (2 ** 64 - 1))
    n_main = len(hs)            # the twin replay takes the first `twin_max` histories with refused calls AND every history of this family
    for i in range(14 if c.tier == "quick" else 300):
        hs.append(gen_history(root2.fork(), stats, maxcalls=maxcalls, profile="addrefuse"))
        on_pool.append(i % 5 == 0)
    n = len(hs)
    if binp_pool is None:
        binp_pool = pin_harness(c.scratch, pool=True)
    stats["histories_on_passthrough_pool"] = sum(on_pool)
    for h in hs[:3]:
        c.samples.append(h[:12] + (["..."] if len(h) > 12 else []))
    # first pass in parallel (pure observation), then judge the failing ones sequentially (shrinking)
    workers = 6

    def quick(i):
        b = binp_pool if on_pool[i] else binp
        rc, tr, err = run_history(b, hs[i])
        try:
            d0, _ = compare(tr)
        except RuntimeError:
            d0 = []
        if d0 and d0[0][0].startswith("out-of-protocol"):
            hs[i], rc, tr, err, _, _ = truncate_at_oop(b, hs[i], stats)
        return i, rc, tr, err
    bad, distinct, groups = [], set(), {}
    twins, twin_max = [], (60 if c.tier == "quick" else 600)
    with cf.ThreadPoolExecutor(workers) as ex:
        for i, rc, tr, err in ex.map(quick, range(n)):
            distinct.add(hash(tuple(hs[i])))
            kind = failure_kind(rc, tr, err)
            try:
                div, classes = compare(tr)
            except RuntimeError as e:
                c.oblige("model driver runs", False, str(e))
                return
            if kind is None and not div:
                stats["calls_executed"] += sum(1 for t in tr if t[1] is not None and not t[1].startswith("skip"))
                stats["skipped_calls"] += sum(1 for t in tr if t[1] is not None and t[1].startswith("skip"))
                for call, cls in classes:
                    k = cls.split()[0]
                    stats["classes"][k] = stats["classes"].get(k, 0) + 1
                    if k == "ooo":
                        o = call.split()[0]
                        stats["ooo"][o] = stats["ooo"].get(o, 0) + 1
                for call, ret, st in tr:
                    if ret and not ret.startswith("skip"):
                        key = call.split()[0] + ":" + canon_ret(ret)
                        stats["returns"][key] = stats["returns"].get(key, 0) + 1
                account_api(stats, tr, classes)
                account_families(stats, tr)
                if (len(twins) < twin_max or i >= n_main) and refused_indices(tr, classes, len(hs[i]))[0]:
                    twins.append((i, tr, classes))
            elif div and div[0][0].startswith("out-of-protocol"):
                # still out-of-protocol after cutting several times: dropped, counted, no alarm
                stats["generator_artefacts_dropped"] = stats.get("generator_artefacts_dropped", 0) + 1
            else:
                bad.append(i)
                if kind is not None:
                    key = finding_key(kind, err, tr)
                else:
                    d = div[0]
                    key = "generator:out-of-protocol" if d[0].startswith("out-of-protocol") \
                        else f"divergence:{d[2].split()[0]}:{d[8].split()[0]}"
                groups.setdefault(key, []).append(i)
                stats["failures"][key] = stats["failures"].get(key, 0) + 1
    # one witness per failure class (the shortest history of the class), shrunk
    counted = dict(stats["failures"])
    for key in sorted(groups, key=lambda k: -len(groups[k]))[:14]:
        i = min(groups[key], key=lambda j: len(hs[j]))
        if not judge(c, binp_pool if on_pool[i] else binp, hs[i], f"generated history {i}, class {key}", stats, shrink=True):
            ok = False
    # --- error recovery: every refused call removed, replayed on a fresh process, compared call by call
    def run_twin(t):
        i, tr, classes = t
        return i, twin_check(binp_pool if on_pool[i] else binp, hs[i], tr, classes)
    tw = {"histories_with_refused_calls_replayed_without_them": 0, "refused_calls_skipped": 0, "differences": []}
    with cf.ThreadPoolExecutor(workers) as ex:
        for i, res in ex.map(run_twin, twins):
            if res is None:
                continue
            nsk, diff, only_ooo = res
            tw["histories_with_refused_calls_replayed_without_them"] += 1
            tw["refused_calls_skipped"] += nsk
            if diff is not None:
                tw["differences"].append(diff)
                c.violation({"kind": "API call history (one call per line; harness/h_c09.c) and its twin without the refused calls",
                             "ops": hs[i], "twin_difference": diff,
                             "implementation_violates_property": only_ooo,
                             "what": "a refused call was not a no-op: the calls after it return something else / lead to another "
                                     "state than on a decoder that never saw it"}, only_ooo, tag="twin")
    c.oblige("error recovery, implementation against implementation: every history with refused calls (listed out-of-order calls, "
             "refused grammar loads), replayed on a fresh process WITHOUT them, returns the same and shows the same state after "
             "every remaining call (model side: C09_pred_refused_skippable)", not tw["differences"] and
             tw["histories_with_refused_calls_replayed_without_them"] > 0,
             {k: (v if k != "differences" else v[:2]) for k, v in tw.items()})
    stats["twin"] = {k: (v if k != "differences" else len(v)) for k, v in tw.items()}
    stats["failures"] = counted
    known = {kf.get("key") for kf in vlib.known_findings() if kf.get("property") == "C09" and kf.get("status", "open") == "open"}
    unknown = {k: v for k, v in stats["failures"].items() if k not in known}
    c.oblige("every generated history replays on the real library (ASan/UBSan/LSan, asserts on) without report, abort, "
             "exit, timeout or leak, and return class + protocol state equal the model's after every call "
             "(apart from listed known findings)", not unknown,
             {"failing_histories": len(bad), "failure_classes": stats["failures"]})
    # --- the API surface: op kinds exercised, functions reached, mapping function <-> operation
    executes, excluded = api_map()
    NEVER = {"touch": "a decoder call without effect on the protocol state, kept for the base theorems; the harness has no such call"}
    missing_kinds = sorted(k for k in executes if k not in NEVER and not stats["kinds"].get(k))
    c.oblige("every kind of call of the model (Model/ProtocolApi.lean `OpKind`, apart from `touch`) was executed in-protocol on the "
             "real library at least once", not missing_kinds, {"never_executed": missing_kinds})
    class_a = sorted(set().union(*executes.values()))
    unreached = sorted(f for f in class_a if not stats["fn_calls"].get(f))
    c.oblige("every exported function the model claims to execute (class (a) of C09_api_total) was really called by the harness "
             "(counting wrappers generated from the current headers) at least once", not unreached, {"never_called": unreached})
    stray = sorted(f for f in stats["fn_calls"] if f in excluded)
    c.oblige("no function of the exclusion list (class (b)) is called directly by the harness", not stray, {"called": stray})
    not_reached_by_kind = {k: sorted(executes[k] - stats["kind_fns"].get(k, set())) for k in executes
                           if k not in NEVER and executes[k] - stats["kind_fns"].get(k, set())}
    # (the converse inclusion - every executed call reached only functions `executes` lists for its kind - is checked per
    # call in `compare`; which listed functions a kind did not reach in THIS run depends on the data, e.g. a lattice node
    # with two exits, and is reported, not demanded)
    c.oblige("every cleanly replayed history ends, after its closing calls, with the empty ledger (no decoder reference, iterator, "
             "lattice / alignment / configuration / sub-object / transform reference or owned string held, on model and implementation "
             "alike; LeakSanitizer then sees what is still allocated)", not stats.get("closed_nonempty"),
             {"histories_closed": stats.get("closed_total", 0), "with_empty_ledger": stats.get("closed_empty", 0),
              "nonempty": stats.get("closed_nonempty", [])[:3]})
    fam = stats.get("families", {})
    c.oblige("between-utterances family (also in corpus/C09/reinit-feat-then-refused-alignment.ops): at least one alignment request "
             "was REFUSED after decoder_reinit_feat (the ended utterance is longer than the fresh feature buffer, acmod_rewind "
             "fails after the aligner took the alignment) and further calls on that decoder followed and replayed cleanly",
             fam.get("of_which_followed_by_more_calls_on_that_decoder", 0) > 0, {k: v for k, v in fam.items() if k.startswith("align")
                                                                                 or k.startswith("of_which") or k.startswith("fresh")})
    c.oblige("block-crossing family (also in corpus/C09/history-table-crosses-block.ops): at least one utterance filled more than "
             "one block of the search history table (blkarray_list, block size read from src/blkarray_list.c) and the table was then "
             "reset by the next utterance AND by the last release, and the process ended without a leak report",
             fam.get("reset_of_a_multi_block_history_by", {}).get("start", 0) > 0
             and fam.get("reset_of_a_multi_block_history_by", {}).get("free", 0) > 0,
             {k: v for k, v in fam.items() if "history" in k})
    c.cov.update({"between_utterances_and_block_crossing_families": fam})
    nx = stats.get("next_calls", {})
    c.oblige("the outcome of every seg_iter_next / alignment_iter_next / ps_latnode_iter_next / ps_latlink_iter_next call executed "
             "in-protocol was PREDICTED by the model from the element count observed once when the iterator was created "
             "(Model/ProtocolPred.lean `predLast`; only hyp_iter_next is still echoed), and each family ran off its end at least once",
             all(nx.get(k, {}).get("echoed", 1) == 0 and nx.get(k, {}).get("of_which_NULL", 0) > 0
                 for k in NEXT_KINDS if k != "hypNext"), nx)
    c.cov.update({"iterator_next_calls_predicted_vs_echoed": nx})
    c.cov.update({"error_recovery_twin_runs": stats.get("twin", {})})
    arm = stats.get("addword_refusal_x_next_call", {})
    c.cov.update({"addword_refusal_kind_x_next_call_on_that_decoder": arm})
    c.oblige("add-word refusal family (also corpus/C09/addword-refused-then-grammar-using-the-word.ops): every refusal kind of decoder_add_word "
             "(duplicate word, duplicate alternate, alternate without base, unknown phone, empty word, empty pronunciation) was followed DIRECTLY "
             "by a grammar / FSG / alignment text that uses the words involved, at least once, on a cleanly replayed history",
             all(arm.get(k, {}).get("grammar-load:uses-word", 0) > 0 for k in ("duplicate-word", "duplicate-alternate", "alternate-without-base",
                                                                               "unknown-phone", "empty-word", "empty-pronunciation")),
             {k: v.get("grammar-load:uses-word", 0) for k, v in arm.items()})
    nontrivial = sum(1 for h in hs if any(l.startswith("proc") for l in h))
    c.cov.update({"evaluations": n + ncorp, "distinct_nontrivial": len(distinct),
                  "rule": "random call histories (6-%d calls) over one decoder; distinct = distinct call lists; every history "
                          "creates a decoder and ends with the last release" % maxcalls,
                  "histories_with_audio": nontrivial, "calls_executed": stats["calls_executed"],
                  "calls_skipped_empty_handle": stats["skipped_calls"], "profiles": stats["profiles"],
                  "generated_call_mix": stats["calls"], "audio_blocks_by_clip": stats["blocks"],
                  "model_classification_of_executed_calls": stats["classes"],
                  "listed_out_of_order_calls_executed": stats["ooo"],
                  "return_classes_observed": stats["returns"], "failure_classes": stats["failures"],
                  "histories_on_passthrough_pool_flavour": stats.get("histories_on_passthrough_pool", 0),
                  "generated_histories_cut_before_an_out_of_protocol_call": stats.get("generator_artefacts_truncated", 0),
                  "out_of_protocol_generator_artefacts_by_call": stats.get("generator_artefact_calls", {}),
                  "generated_histories_dropped_as_generator_artefacts": stats.get("generator_artefacts_dropped", 0),
                  "failing_histories": len(bad), "corpus_cases": ncorp,
                  "op_kind_mix_executed_in_protocol": dict(sorted(stats["kinds"].items())),
                  "return_class_by_op_kind_as_predicted_by_the_model": dict(sorted(stats["kind_returns"].items())),
                  "api_functions_class_a": len(class_a), "api_functions_class_b_excluded": excluded,
                  "api_function_call_counts": dict(sorted(stats["fn_calls"].items())),
                  "op_kinds_never_generated_by_design": NEVER,
                  "functions_listed_for_a_kind_but_not_reached_by_it_in_this_run": not_reached_by_kind})


def replay(c, path):
    c.lean_obligations()
    binp = pin_harness(c.scratch)
    pin_driver(c.scratch)
    prepare_scratch(c.scratch)
    obj = json.loads(open(path).read())
    stats = new_stats()
    if "blk_ops" in obj:
        import shutil
        dst = os.path.join(str(c.scratch), "h_c09blk")
        shutil.copy2(str(vlib.build_harness("h_c09blk")), dst)
        rc, lines, err, mlines = run_blk(dst, obj["blk_ops"])
        f = blk_failure(rc, lines, err, mlines, len(obj["blk_ops"]))
        c.oblige("blkarray_list op sequence replays like the model, without report (replay)", f is None, f)
        if f is not None:
            c.violation(dict(obj, failure=f[0], detail=f[2], implementation_violates_property=f[1]), f[1],
                        finding_key=("blkarray:" + f[0]) if f[1] else None)
        c.cov.update({"evaluations": 1, "distinct_nontrivial": 1})
        return
    if judge(c, binp, obj["ops"], "replay", stats, shrink=False):
        # the error-recovery comparison of `check`: the history against its twin without the refused calls
        rc, tr, err = run_history(binp, obj["ops"])
        div, classes = compare(tr)
        res = twin_check(binp, obj["ops"], tr, classes) if not div else None
        if res is not None and res[1] is not None:
            c.oblige("error recovery: the history behaves like its twin without the refused calls (replay)", False, res[1])
            c.violation({"kind": "API call history and its twin without the refused calls", "ops": obj["ops"],
                         "twin_difference": res[1], "implementation_violates_property": res[2]}, res[2], tag="twin")
    c.cov.update({"evaluations": 1, "distinct_nontrivial": 1})
