"""C14, decimal rendering: ties `Model/Fmt3.lean` (`fmtBits`, `lenBits`) and the instantiated model of
`decoder_result_json` (`Model/JsonFmt3.lean`, driver sub-command `c14f`) to the real code.

* `pattern_tie`: thousands of 64-bit patterns (structured: thousandth boundaries +- ulps, exact halves odd/16, powers of
  ten, every binary exponent, denormals, zeros, infinities, NaNs, every value that occurred in a real result) are
  rendered by the C library (`snprintf(NULL, 0, "%.3f")`, `snprintf(buf, ...)` in harness/h_c14.c, op `fmt`) and by the
  Lean definitions; count and text must be equal.
* `line_compare`: for every line `decoder_result_json` returned, the model instantiated with `fmt3` is run on the
  iterator records and on the doubles the C expressions of `format_hyp/format_seg/format_align_iter` yield
  (start, start + (double)f / frate, (double)n / frate, logmath_exp(logp)); for T/R the Lean IEEE model recomputes the
  double from the integers and the start offset (driver field `arith`).  The line must be byte-identical.
Imported by tools/props/c14.py.
"""
import decimal, math, re, struct, time
import vlib

MASK = (1 << 64) - 1
NUMTEXT = re.compile(r"-?[0-9]+\.[0-9]+\Z")


def d2b(x):
    return struct.unpack(">Q", struct.pack(">d", x))[0]


def b2d(b):
    return struct.unpack(">d", struct.pack(">Q", b & MASK))[0]


def hx16(b):
    return "%016x" % (b & MASK)


def ulps(x, k):
    """the double k ulps away from finite x (bit-pattern neighbours, crossing zero correctly)"""
    for _ in range(abs(k)):
        x = math.nextafter(x, math.inf if k > 0 else -math.inf)
    return x


def gen_patterns(rng, tier, seen_bits=()):
    """-> (list of patterns, {class: count})"""
    pats, classes = [], {}

    def add(cls, b):
        pats.append(b & MASK)
        classes[cls] = classes.get(cls, 0) + 1

    for b in (0, 1 << 63, 1, (1 << 63) | 1, (1 << 52) - 1, 1 << 52, 0x7fefffffffffffff, 0xffefffffffffffff,
              0x7ff0000000000000, 0xfff0000000000000, 0x7ff8000000000000, 0xfff8000000000000, 0x7ff0000000000001,
              0xfff7ffffffffffff, 0x7ff4000000000000, 0x7fffffffffffffff, 0xffffffffffffffff):
        add("special (zeros, min/max, inf, nan)", b)
    for x in (1e300, -1e300, 1.7e308, 1e22, 1e23, 5e-324, 2.2250738585072014e-308, 0.0005, -0.0005, 0.00049999999999999994,
              0.9995, 999.9995, 9.9995, 99999.9995, 0.5, 1.5, 2.5, -2.5, 0.125, 0.375, 0.0625, 0.1875, -0.0625, 1e15, 1e15 + 0.125,
              4503599627370496.0, 4503599627370495.5, 9007199254740992.0, 0.001, 0.002, 0.003, -0.0001, -0.00049, -0.00051):
        add("hand-picked", d2b(x))
    n = 260 if tier == "quick" else 6000
    # thousandth boundaries: (k + 1/2)/1000 and k/1000, exact neighbours
    for i in range(n):
        mag = rng.choice([10, 1000, 10 ** 5, 10 ** 7, 10 ** 9, 10 ** 12, 10 ** 15])
        k = rng.below(mag)
        x = (2 * k + 1) / 2000.0 if rng.chance(0.7) else k / 1000.0
        if rng.chance(0.3):
            x = -x
        for u in (-2, -1, 0, 1, 2):
            add("thousandth boundary +- ulps", d2b(ulps(x, u)))
    # exact halves of a thousandth: odd/16 (1000*x = 62.5*odd), and /8, /4, /2 (exact multiples: no rounding)
    for i in range(n):
        odd = 2 * rng.below(1 << rng.choice([3, 8, 16, 30, 44])) + 1
        x = odd / rng.choice([16.0, 16.0, 16.0, 8.0, 2.0, 32.0, 64.0, 1024.0])
        add("dyadic halves (odd/16 and neighbours)", d2b(-x if rng.chance(0.3) else x))
        add("dyadic halves (odd/16 and neighbours)", d2b(ulps(x, rng.choice([-1, 1]))))
    # powers of ten and the last value below them that still rounds down
    for k in range(-6, 309):
        x = float("1e%d" % k)
        for u in (-1, 0, 1):
            add("powers of ten +- ulp", d2b(ulps(x, u)))
        if k <= 15:
            y = x - 0.0005
            for u in (-2, -1, 0, 1, 2):
                add("10^k - 0.0005 +- ulps (digit-count change)", d2b(ulps(y, u)))
    # every binary exponent (incl. denormals) with random mantissa and sign
    step = 8 if tier == "quick" else 1
    for ex in range(0, 2047, step):
        e = (ex + rng.below(step)) % 2047
        add("every exponent, random mantissa", (rng.below(2) << 63) | (e << 52) | rng.below(1 << 52))
    for i in range(n // 2):
        add("uniform 64-bit", rng.below(1 << 64))
        add("denormal", (rng.below(2) << 63) | rng.below(1 << rng.range(1, 52)))
        # the range real results live in: |x| < 1e7 with few significant bits or full mantissas
        add("result-like magnitudes", d2b((rng.below(2 * 10 ** 9) - 10 ** 9) / rng.choice([1, 3, 7, 50, 100, 125, 1000, 16000])))
        add("probabilities (0, 1]", d2b(math.exp(-rng.below(200000) / 10000.0)))
    for b in seen_bits:
        add("values that occurred in real results", b)
    return pats, classes


def run_driver(text):
    for attempt in range(6):
        try:
            return vlib.run_driver("c14f", text)
        except OSError as e:       # the driver binary is being relinked by a concurrent `lake build`
            rc, out, err = -1, "", repr(e)
            time.sleep(3)
    return rc, out, err


def pattern_tie(binp, pats, run_bin):
    """-> (mismatches, number compared); each mismatch is a dict with the bit pattern"""
    pats = list(dict.fromkeys(pats))
    if not pats:
        return [], 0
    rc, out, err = run_bin(binp, {"kind": "fmt", "ops": [f"fmt {hx16(b)}" for b in pats]})
    cl = [l for l in out.split("\n") if l.startswith("fmt ")]
    if rc != 0 or len(cl) != len(pats):
        return [{"what": f"harness answered {len(cl)} lines for {len(pats)} fmt ops (rc={rc})", "stderr": err[-400:]}], 0
    rc, mout, merr = run_driver("\n".join(f"f {hx16(b)}" for b in pats) + "\n")
    ml = [l for l in mout.split("\n") if l.startswith("f ")]
    if rc != 0 or len(ml) != len(pats):
        return [{"what": f"model driver answered {len(ml)} lines for {len(pats)} patterns (rc={rc})", "detail": merr[-400:]}], 0
    bad = []
    for b, c, m in zip(pats, cl, ml):
        ck = dict(x.split("=", 1) for x in c.split()[1:])
        mk = dict(x.split("=", 1) for x in m.split()[1:])
        probs = []
        if ck["n0"] != ck["n"]:
            probs.append(f"snprintf(NULL,0) returned {ck['n0']}, snprintf(buf) {ck['n']}")
        if ck["n0"] != mk["len"]:
            probs.append(f"dry-run count: libc {ck['n0']}, lenBits {mk['len']}")
        if ck["text"] != mk["text"]:
            probs.append(f"text: libc {bytes.fromhex(ck['text']).decode('latin-1')[:60]!r}, fmtBits "
                         f"{bytes.fromhex(mk['text']).decode('latin-1')[:60]!r}")
        if probs:
            bad.append({"bits": hx16(b), "value": repr(b2d(b)), "what": "; ".join(probs)})
    return bad, len(pats)


def gen_arith(rng, tier, pats):
    """(start bits, f, frate) triples for the IEEE model: structured starts x int frames x frame rates"""
    n = 1500 if tier == "quick" else 40000
    finite = [b for b in pats if (b >> 52) & 0x7ff != 0x7ff]
    nonfin = [b for b in pats if (b >> 52) & 0x7ff == 0x7ff]
    out = []
    # the corners the finiteness / exactness proofs turn on: DBL_MAX +- the largest quotient (no overflow), the
    # overflow threshold of the division itself, signed zeros, denormal sums, exact cancellation
    DMAX, DMIN, I31 = 0x7fefffffffffffff, 0xffefffffffffffff, 2 ** 31
    for s, f, fr in [(DMAX, I31 - 1, 1), (DMAX, -I31, 1), (DMIN, -I31, 1), (DMIN, I31 - 1, 1), (DMAX, 1, 32767),
                     (0, I31 - 1, 1), (0, -I31, 1), (0, 0, 1), (1 << 63, 0, 1), (1 << 63, 0, -1), (0, 0, -1), (1, 1, I31 - 1),
                     (1, -1, I31 - 1), (d2b(-0.01), 1, 100), (d2b(-2.79), 279, 100), (d2b(2.0 ** 52), 1, 3), (d2b(2.0 ** 53), 1, 1),
                     (d2b(2.0 ** 53), 3, 2), (d2b(0.5), 1, 2), (d2b(-0.5), 1, 2), (0, 1, 0), (0, -1, 0), (0, 0, 0),
                     (0x7ff0000000000000, 1, 1), (0xfff0000000000000, 1, 0), (0x7ff0000000000000, -1, 0), (0x7ff8000000000000, 5, 100),
                     (0xfff8000000000001, 5, 100), (0x7ff0000000000001, 5, 100), ((1 << 52) - 1, 1, I31 - 1), (1 << 52, -1, I31 - 1)]:
        out.append((s, f, fr))
    for i in range(n):
        s = rng.choice(finite) if rng.chance(0.9) or not nonfin else rng.choice(nonfin)
        if rng.chance(0.3):
            s = rng.choice([0, 1 << 63, d2b(1.25), d2b(0.5), d2b(1234.5678), d2b(-3.25), d2b(1e15), d2b(31536000.0)])
        f = rng.choice([0, 1, -1, 2 ** 31 - 1, -2 ** 31, rng.below(1000), rng.below(100000), rng.below(1 << 31),
                        -rng.below(1 << 31), rng.below(30000)])
        fr = rng.choice([1, 3, 7, 50, 100, 125, 1000, 16000, 32767, 100, 100, rng.range(1, 32767), rng.range(1, 200),
                         2 ** 31 - 1, -100, -rng.range(1, 40000), 0])
        if fr == 0 and f == 0 and (s >> 52) & 0x7ff == 0x7ff and s & ((1 << 52) - 1):
            continue        # NaN + NaN: which payload/sign survives depends on the operand order the compiler chose
        out.append((s, f, fr))
    return out


def arith_tie(binp, triples, run_bin):
    if not triples:
        return [], 0
    rc, out, err = run_bin(binp, {"kind": "arith", "ops": [f"arith {hx16(s)} {f} {fr}" for s, f, fr in triples]})
    cl = [l for l in out.split("\n") if l.startswith("arith ")]
    if rc != 0 or len(cl) != len(triples):
        return [{"what": f"harness answered {len(cl)} lines for {len(triples)} arith ops (rc={rc})", "stderr": err[-400:]}], 0
    rc, mout, merr = run_driver("\n".join(f"a {hx16(s)} {f} {fr}" for s, f, fr in triples) + "\n")
    ml = [l for l in mout.split("\n") if l.startswith("a ")]
    if rc != 0 or len(ml) != len(triples):
        return [{"what": f"model driver answered {len(ml)} lines for {len(triples)} triples (rc={rc})", "detail": merr[-400:]}], 0
    bad = []
    for (s, f, fr), c, m in zip(triples, cl, ml):
        if c.split()[1:] != m.split()[1:]:
            bad.append({"start_bits": hx16(s), "start": repr(b2d(s)), "f": f, "frate": fr, "machine": c, "model": m,
                        "what": f"start + (double){f} / {fr}: machine {c}, Model/Dbl {m}"})
    return bad, len(triples)


def parse_bits(line):
    """the ` B key=bits ...` tail of a dump line -> {key: int}"""
    i = line.find(" end B")
    if i < 0:
        return None
    out = {}
    for t in line[i + 6:].split():
        k, v = t.rsplit("=", 1)
        out[k] = int(v, 16)
    return out


def line_compare(cases, driver_line, unhex):
    """C line vs the line of the model instantiated with fmt3 on the dumped doubles; -> (divergences, n, stats)"""
    cases = [(d, t) for d, t in cases if getattr(d, "bits", None) is not None]
    stats = {"fmt3_line_comparisons": 0, "fmt3_numbers_in_lines": 0, "fmt3_calls_with_nonfinite_argument": 0,
             "fmt3_calls_argok_false": 0}
    if not cases:
        return [], 0, stats
    # conclusions of C14_duration_field_exact / C14_begin_field_exact_zero_start evaluated on the C text by integer
    # arithmetic alone: a whole number of milliseconds must be printed as exactly that decimal
    exact_bad = []
    for d, table in cases:
        if d.ret != "ok":
            continue
        for key, text in table.items():
            parts = key.split(":")
            if parts[0] == "R" or (parts[0] == "T" and d.bits.get("S") == 0):
                n, fr = int(parts[1]), int(parts[2])
                if n >= 0 and fr >= 1 and (1000 * n) % fr == 0:
                    k = 1000 * n // fr
                    stats["exact_millisecond_fields_checked"] = stats.get("exact_millisecond_fields_checked", 0) + 1
                    if text != "%d.%03d" % (k // 1000, k % 1000):
                        exact_bad.append({"what": f"{n}/{fr} s is exactly {k} ms but the line says {text} ({key})",
                                          "call": f"json start={d.start!r} level={d.level} frate={d.frate}"})
    # conclusion of C14_begin_fields_monotone evaluated on the C text: within one line (one start offset, one frame
    # rate) the printed begin decimals are non-decreasing in the frame number (frames >= 0)
    for d, table in cases:
        if d.ret != "ok":
            continue
        ts = sorted((int(k.split(":")[1]), decimal.Decimal(v)) for k, v in table.items()
                    if k.startswith("T:") and int(k.split(":")[1]) >= 0 and int(k.split(":")[2]) >= 1
                    and NUMTEXT.match(v))
        for (fa, ta), (fb, tb) in zip(ts, ts[1:]):
            stats["monotone_begin_pairs_checked"] = stats.get("monotone_begin_pairs_checked", 0) + 1
            if ta > tb:
                exact_bad.append({"what": f"begin field goes backwards: frame {fa} prints {ta}, frame {fb} prints {tb}",
                                  "call": f"json start={d.start!r} level={d.level} frate={d.frate}"})
    lines = []
    for d, _ in cases:
        table = {k: struct.pack(">Q", v).decode("latin-1") for k, v in d.bits.items()}
        lines.append(driver_line(d, table))
    rc, out, err = run_driver("\n".join(lines) + "\n")
    if rc != 0:
        return [{"what": "model driver c14f failed", "detail": err[-500:]}], 0, stats
    outs = out.rstrip("\n").split("\n")
    if len(outs) != len(cases):
        return [{"what": f"model driver c14f answered {len(outs)} lines for {len(cases)} cases"}], 0, stats
    div = exact_bad[:3]
    for (d, _), o in zip(cases, outs):
        kv = dict(x.split("=", 1) for x in o.split()[1:]) if o.startswith("model ") else None
        if kv is None:
            div.append({"what": "model driver c14f: " + o[:100]})
            continue
        stats["fmt3_line_comparisons"] += 1
        stats["fmt3_numbers_in_lines"] += len(d.bits)
        probs = []
        if kv["fin"] != "1" and d.ret == "ok":
            stats["fmt3_calls_with_nonfinite_argument"] += 1
        if kv.get("argok") != "1" and d.ret == "ok":
            stats["fmt3_calls_argok_false"] += 1
        if kv.get("arith", "1") != "1":
            probs.append("a double the C expressions yield (start + (double)f/frate, (double)n/frate) is not what the Lean "
                         "IEEE model computes: " + kv.get("arithbad", ""))
        if kv["ret"] != d.ret:
            probs.append(f"implementation returned {d.ret}, fmt3 model {kv['ret']}")
        elif d.ret == "ok":
            if int(kv["alloc"]) != d.alloc:
                probs.append(f"implementation allocated {d.alloc}, fmt3 model {kv['alloc']}")
            if unhex(kv["text"]) != d.text:
                probs.append("a number in the implementation's line is not %.3f (fmt3) of the double the interfaces give")
            if kv["ok"] != "1" or kv["dry"] != "1":
                probs.append("the fmt3 model raised a flag (store outside the block / assert)")
            if kv["fin"] == "1" and (kv["cvalid"] != "1" or kv["mvalid"] != "1"):
                probs.append("all arguments finite but the Lean recogniser rejects the line")
            elif kv["fin"] == "1" and kv["ctree"] != "1":
                probs.append("the implementation's line denotes a different tree than the iterator records rendered by fmt3")
        if probs:
            div.append({"what": "; ".join(probs), "call": f"json start={d.start!r} level={d.level} frate={d.frate}",
                        "implementation": None if d.text is None else d.text.decode("latin-1")[:1500],
                        "model": None if kv.get("text") in (None, "null") else unhex(kv["text"]).decode("latin-1")[:1500]})
    return div, len(cases), stats
