"""C17 — damaged acoustic-model files are rejected without memory errors.

Lean: SSVerif/Props/C17.lean (the byte reader of s3file.c and the read plans of tmat / gauden /
lda / sendump never read outside the file nor index past an allocation, for every file; each plan
rejects or completes with its dimension equalities true).

Tie + oracle = fault enumeration on the real code (harness/h_c17.c, ASan+UBSan+LSan, asserts on):
  stage A (`s3`):  byte strings (synthetic files of every format incl. byte-swapped / old-format /
     checksummed variants, and the bundled files with an edit list) are fed to the real reader and
     loaders through `s3file_init` over an exact-size heap block, and to the model's own definitions
     (`ssdriver c17`); outputs are diffed.  Every truncation length of every synthetic file, every
     count field x {0,1,x-1,x+1,0x7fffffff,0x80000000,0xffffffff,bswap(x)}, magic and checksum
     corruption, header-text corruption, random reader scripts.
  stage B (`dec`): a copy of a bundled model directory with one damaged file is loaded by
     `decoder_init` (mmap path) and by the in-memory sequence of js/api.js (`mem`), one forked child
     per fault; then the intact model is loaded in the same process.  exit()/abort/signal/sanitizer
     report/leak/timeout, an accepted damaged model that the plan model rejects, or a failing intact
     load afterwards = violation with (model, path, file, edits) as replay.
"""
import json, os, re, shutil, struct, time
from concurrent.futures import ThreadPoolExecutor
import vlib

MAGIC = 0x11223344
# allocation entry points of ckd_alloc.c intercepted by the harness (ledger tie)
WRAP_FLAGS = ["-Wl," + ",".join("--wrap=" + f for f in (
    "__ckd_calloc__", "__ckd_malloc__", "__ckd_realloc__", "__ckd_salloc__", "__ckd_calloc_2d__", "__ckd_calloc_3d__",
    "__ckd_calloc_4d__", "__ckd_alloc_3d_ptr", "__ckd_alloc_2d_ptr", "ckd_free", "ckd_free_2d", "ckd_free_3d", "ckd_free_4d"))]
# mapping ledger of mmio.c: every munmap must release exactly the pages of a live mapping (harness/h_c17.c)
WRAP_FLAGS = WRAP_FLAGS + ["-Wl,--wrap=mmap,--wrap=munmap"]
# documented configuration flags that reach a model-file reader or the assembly of the acoustic model
# (include/soundswallower/config_defs.h): the fault enumeration is crossed with them (stage B), and the one flag that
# is an argument of a reader (`cionly` of bin_mdef_read_s3file) also at reader level (stage A, target `mdefc`)
CONFIGS = ["cionly=yes", "topn=2", "ds=2", "compallsen=yes", "mmap=no", "cionly=yes,topn=1,ds=3", "topn=1,compallsen=yes",
           "cionly=yes,mmap=no"]
PAGE = 4096
VALS = lambda x: sorted({0, 1, (x + 1) & 0xffffffff, (x - 1) & 0xffffffff, 0x7fffffff, 0x80000000, 0xffffffff,
                         bswap(x)} - {x})


def bswap(x):
    return struct.unpack("<I", struct.pack(">I", x & 0xffffffff))[0]


def f2u(x):
    return struct.unpack("<I", struct.pack("<f", x))[0]


# ----------------------------------------------------------------------------------------------
# synthetic files (generator side, untrusted: only builds inputs)

class Syn:
    """a synthetic file: bytes, offsets of its 32-bit count fields, end of the header region"""

    def __init__(self, swap=False):
        self.b = bytearray()
        self.fields = {}
        self.swap = swap
        self.words = []          # (element size, value) covered by the checksum

    def text(self, t):
        self.b += t

    def u32(self, v, name=None, summed=True):
        if name:
            self.fields[name] = len(self.b)
        self.b += struct.pack(">I" if self.swap else "<I", v & 0xffffffff)
        if summed:
            self.words.append((4, v & 0xffffffff))

    def elem(self, k, v):
        self.b += (v & (256 ** k - 1)).to_bytes(k, "big" if self.swap else "little")
        self.words.append((k, v & (256 ** k - 1)))

    def chksum(self):
        s = 0
        for k, w in self.words:
            r = {1: 5, 2: 10, 4: 20}[k]
            s = ((((s << r) & 0xffffffff) | (s >> (32 - r))) + w) & 0xffffffff
        return s


def s3_header(rng, swap, chk, style):
    s = Syn(swap)
    if style == "old":
        s.text(b"v0.1 old format\n" + (b"some comment\n" if rng.chance(0.5) else b"") + b"*end_comment*\n")
        chk = False
    else:
        s.text(b"s3\n")
        if style == "rich":
            s.text(b"# a comment line\n  version   1.0  trailing words\n\tkey\tvalue\n")
        else:
            s.text(b"version 1.0\n")
        if chk:
            s.text(b"chksum0 yes\n")
        s.text(b"   endhdr\n" if style == "rich" else b"endhdr\n")
    s.fields["magic"] = len(s.b)
    s.b += struct.pack(">I" if swap else "<I", MAGIC)
    s.chk = chk
    s.hdr_text_end = s.fields["magic"]
    return s


def syn_finish(s):
    s.hdr_end = len(s.b) if not hasattr(s, "hdr_end") else s.hdr_end
    if s.chk:
        s.u32(s.chksum(), "chksum", summed=False)
    return s


def syn_tmat(rng, swap=False, chk=True, style="plain", topo=None):
    """topo: None = left-to-right/Bakis matrices; "lower" = one backward transition (not upper triangular),
    "skip" = one transition that skips two states (not Bakis) — rejected by the topology checks only"""
    s = s3_header(rng, swap, chk, style)
    nt, ns = rng.range(1, 3), rng.range(1, 3)
    if topo == "lower":
        ns = rng.range(2, 3)
    if topo == "skip":
        ns = 3
    bad_t = rng.below(nt) if topo else -1
    nd = ns + 1
    s.u32(nt, "n_tmat"); s.u32(ns, "n_src"); s.u32(nd, "n_dst"); s.u32(nt * ns * nd, "n")
    s.hdr_end = len(s.b)
    for _ in range(nt):
        for j in range(ns):
            for k in range(nd):
                bad = _ == bad_t and ((topo == "lower" and (j, k) == (ns - 1, 0)) or (topo == "skip" and (j, k) == (0, 3)))
                s.u32(f2u(0.5 if k in (j, j + 1) or bad else 0.0))
    return syn_finish(s), ("tmat",)


def syn_gau(rng, swap=False, chk=True, style="plain", var=False, dims=None):
    s = s3_header(rng, swap, chk, style)
    if dims is None:
        dims = (rng.range(1, 3), rng.range(1, 3), rng.range(1, 3))
        dims = dims + ([rng.range(1, 4) for _ in range(dims[1])],)
    nm, nf, dn, vl = dims
    s.u32(nm, "n_mgau"); s.u32(nf, "n_feat"); s.u32(dn, "n_density")
    for i, v in enumerate(vl):
        s.u32(v, f"veclen{i}")
    n = nm * dn * sum(vl)
    s.u32(n, "n")
    s.hdr_end = len(s.b)
    for i in range(n):
        s.u32(f2u(1.0 + (i % 3) if var else float(i % 5) - 2.0))
    s.dims = dims
    return syn_finish(s), ("gau",)


def syn_lda(rng, swap=False, chk=True, style="plain"):
    s = s3_header(rng, swap, chk, style)
    nl, rows, cols = 1, rng.range(1, 4), 3 * rng.range(1, 2)
    s.u32(nl, "n_lda"); s.u32(rows, "rows"); s.u32(cols, "cols"); s.u32(nl * rows * cols, "n")
    s.hdr_end = len(s.b)
    for i in range(nl * rows * cols):
        s.u32(f2u(0.25 * i))
    s.stream_len = cols
    return syn_finish(s), ("lda", cols)


def syn_mixw(rng, swap=False, chk=True, style="plain"):
    s = s3_header(rng, swap, chk, style)
    ns, nf, nc = rng.range(1, 3), rng.range(1, 2), rng.range(1, 3)
    s.u32(ns, "n_sen"); s.u32(nf, "n_feat"); s.u32(nc, "n_comp"); s.u32(ns * nf * nc, "n")
    s.hdr_end = len(s.b)
    for i in range(ns * nf * nc):
        s.u32(f2u(0.1 + 0.2 * (i % 4)))
    return syn_finish(s), ("mixw", nf, nc)


def syn_sendump(rng, swap=False, clust=0, bits=8, pad=0):
    s = Syn(swap)
    s.chk = False
    nf, dn, ns = rng.range(1, 2), rng.range(1, 3), rng.range(2, 5)
    title = b"synthetic dump\0"
    s.u32(len(title), "title_len"); s.text(title)
    hdr = b"format description\0"
    s.u32(len(hdr), "hdr_len"); s.text(hdr)
    strs = [b"a comment string\0", b"feature_count %d\0" % nf, b"mixture_count %d\0" % dn, b"model_count %d\0" % ns]
    if clust:
        strs += [b"cluster_count %d\0" % clust, b"cluster_bits %d\0" % bits]
    strs.append(b"!!!")
    for i, t in enumerate(strs):
        s.u32(len(t), f"str{i}_len"); s.text(t)
    s.u32(0, "str_end")
    c = ns + pad
    if not clust:
        s.u32(dn, "rows"); s.u32(c, "cols")
    s.hdr_end = len(s.b)
    if clust:
        s.text(bytes(range(16)))
    step = (c + 1) // 2 if bits == 4 else c
    s.text(bytes((i * 7) & 255 for i in range(nf * dn * step)))
    s.hdr_text_end = 0
    return s, ("sd", nf, dn, ns)


def syn_array(rng, kind, swap=False, chk=True, style="plain"):
    """a file holding one 1-d/2-d/3-d array, read by the reader script"""
    s = s3_header(rng, swap, chk, style)
    k = rng.choice([4, 4, 2, 1]) if kind == "1d" else 4
    d = [rng.range(1, 3) for _ in range({"1d": 1, "2d": 2, "3d": 3}[kind])]
    n = 1
    for x in d:
        n *= x
    if kind != "1d":
        for i, x in enumerate(d):
            s.u32(x, f"d{i + 1}")
    s.u32(n, "n")
    s.hdr_end = len(s.b)
    for i in range(n):
        s.elem(k, i * 37 + 5)
    return syn_finish(s), ("rd", f"H,{kind}{k},V")


def syn_mdef(rng, swap=False, hetero=False, last_ci=False):
    """a small binary mdef (bin_mdef.h layout): format words, counts, names, cd_tree, phone records, sequences"""
    E = ">" if swap else "<"
    s = Syn(swap)
    s.chk = False
    s.hdr_text_end = 0
    s.text(b"FDMB" if swap else b"BMDF")
    s.fields["magic"] = 0
    # D19j: a descriptor that is not a multiple of 4 bytes (tables misaligned) must be refused
    desc = b"bin mdef" + b"\0" * (4 * rng.range(1, 2) if (last_ci or rng.chance(0.75)) else rng.range(1, 7))
    s.u32(1, "version"); s.u32(len(desc), "desc_len"); s.text(desc)
    s.valid = len(desc) % 4 == 0
    n_ci, n_cd, n_emit = rng.range(1, 4), rng.range(0, 4), rng.range(1, 3)
    n_phone = n_ci + n_cd
    lens = [rng.range(1, 3) for _ in range(n_phone)] if hetero else [n_emit] * n_phone
    if hetero:
        for i in range(n_ci, n_phone):          # a CD phone may have more states than its CI phone
            lens[i] = rng.range(1, 3)
    force_ci = {}
    order = list(range(n_phone))            # storage order of the sequences; ssid of phone i = order.index(i)
    if hetero and rng.chance(0.3):
        rng.shuffle(order)
    if last_ci and hetero:
        # the sequence of CI phone 0 is stored last and is shorter than that of a CD phone of the same base phone:
        # `j > n_emit_state_phone(ci)` lets j reach the cell behind the sequence area (the sseq_len bytes)
        if n_cd == 0:
            n_cd, n_phone = 1, n_phone + 1
            lens.append(3)
        while n_phone < 3:
            n_cd, n_phone = n_cd + 1, n_phone + 1
            lens.append(2)
        lens[0], lens[n_ci] = 1, 3
        force_ci[n_ci] = 0
        order = [i for i in range(n_phone) if i != 0] + [0]
        for k in (0, 1):                    # the two length bytes behind the sequence area differ (byte order visible)
            if order[k] not in (0, n_ci):
                lens[order[k]] = 1 + k
    seqs, sen = [None] * n_phone, 0
    for i in range(n_phone):
        seqs[i] = list(range(sen, sen + lens[i])); sen += lens[i]
    n_tree = rng.range(0, 3)
    names = sorted(rng.choice([b"A", b"AA", b"B", b"SIL", b"SI", b"SILX", b"T", b"Z", b"+NSN+"]) + bytes([65 + i]) * (i > 0)
                   for i in range(n_ci))
    if rng.chance(0.6):
        names[rng.below(n_ci)] = b"SIL"
        names.sort()
    for nm, v in (("n_ciphone", n_ci), ("n_phone", n_phone), ("n_emit_state", 0 if hetero else n_emit),
                  ("n_ci_sen", sum(lens[:n_ci])), ("n_sen", sen), ("n_tmat", n_ci), ("n_sseq", n_phone), ("n_ctx", 3),
                  ("n_cd_tree", n_tree), ("sil", 0)):
        s.u32(v, nm)
    data0 = len(s.b)
    for nm in names:
        s.text(nm + b"\0")
    while (len(s.b) - data0) % 4:
        s.text(b"\0")
    s.hdr_end = len(s.b)
    for i in range(n_tree):
        s.text(struct.pack(E + "hhi", i, 1, i + 1))
    s.regions = {"phone": len(s.b)}
    for i in range(n_phone):
        ci = i if i < n_ci else force_ci.get(i, rng.below(n_ci))
        s.text(struct.pack(E + "ii", order.index(i), ci))
        s.text(bytes([1, 0, 0, 0]) if i < n_ci else bytes([i % 4, ci, rng.below(n_ci), rng.below(n_ci)]))
    s.u32(sum(lens), "sseq_size")
    s.regions["sseq"] = len(s.b)
    for i in order:
        for v in seqs[i]:
            s.text(struct.pack(E + "H", v))
    if hetero:
        s.text(bytes(lens[i] for i in order))
    return s, ("mdef",)


def syn_am(rng, stats, force_kind=None, force_sd=None):
    """a consistent set mdef / tmat / means / variances / sendump|mixw for a 39-dim front end, with (mostly) one
    cross-file mismatch: returns [(label, line-words-after-id)]"""
    three = rng.chance(0.5)
    streams = [13, 13, 13] if three else [39]
    md, _ = syn_mdef(rng, False, rng.chance(0.2))
    b = bytes(md.b)
    n_ci = struct.unpack_from("<i", b, md.fields["n_ciphone"])[0]
    n_sen = struct.unpack_from("<i", b, md.fields["n_sen"])[0]
    kind = rng.weighted([("ok", 3), ("mixw_sen+", 3), ("mixw_sen-", 3), ("n_mgau", 2), ("one_cb", 3), ("veclen", 2),
                         ("nfeat", 1), ("dens", 2), ("ntmat", 2), ("sen_dump", 2), ("cont", 1)])
    kind = force_kind or kind
    n_mgau = n_ci
    if kind == "n_mgau":
        n_mgau = n_ci + rng.choice([1, 2])
    if kind == "one_cb":
        n_mgau = 1
    if kind == "cont":
        n_mgau = n_sen if n_sen not in (1, n_ci) else n_sen + 1
    dens = rng.range(1, 2)
    vl = list(streams)
    if kind == "veclen":
        vl[rng.below(len(vl))] += rng.choice([1, -1])
    if kind == "nfeat":
        vl = vl + [13] if three else [13, 13, 13]
    means, _ = syn_gau(rng, False, True, "plain", dims=(n_mgau, len(vl), dens, vl))
    vars_, _ = syn_gau(rng, False, True, "plain", var=True, dims=(n_mgau, len(vl), dens, vl))
    tm = s3_header(rng, False, True, "plain")
    nt = n_ci - 1 if (kind == "ntmat" and n_ci > 1) else n_ci
    tm.u32(nt, "n_tmat"); tm.u32(3, "n_src"); tm.u32(4, "n_dst"); tm.u32(nt * 12, "n")
    for _ in range(nt):
        for j in range(3):
            for k in range(4):
                tm.u32(f2u(0.5 if k in (j, j + 1) else 0.0))
    syn_finish(tm)
    use_sd = rng.chance(0.5) if kind not in ("mixw_sen+", "mixw_sen-", "cont") else False
    if kind == "sen_dump":
        use_sd = True
    if force_sd is not None:
        use_sd = force_sd
    ms = n_sen + (1 if kind == "mixw_sen+" else -1 if (kind == "mixw_sen-" and n_sen > 1) else 0)
    mdens = dens + (1 if kind == "dens" else 0)
    if use_sd:
        x = Syn(False)
        title = b"synthetic dump\0"
        x.u32(len(title)); x.text(title)
        x.u32(4); x.text(b"hdr\0")
        for t in (b"feature_count %d\0" % len(vl), b"mixture_count %d\0" % mdens):
            x.u32(len(t)); x.text(t)
        x.u32(0)
        cols = n_sen + (-1 if kind == "sen_dump" and n_sen > 1 else 0)
        x.u32(mdens); x.u32(cols)
        x.text(bytes((i * 5) & 255 for i in range(len(vl) * mdens * cols)))
        xb = bytes(x.b)
    else:
        x = s3_header(rng, False, True, "plain")
        x.u32(ms); x.u32(len(vl)); x.u32(mdens); x.u32(ms * len(vl) * mdens)
        for i in range(ms * len(vl) * mdens):
            x.u32(f2u(0.1 + 0.2 * (i % 4)))
        xb = bytes(syn_finish(x).b)
    stats["am_kinds"][kind] = stats["am_kinds"].get(kind, 0) + 1
    out = []
    if kind == "ok":
        # the PTM loader alone on damaged weights / codebooks (ledger stages sdHead, sdRows, mxHead, gauden)
        base = ["am", "2", ",".join(str(v) for v in streams), hx(b), "-", hx(bytes(tm.b)), "-", hx(bytes(means.b)), "-", hx(bytes(vars_.b))]
        for t in sorted({rng.below(len(xb)), len(xb) - 1, len(xb) // 2, 3, 30}):
            out.append(("ptm_trunc", base + ["-", "sd" if use_sd else "mx", hx(xb), f"t{t}"]))
        out.append(("ptm_trunc", base + [f"t{rng.below(len(vars_.b))}", "sd" if use_sd else "mx", hx(xb), "-"]))
    for ct in ("1", "0", "2"):
        out.append((kind, ["am", ct, ",".join(str(v) for v in streams), hx(b), "-", hx(bytes(tm.b)), "-", hx(bytes(means.b)), "-",
                           hx(bytes(vars_.b)), "-", "sd" if use_sd else "mx", hx(xb), "-"]))
    return out


def s3_line(cid, target, hexes_edits):
    """one stage-A case line; hexes_edits = [(src, edits)] with src hex or @path"""
    kind = target[0]
    w = [cid, kind]
    for src, ed in hexes_edits:
        w += [src, ed]
    w += [str(x) for x in target[1:]]
    return " ".join(w)


def hx(b):
    return b.hex() if len(b) else "-"


# ----------------------------------------------------------------------------------------------
# layout of the bundled files (generator side)

def layout(name, b):
    if name in ("means", "variances", "transition_matrices", "feature_transform"):
        m = b.find(b"endhdr\n") + 7
        f = {"magic": m}
        if name == "transition_matrices":
            f.update({"n_tmat": m + 4, "n_src": m + 8, "n_dst": m + 12, "n": m + 16})
            he = m + 20
        elif name == "feature_transform":
            f.update({"n_lda": m + 4, "rows": m + 8, "cols": m + 12, "n": m + 16})
            he = m + 20
        else:
            nf = struct.unpack_from("<i", b, m + 8)[0]
            f.update({"n_mgau": m + 4, "n_feat": m + 8, "n_density": m + 12})
            for i in range(nf):
                f[f"veclen{i}"] = m + 16 + 4 * i
            f["n"] = m + 16 + 4 * nf
            he = m + 20 + 4 * nf
        if b.find(b"chksum0") >= 0:
            f["chksum"] = len(b) - 4
        return {"hdr_end": he, "fields": f, "bounds": [len(b) - 5, len(b) - 4, len(b) - 3, len(b) - 1], "text_end": m}
    if name == "sendump":
        o, f, k = 0, {}, 0
        n = struct.unpack_from("<i", b, o)[0]; f["title_len"] = o; o += 4 + n
        n = struct.unpack_from("<i", b, o)[0]; f["hdr_len"] = o; o += 4 + n
        clust = False
        while True:
            n = struct.unpack_from("<i", b, o)[0]
            f[f"str{k}_len"] = o
            o += 4
            if n == 0:
                break
            t = b[o:o + n]
            if t.startswith(b"cluster_count") and int(t.split()[1].rstrip(b"\0")) != 0:
                clust = True
            o += n; k += 1
        if not clust:
            f["rows"] = o; f["cols"] = o + 4; o += 8
        return {"hdr_end": o, "fields": f, "bounds": [len(b) - 2, len(b) - 1], "text_end": 0}
    if name == "mdef":
        f = {"magic": 0, "version": 4, "desc_len": 8}
        o = 12 + struct.unpack_from("<i", b, 8)[0]
        vals = {}
        for nm in ["n_ciphone", "n_phone", "n_emit_state", "n_ci_sen", "n_sen", "n_tmat", "n_sseq", "n_ctx",
                   "n_cd_tree", "sil"]:
            f[nm] = o; vals[nm] = struct.unpack_from("<i", b, o)[0]; o += 4
        c0 = o
        for _ in range(vals["n_ciphone"]):
            o = b.index(b"\0", o) + 1
        tree = c0 + ((o - c0 + 3) & ~3)
        phone = tree + 8 * vals["n_cd_tree"]
        ssz = phone + 12 * vals["n_phone"]
        f["sseq_size"] = ssz
        send = ssz + 4 + 2 * struct.unpack_from("<i", b, ssz)[0]
        return {"hdr_end": tree, "fields": f, "vals": vals, "text_end": 0,
                "bounds": sorted({tree + 1, phone - 1, phone, phone + 1, ssz - 1, ssz, ssz + 3, ssz + 4, send - 1,
                                  len(b) - 1})}
    return {"hdr_end": min(len(b), 64), "fields": {}, "bounds": [len(b) - 1], "text_end": 0}


# ----------------------------------------------------------------------------------------------
# running

def run_parallel(fn, chunks, nw):
    with ThreadPoolExecutor(nw) as ex:
        return list(ex.map(fn, chunks))


def split(items, n):
    return [items[i::n] for i in range(n)]


def parse_kv(line):
    w = line.split()
    return w[0] if w else "", dict(x.split("=", 1) for x in w[1:] if "=" in x)


def signature(d):
    """class of a stage-B / stage-A outcome that violates the property, or None"""
    end = d.get("end", "?")
    if d.get("libexit") == "1":
        return "exit"
    if end.startswith("exit:98") or end.startswith("exit:99"):
        return "sanitizer"
    if end.startswith("exit:"):
        return "exit"
    if end.startswith("sig:"):
        return "abort" if end == "sig:6" else "signal"
    if end == "timeout":
        return "timeout"
    if end != "ok":
        return "died"
    if d.get("leak") == "1":
        return "leak"
    return None


class StageA:
    def __init__(self, c, binp):
        self.c, self.binp = c, binp
        self.cases = []       # (id, line, meta)
        self.n = 0

    def add(self, target, srcs, meta):
        cid = f"a{self.n}"
        self.n += 1
        self.cases.append((cid, s3_line(cid, target, srcs), meta))

    def run(self, nw):
        lines = [l for _, l, _ in self.cases]
        env = {"VERIF_C17_TMP": str(self.c.scratch)}

        def worker(chunk):
            if not chunk:
                return ""
            rc, out, err = vlib.run_bin(self.binp, ["s3"], stdin_text="\n".join(chunk) + "\n", leaks=True,
                                        timeout=3000, env_extra=env)
            return out
        couts = run_parallel(worker, split(lines, nw), nw)

        def mworker(chunk):
            if not chunk:
                return ""
            rc, out, err = vlib.run_driver("c17", "\n".join(chunk) + "\n", timeout=3000)
            return out if rc == 0 else out + f"\nDRIVER-ERROR {rc} {err[-300:]}\n"
        mouts = run_parallel(mworker, split(lines, min(nw, 4)), min(nw, 4))
        cres, mres = {}, {}
        for out in couts:
            for l in out.split("\n"):
                if l.strip():
                    cres[l.split()[0]] = l
        for out in mouts:
            for l in out.split("\n"):
                if l.strip():
                    mres[l.split()[0]] = l
        return cres, mres


_SRC_LINES = {}


def alloc_name(file, line):
    """`<file>:<left-hand side>` of the allocating assignment at (or just before, for a call spanning lines) file:line"""
    if file not in _SRC_LINES:
        p = vlib.REPO / "src" / file
        _SRC_LINES[file] = p.read_text(errors="replace").split("\n") if p.exists() else []
    ls = _SRC_LINES[file]
    for l in range(line, max(0, line - 4), -1):
        if 0 < l <= len(ls):
            m = re.search(r"([A-Za-z_\*][\w\->\.\[\]\*]*)\s*=\s*(?:\([^()]*\)\s*)?(?:ckd_\w+|bitvec_alloc)\s*\(", ls[l - 1])
            if m:
                return f"{file}:{m.group(1)}"
    return f"{file}:?{line}"


def abstract_trace(trace, names):
    """real allocation trace -> ['+name#k', '-name#k', ...] restricted to the objects named in `names`"""
    objs, counts, out = {}, {}, []
    for tok in trace.split(","):
        w = tok.split(":")
        if w[0] == "a" and len(w) == 4:
            nm = alloc_name(w[1], int(w[2]))
            if nm in names:
                k = counts.get(nm, 0)
                counts[nm] = k + 1
                objs[w[3]] = f"{nm}#{k}"
                out.append("+" + objs[w[3]])
        elif w[0] == "f" and len(w) == 2:
            if w[1] in objs:
                out.append("-" + objs.pop(w[1]))
    return out


def abstract_ledger(spec):
    """'stage|a0,a1,f1|0=name;1=name' -> (stage, ['+name#k', ...], names)"""
    stage, evs, tab = spec.split("|")
    names = dict(x.split("=", 1) for x in tab.split(";") if x)
    counts, objs, out = {}, {}, []
    for e in evs.split(","):
        if not e:
            continue
        i = e[1:]
        if e[0] == "a":
            nm = names[i]
            k = counts.get(nm, 0)
            counts[nm] = k + 1
            objs[i] = f"{nm}#{k}"
            out.append("+" + objs[i])
        else:
            out.append("-" + objs.get(i, "?" + i))
    return stage.split(".")[-1] if "(" not in stage else stage.replace("SSVerif.S3file.Ledger.", ""), out, set(names.values())


LEDGER_NAMES = {
    "tmat": {"tmat.c:t", "tmat.c:t->tp", "tmat.c:tp"},
    "gau": {"ms_gauden.c:g", "ms_gauden.c:g->det", "ms_gauden.c:veclen", "ms_gauden.c:out", "ms_gauden.c:buf"},
    "lda": {"s3file.c:*buf", "s3file.c:*arr"}, "lda2": {"s3file.c:*buf", "s3file.c:*arr"},
    "rd": {"s3file.c:*buf", "s3file.c:*arr"},
    "mdef": {"bin_mdef.c:m", "bin_mdef.c:m->ciname", "bin_mdef.c:m->sseq", "bin_mdef.c:m->cd2cisen", "bin_mdef.c:m->sen2cimap",
             "bin_mdef.c:m->ciname[0]"},
    "am": {"ptm_mgau.c:s", "ms_gauden.c:g", "ptm_mgau.c:*out_mixw", "ptm_mgau.c:pdf", "ptm_mgau.c:s->sen2cb", "ptm_mgau.c:s->hist",
           "ptm_mgau.c:s->replay", "ptm_mgau.c:hist[i].topn", "ptm_mgau.c:hist[i].mgau_active"},
}


LEDGER_NAMES["mdefc"] = LEDGER_NAMES["mdef"]


def judge_ledger(meta, cl, ml):
    """None when there is nothing to compare or the real trace equals the ledger of the stage the model reaches"""
    mm = re.search(r" ledger=(\S*)", ml)
    if not mm:
        return None
    stage, led, _ = abstract_ledger(mm.group(1))
    cm = re.search(r" trace=(\S*)", cl)
    real = abstract_trace(cm.group(1), LEDGER_NAMES.get(meta["target"], set())) if cm else []
    # exact comparison: the order of the releases is part of the ledger (Props/C17.lean, C17_reject_leaves_clean)
    if real == led:
        return ("ok", f"{meta['target']}:{stage}")
    return ("bad", {"stage": stage, "ledger": led, "trace": real})


def judge_a(case, cl, ml):
    """returns (ok, info) for one stage-A case"""
    cid, line, meta = case
    if cl is None or ml is None:
        return False, {"why": "missing output", "impl": cl, "model": ml, "impl_violates": False}
    mcore = ml.split(" | ")[0].split(" ", 1)[1] if " " in ml else ""
    if " | " not in cl:
        _, d = parse_kv(cl)
        return False, {"why": "implementation died: " + (signature(d) or "?"), "impl": cl[:900], "model": mcore,
                       "impl_violates": True, "sig": signature(d) or "died"}
    ccore = cl.split(" | ")[0].split(" ", 1)[1]
    _, d = parse_kv("meta " + cl.split(" | ")[1])       # (the metadata part has no leading id word)
    sig = signature(d)
    if sig:
        return False, {"why": "implementation: " + sig, "impl": cl[:900], "model": mcore, "impl_violates": True,
                       "sig": sig}
    if d.get("mmbad"):
        return False, {"why": "munmap does not release exactly a live mapping (mapped/unmapped/known): " + d["mmbad"],
                       "impl": cl[:900], "model": mcore, "impl_violates": True, "sig": "munmap-mismatch"}
    if d.get("fdsend") is None or d["fdsend"].split(":")[0] != d["fdsend"].split(":")[1]:
        return False, {"why": "file descriptors left open by the case (start:end of the child) = " + str(d.get("fdsend"))
                              + " new: " + d.get("fdnew", "-"),
                       "impl": cl[:900], "model": mcore, "impl_violates": True, "sig": "fd-leak"}
    if mcore.startswith("OOB") or mcore.startswith("IDX") or " OOB" in mcore or " IDX" in mcore:
        return False, {"why": "model reached oob/idx (theorem says impossible)", "impl": ccore, "model": mcore,
                       "impl_violates": False}
    if ccore != mcore:
        # the property itself, evaluated on what the C code returned
        c_ok = ccore.startswith("ok") or (meta["target"] == "rd" and not ccore.endswith("rej"))
        impl_bad = c_ok and meta["kind"] in ("trunc", "field", "chksum") and meta.get("must_reject", False)
        return False, {"why": "model and implementation differ", "impl": ccore, "model": mcore,
                       "impl_violates": impl_bad, "sig": "accepted" if impl_bad else "differs"}
    lj = judge_ledger(meta, cl, ml)
    if lj is not None and lj[0] == "bad":
        return False, {"why": "allocation trace of the implementation differs from the ownership ledger of the stage the model reaches",
                       "impl": lj[1]["trace"], "model": {"stage": lj[1]["stage"], "ledger": lj[1]["ledger"]},
                       "impl_violates": False, "sig": "ledger"}
    return True, {"site": d.get("site", "-"), "core": ccore, "ledger_stage": lj[1] if lj else None}


# ----------------------------------------------------------------------------------------------

def gen_stage_a_more(c, A, tier, stats):
    """cases added for the ledger stages that were never reached (audit B10b); own random stream, so that the
    cases generated from c.rng are the same as before"""
    rng = vlib.Rng(c.seed * 7919 + 17)
    # LDA read into a front end that already holds a matrix (feat->lda set by a first, intact file): every stage
    # of the second call, with the release of the previous matrix in the allocation trace
    for swap in (False, True):
        so, to = syn_lda(rng, False, True, "plain")
        for _ in range(20):
            s, t = syn_lda(rng, swap, True, ["plain", "rich"][swap])
            if t[1] == to[1]:
                break
        if t[1] == to[1]:
            b, old = bytes(s.b), (hx(bytes(so.b)), "-")
            meta = {"target": "lda2", "file": "syn-lda2"}
            A.add(("lda2", t[1]), [old, (hx(b), "-")], dict(meta, kind="intact"))
            for tr in range(0, len(b), 1 if tier == "thorough" else 2):
                A.add(("lda2", t[1]), [old, (hx(b), f"t{tr}")], dict(meta, kind="trunc", must_reject=True))
            for fname, off in s.fields.items():
                x = struct.unpack_from("<I", b, off)[0]
                for val in VALS(x):
                    A.add(("lda2", t[1]), [old, (hx(b), f"w{off}:{val:x}")],
                          dict(meta, kind="chksum" if fname == "chksum" else "field", field=fname))
        for _ in range(20):
            s2, t2 = syn_lda(rng, swap, True, "plain")
            if t2[1] != to[1]:
                # accepted by the reader, refused by the width check: the new matrix stays in feat->lda
                A.add(("lda2", to[1]), [(hx(bytes(so.b)), "-"), (hx(bytes(s2.b)), "-")],
                      {"target": "lda2", "file": "syn-lda2", "kind": "params"})
                break
    # transition matrices that are read completely and then refused by the topology checks
    for swap in (False, True):
        for topo in ("lower", "skip"):
            for chk in (True, False):
                s, t = syn_tmat(rng, swap, chk, "plain", topo=topo)
                A.add(t, [(hx(bytes(s.b)), "-")], {"target": "tmat", "file": "syn-tmat", "kind": "topology"})


def gen_stage_a_flags(c, A, tier, stats, model_dirs):
    """the reader that takes a configuration flag as an argument, under both values of the flag (family `mdefc`):
    synthetic mdefs (both byte orders, homogeneous / heterogeneous, at least one cd_tree node) x every truncation
    length x every count field x VALS under cionly=1, the tree region and the tree count again under cionly=0;
    the bundled mdefs under cionly=1 with cuts inside every region (most inside the cd_tree) and corrupted counts.
    Own random stream: the cases drawn from c.rng stay the same."""
    rng = vlib.Rng(c.seed * 7919 + 29)
    dist = {"syn_files": 0, "cionly=1": 0, "cionly=0": 0, "cut_in_tree": 0, "n_cd_tree_field": 0, "bundled": 0}
    for v in range(1 if tier == "quick" else 6):
        for swap in (False, True):
            for het in (False, True):
                for _ in range(30):
                    s, _t = syn_mdef(rng, swap, het)
                    b = bytes(s.b)
                    if getattr(s, "valid", True) and struct.unpack_from(">I" if swap else "<I", b, s.fields["n_cd_tree"])[0] >= 1:
                        break
                tree0, tree1 = s.hdr_end, s.regions["phone"]
                dist["syn_files"] += 1
                for ci in ("1", "0"):
                    meta = {"target": "mdefc", "file": "syn-mdefc", "cionly": ci}
                    A.add(("mdefc", ci), [(hx(b), "-")], dict(meta, kind="intact" if getattr(s, "valid", True) else "invalid"))
                    for t in range(len(b)):
                        if ci == "1" or tree0 - 4 <= t <= tree1 + 4:
                            A.add(("mdefc", ci), [(hx(b), f"t{t}")], dict(meta, kind="trunc", must_reject=True))
                            dist["cionly=" + ci] += 1
                            dist["cut_in_tree"] += tree0 <= t < tree1
                    for fname, off in s.fields.items():
                        if ci == "1" or fname in ("n_cd_tree", "n_phone", "n_ciphone"):
                            x = struct.unpack_from("<I", b, off)[0]
                            for val in VALS(x) + ([(x + 0x01000000) & 0xffffffff, (x + 3000000) & 0xffffffff] if fname == "n_cd_tree" else []):
                                A.add(("mdefc", ci), [(hx(b), f"w{off}:{val:x}")], dict(meta, kind="field", field=fname))
                                dist["cionly=" + ci] += 1
                                dist["n_cd_tree_field"] += fname == "n_cd_tree"
    for tag, md in model_dirs:
        pth = md / "mdef"
        if not pth.exists():
            continue
        b = pth.read_bytes()
        L = layout("mdef", b)
        tree0 = L["hdr_end"]
        phone0 = tree0 + 8 * L["vals"]["n_cd_tree"]
        path = "@" + str(pth)
        meta = {"target": "mdefc", "file": f"{tag}/mdefc", "cionly": "1"}
        A.add(("mdefc", "1"), [(path, "-")], dict(meta, kind="intact"))
        ts = {tree0, tree0 + 1, tree0 + 8, (tree0 + phone0) // 2, phone0 - 8, phone0 - 1, phone0, phone0 + 1, len(b) - 1}
        ts |= {tree0 + rng.below(max(1, phone0 - tree0)) for _ in range(6 if tier == "quick" else 60)}
        ts |= {rng.below(len(b)) for _ in range(3 if tier == "quick" else 30)}
        ts |= {k * PAGE + d for k in {1, max(1, len(b) // PAGE), rng.range(1, max(1, len(b) // PAGE))} for d in (-1, 0, 1)}
        for t in sorted(x for x in ts if 0 <= x < len(b)):
            A.add(("mdefc", "1"), [(path, f"t{t}")], dict(meta, kind="trunc", must_reject=True))
            dist["bundled"] += 1
            dist["cut_in_tree"] += tree0 <= t < phone0
        for fname in ("n_cd_tree", "n_phone", "n_sseq", "sseq_size"):
            off = L["fields"][fname]
            x = struct.unpack_from("<I", b, off)[0]
            for val in VALS(x) + ([(x + 3000000) & 0xffffffff] if fname == "n_cd_tree" else []):
                A.add(("mdefc", "1"), [(path, f"w{off}:{val:x}")], dict(meta, kind="field", field=fname))
                dist["bundled"] += 1
                dist["n_cd_tree_field"] += fname == "n_cd_tree"
    stats["flag_family_stageA"] = dist


def gen_stage_a(c, A, tier, stats):
    rng = c.rng
    nvar = 2 if tier == "quick" else 8
    makers = []
    for v in range(nvar):
        for swap in (False, True):
            style = ["plain", "rich", "old"][(v + swap) % 3]
            chk = (v % 2 == 0)
            makers.append(("tmat", lambda swap=swap, chk=chk, style=style: syn_tmat(rng, swap, chk, style)))
            makers.append(("lda", lambda swap=swap, chk=chk, style=style: syn_lda(rng, swap, chk, style)))
            makers.append(("mixw", lambda swap=swap, chk=chk, style=style: syn_mixw(rng, swap, chk, style)))
            for kind in ("1d", "2d", "3d"):
                makers.append((kind, lambda kind=kind, swap=swap, chk=chk, style=style: syn_array(rng, kind, swap, chk, style)))
    for swap in (False, True):
        for clust, bits, pad in ((0, 8, 0), (0, 8, 2), (15, 4, 1), (16, 8, 0), (16, 4, 0)):
            makers.append(("sd", lambda swap=swap, clust=clust, bits=bits, pad=pad: syn_sendump(rng, swap, clust, bits, pad)))
    for v in range(nvar if tier == "quick" else 2 * nvar):
        for swap in (False, True):
            for het in (False, True):
                makers.append(("mdef", lambda swap=swap, het=het: syn_mdef(rng, swap, het)))
    for swap in (False, True):
        makers.append(("mdef", lambda swap=swap: syn_mdef(rng, swap, True, last_ci=True)))
    for name, mk in makers:
        s, target = mk()
        b = bytes(s.b)
        stats["syn_files"][name] = stats["syn_files"].get(name, 0) + 1
        meta = {"target": target[0], "file": "syn-" + name}
        A.add(target, [(hx(b), "-")], dict(meta, kind="intact" if getattr(s, "valid", True) else "invalid"))
        for t in range(len(b)):
            A.add(target, [(hx(b), f"t{t}")], dict(meta, kind="trunc", must_reject=True))
        for fname, off in s.fields.items():
            x = struct.unpack_from("<I", b, off)[0]
            for v in VALS(x):
                k = "chksum" if fname == "chksum" else "field"
                A.add(target, [(hx(b), f"w{off}:{v:x}")], dict(meta, kind=k, field=fname))
        if name == "mdef":
            # phone records, sequences, lengths, names: single-byte corruptions (indices that must be validated)
            for off in range(s.fields["sil"] + 4, len(b)):
                for v in ({0, 1, 2, 3, 5, 255, b[off] ^ 1, (b[off] + 1) & 255} if tier == "thorough" else
                          {rng.choice([0, 1, 2, 3, 255]), (b[off] + 1) & 255}):
                    if v != b[off]:
                        A.add(target, [(hx(b), f"b{off}:{v:x}")], dict(meta, kind="data"))
        for off in range(getattr(s, "hdr_text_end", 0)):
            for v in ([0, 32, 10, 35, 101] if tier == "thorough" else [rng.choice([0, 32, 10, 35, 101, 255])]):
                if b[off] != v:
                    A.add(target, [(hx(b), f"b{off}:{v:x}")], dict(meta, kind="text"))
    # sendump: invalid cluster parameters; arguments (codebook / model dimensions) that do not match the file
    for clust, bits in ((7, 8), (16, 5), (15, 8)):
        s, t = syn_sendump(rng, False, clust, bits, 0)
        A.add(t, [(hx(bytes(s.b)), "-")], {"target": "sd", "file": "syn-sd", "kind": "params"})
    s, t = syn_sendump(rng, False, 0, 8, 1)
    for d in ((1, 0, 0), (0, 1, 0), (0, 0, 1), (0, 0, -1)):
        t2 = ("sd", t[1] + d[0], t[2] + d[1], t[3] + d[2])
        A.add(t2, [(hx(bytes(s.b)), "-")], {"target": "sd", "file": "syn-sd", "kind": "params"})
    # the mixture-weight reader of ms_senone.c: same files as read_mixw; dimensions whose 32-bit product wraps
    for v in range(nvar):
        sx, _ = syn_mixw(rng, v % 2 == 1, v % 3 != 2, ["plain", "rich", "old"][v % 3])
        b = bytes(sx.b)
        meta = {"target": "sen", "file": "syn-sen"}
        A.add(("sen",), [(hx(b), "-")], dict(meta, kind="intact"))
        for t in range(len(b)):
            A.add(("sen",), [(hx(b), f"t{t}")], dict(meta, kind="trunc", must_reject=True))
        for fname, off in sx.fields.items():
            x = struct.unpack_from("<I", b, off)[0]
            for val in VALS(x):
                A.add(("sen",), [(hx(b), f"w{off}:{val:x}")], dict(meta, kind="chksum" if fname == "chksum" else "field", field=fname))
    wrap = s3_header(rng, False, False, "plain")
    wrap.u32(0x10000); wrap.u32(0x10000); wrap.u32(1); wrap.u32(0)
    A.add(("sen",), [(hx(bytes(wrap.b) + bytes(64)), "-")], {"target": "sen", "file": "syn-sen", "kind": "wrap"})
    wrap = s3_header(rng, False, False, "plain")
    wrap.u32(0x8001); wrap.u32(0x10000); wrap.u32(2); wrap.u32(0x20000)
    A.add(("sen",), [(hx(bytes(wrap.b) + bytes(64)), "-")], {"target": "sen", "file": "syn-sen", "kind": "wrap"})
    # the assembly of the acoustic model from consistent files with one cross-file mismatch
    stats["am_kinds"] = {}
    forced = [("ok", True), ("ok", False), ("mixw_sen+", None), ("mixw_sen-", None), ("n_mgau", None), ("one_cb", None),
              ("cont", None), ("veclen", None), ("dens", None), ("ntmat", None), ("sen_dump", None)]
    for j in range(40 if tier == "quick" else 400):
        fk, fs = forced[j] if j < len(forced) else (None, None)
        for kind, words in syn_am(rng, stats, fk, fs):
            cid = f"a{A.n}"; A.n += 1
            A.cases.append((cid, " ".join([cid] + words), {"target": "am", "file": "syn-am", "kind": kind}))
    # mixture weights read for codebooks with other dimensions
    s, t = syn_mixw(rng, False, True, "plain")
    for d in ((1, 0), (0, 1)):
        A.add(("mixw", t[1] + d[0], t[2] + d[1]), [(hx(bytes(s.b)), "-")], {"target": "mixw", "file": "syn-mixw", "kind": "params"})
    # LDA read for a front end with another stream length
    s, t = syn_lda(rng, False, True, "plain")
    A.add(("lda", t[1] + 3), [(hx(bytes(s.b)), "-")], {"target": "lda", "file": "syn-lda", "kind": "params"})
    gen_stage_a_more(c, A, tier, stats)
    # means / variances with equal counts but different vector lengths
    sm, _ = syn_gau(rng, False, True, "plain", dims=(2, 2, 1, [2, 3]))
    sv, _ = syn_gau(rng, False, True, "plain", var=True, dims=(2, 2, 1, [3, 2]))
    A.add(("gau",), [(hx(bytes(sm.b)), "-"), (hx(bytes(sv.b)), "-")], {"target": "gau", "file": "syn-gau", "kind": "mismatch"})
    # gauden: means and variances, faults in either file, mismatching pairs
    for v in range(nvar):
        swap = v % 2 == 1
        sm, _ = syn_gau(rng, swap, v % 3 != 2, ["plain", "rich", "old"][v % 3])
        sv, _ = syn_gau(rng, swap, True, "plain", var=True, dims=sm.dims)
        bm, bv = bytes(sm.b), bytes(sv.b)
        stats["syn_files"]["gau"] = stats["syn_files"].get("gau", 0) + 1
        meta = {"target": "gau", "file": "syn-gau"}
        A.add(("gau",), [(hx(bm), "-"), (hx(bv), "-")], dict(meta, kind="intact"))
        for t in range(len(bm)):
            A.add(("gau",), [(hx(bm), f"t{t}"), (hx(bv), "-")], dict(meta, kind="trunc", must_reject=True))
        for t in range(0, len(bv), 1 if tier == "thorough" else 3):
            A.add(("gau",), [(hx(bm), "-"), (hx(bv), f"t{t}")], dict(meta, kind="trunc", must_reject=True))
        for s, which in ((sm, 0), (sv, 1)):
            b = bytes(s.b)
            for fname, off in s.fields.items():
                x = struct.unpack_from("<I", b, off)[0]
                for val in VALS(x):
                    srcs = [(hx(bm), "-"), (hx(bv), "-")]
                    srcs[which] = (srcs[which][0], f"w{off}:{val:x}")
                    A.add(("gau",), srcs, dict(meta, kind="chksum" if fname == "chksum" else "field", field=fname))
        # variances with other (valid) dimensions: rejected by the cross-check only
        so, _ = syn_gau(rng, swap, True, "plain", var=True)
        A.add(("gau",), [(hx(bm), "-"), (hx(bytes(so.b)), "-")], dict(meta, kind="mismatch"))
    # random reader scripts over random / semi-structured bytes
    nscr = 150 if tier == "quick" else 1500
    for _ in range(nscr):
        if rng.chance(0.5):
            s, _ = syn_array(rng, rng.choice(["1d", "2d", "3d"]), rng.chance(0.3), rng.chance(0.5), rng.choice(["plain", "rich", "old"]))
            b = bytearray(s.b)
            for _ in range(rng.range(0, 3)):
                if b:
                    b[rng.below(len(b))] = rng.choice([0, 1, 2, 10, 32, 255, rng.below(256)])
            b = bytes(b[:rng.range(0, len(b))]) if rng.chance(0.4) else bytes(b)
        else:
            b = bytes(rng.choice([0, 1, 2, 3, 10, 32, 35, 101, 115, 51, 255, rng.below(256)]) for _ in range(rng.range(0, 40)))
        ops = []
        if rng.chance(0.6):
            ops.append("H")
        for _ in range(rng.range(1, 5)):
            ops.append(rng.weighted([(f"g{rng.choice([1, 2, 4])}x{rng.range(0, 6)}", 5), (f"1d{rng.choice([1, 2, 4])}", 3),
                                     ("2d4", 2), ("3d4", 2), ("V", 2)]))
        A.add(("rd", ",".join(ops)), [(hx(b), "-")], {"target": "rd", "file": "random", "kind": "script"})


def gen_stage_a_real(c, A, tier, stats, model_dir, tag):
    """the bundled files at loader level (modelled formats), faults in the header region + boundaries"""
    rng = c.rng
    files = {}
    for fn in ("transition_matrices", "means", "variances", "sendump", "mdef"):
        p = model_dir / fn
        if p.exists():
            files[fn] = p.read_bytes()
    ft = vlib.REPO / "tests" / "data" / "feature_transform"
    mdefL = layout("mdef", (model_dir / "mdef").read_bytes())
    n_sen = mdefL["vals"]["n_sen"]
    gm = layout("means", files["means"])
    gdims = [struct.unpack_from("<i", files["means"], gm["fields"][k])[0] for k in ("n_feat", "n_density")]
    tm = layout("transition_matrices", files["transition_matrices"])
    info = {"n_sen": n_sen, "gfeat": gdims[0], "gdens": gdims[1], "n_ciphone": mdefL["vals"]["n_ciphone"],
            "tmat_n": struct.unpack_from("<i", files["transition_matrices"], tm["fields"]["n_tmat"])[0]}
    step = 1 if tier == "thorough" else 5

    def add_faults(fn, path, b, mk):
        L = layout(fn, b)
        meta = {"file": f"{tag}/{fn}"}
        mk("-", dict(meta, kind="intact"))
        ts = sorted(set(list(range(0, min(16, len(b)))) + list(range(16, min(L["hdr_end"] + 8, len(b)), step))
                        + [t for t in L["bounds"] if 0 <= t < len(b)]
                        + [rng.below(len(b)) for _ in range(4 if tier == "quick" else 40)]))
        for t in ts:
            mk(f"t{t}", dict(meta, kind="trunc", must_reject=True))
        for fname, off in L["fields"].items():
            x = struct.unpack_from("<I", b, off)[0]
            for v in VALS(x):
                mk(f"w{off}:{v:x}", dict(meta, kind="chksum" if fname == "chksum" else "field", field=fname))
    for fn, b in files.items():
        path = "@" + str(model_dir / fn)
        if fn == "transition_matrices":
            add_faults(fn, path, b, lambda ed, meta, path=path: A.add(("tmat",), [(path, ed)], dict(meta, target="tmat")))
        elif fn == "means":
            pv = "@" + str(model_dir / "variances")
            add_faults(fn, path, b, lambda ed, meta, path=path, pv=pv: A.add(("gau",), [(path, ed), (pv, "-")], dict(meta, target="gau")))
        elif fn == "variances":
            pm = "@" + str(model_dir / "means")
            add_faults(fn, path, b, lambda ed, meta, path=path, pm=pm: A.add(("gau",), [(pm, "-"), (path, ed)], dict(meta, target="gau")))
        elif fn == "sendump":
            add_faults(fn, path, b, lambda ed, meta, path=path: A.add(("sd", info["gfeat"], info["gdens"], n_sen), [(path, ed)], dict(meta, target="sd")))
        elif fn == "mdef":
            add_faults(fn, path, b, lambda ed, meta, path=path: A.add(("mdef",), [(path, ed)], dict(meta, target="mdef")))
    if ft.exists() and tag == "en-us":
        b = ft.read_bytes()
        path = "@" + str(ft)
        cols = struct.unpack_from("<i", b, layout("feature_transform", b)["fields"]["cols"])[0]
        add_faults("feature_transform", path, b,
                   lambda ed, meta, path=path: A.add(("lda", cols), [(path, ed)], dict(meta, target="lda")))
    return info


def gen_stage_b(c, tier, model_dir, tag, stats):
    """decoder-level faults: list of (mode, file, edits, meta)"""
    rng = c.rng
    faults = []
    for fn in ("mdef", "means", "variances", "sendump", "transition_matrices", "feat_params.json", "noisedict.txt"):
        p = model_dir / fn
        if not p.exists():
            continue
        b = p.read_bytes()
        L = layout(fn, b)
        binary = fn not in ("feat_params.json", "noisedict.txt")
        for mode in ("mmap", "mem"):
            if not binary and mode == "mem":
                continue        # these two are read through stdio in both paths
            faults.append((mode, fn, "x", {"kind": "missing"}))
            if tier == "thorough":
                hdr = list(range(0, min(L["hdr_end"] + 8, len(b))))
                extra = 400 if binary else 0
            else:
                st = {"mdef": 37, "sendump": 23, "means": 5, "variances": 7, "transition_matrices": 4}.get(fn, 9)
                ph = rng.below(st)
                hdr = list(range(0, 6)) + list(range(6 + ph, min(L["hdr_end"] + 8, len(b)), st))
                extra = 3 if binary else 0
            ts = set(hdr) | {t for t in L["bounds"] if 0 <= t < len(b)} | {rng.below(len(b)) for _ in range(extra)}
            if fn == "mdef":
                # inside each region of the binary mdef
                ts |= {L["hdr_end"] + rng.below(max(1, len(b) - L["hdr_end"])) for _ in range(6 if tier == "quick" else 300)}
            for t in sorted(ts):
                faults.append((mode, fn, f"t{t}", {"kind": "trunc"}))
            for fname, off in L["fields"].items():
                x = struct.unpack_from("<I", b, off)[0]
                vals = VALS(x)
                if tier == "quick" and fname.startswith("str") and fname not in ("str0_len",):
                    vals = [rng.choice(vals)]
                for v in vals:
                    faults.append((mode, fn, f"w{off}:{v:x}",
                                   {"kind": "chksum" if fname == "chksum" else ("magic" if fname == "magic" else "field"),
                                    "field": fname, "value": v, "orig": struct.unpack_from("<i", b, off)[0]}))
        stats["b_files"][f"{tag}/{fn}"] = len(b)
    for mode in ("mmap", "mem"):
        faults.append((mode, "means", "-", {"kind": "intact"}))
    return faults


def gen_stage_b_flags(c, tier, model_dir, tag, stats, faults):
    """stage-B faults added for the configuration dimension and the mapping ledger (own random stream):
    * every mdef fault of the base enumeration again under cionly=yes (both paths);
    * a sample of the faults of every other file under one configuration of CONFIGS each (round robin), and the
      intact model under every configuration;
    * mmap path: truncation lengths k*PAGE-1, k*PAGE, k*PAGE+1 (k = 1, a random k, the last whole page) of every
      binary file, and the file padded with zero bytes up to the next page boundary (`p<len>`: a file of whole pages
      that several readers accept), under the default configuration and under one of CONFIGS."""
    rng = vlib.Rng(c.seed * 7919 + 31)
    out, dist = [], {"by_config": {}, "page_multiple_lengths": 0, "page_multiple_pm1": 0, "padded_to_page": 0}

    def add(mode, fn, ed, meta, cfg):
        m = dict(meta)
        if cfg:
            m["cfg"] = cfg
        out.append((mode, fn, ed, m))
        dist["by_config"][cfg or "-"] = dist["by_config"].get(cfg or "-", 0) + 1
    k = 0
    for mode, fn, ed, meta in faults:
        if meta["kind"] in ("intact",):
            continue
        if fn == "mdef":
            # quick tier: every truncation, 40 % of the corrupted counts (the tree count always)
            if tier != "quick" or meta["kind"] != "field" or meta.get("field") == "n_cd_tree" or rng.chance(0.4):
                add(mode, fn, ed, meta, "cionly=yes")
        elif rng.chance(0.25 if tier == "quick" else 1.0):
            add(mode, fn, ed, meta, CONFIGS[k % len(CONFIGS)])
            k += 1
    for cfg in CONFIGS:
        for mode in ("mmap", "mem"):
            add(mode, "means", "-", {"kind": "intact"}, cfg)
    for fn in ("mdef", "means", "variances", "sendump", "transition_matrices"):
        pth = model_dir / fn
        if not pth.exists():
            continue
        n = pth.stat().st_size
        kmax = n // PAGE
        ks = sorted({1, kmax, rng.range(1, max(1, kmax))} - {0})
        for kk in ks:
            for d in (-1, 0, 1):
                t = kk * PAGE + d
                if 0 < t < n:
                    for cfg in (None, CONFIGS[k % len(CONFIGS)]):
                        add("mmap", fn, f"t{t}", {"kind": "trunc"}, cfg)
                    k += 1
                    dist["page_multiple_lengths" if d == 0 else "page_multiple_pm1"] += 1
        pad = (n // PAGE + 1) * PAGE
        # not judged for accept/reject (no plan expectation for a longer file): cleanliness + mapping ledger
        add("mmap", fn, f"p{pad}", {"kind": "other"}, None)
        add("mmap", fn, f"p{pad}", {"kind": "other"}, "cionly=yes")
        dist["padded_to_page"] += 2
    stats.setdefault("flag_family_stageB", {})[tag] = dist
    return out


def fd_leak(d):
    """descriptor ledger of one child (harness: fd_count/fd_report): None, or the text of the difference.
    `fds=a:b` = open descriptors before / after the single damaged load attempt (after decoder_free),
    `fdsend=a:b` = at the start / at the end of the forked child (after the intact reload as well)."""
    out = []
    for key, what in (("fds", "around the damaged load attempt"), ("fdsend", "start/end of the child")):
        v = d.get(key)
        if v is None:
            return f"the harness printed no `{key}=` (descriptor ledger missing)"
        a, b = v.split(":")
        if a != b:
            out.append(f"{what}: {a} descriptors open before, {b} after")
    if out:
        return "; ".join(out) + (f"; new descriptors: {d['fdnew']}" if d.get("fdnew") else "")
    return None


MAPPED_TEXT_FILES = ("noisedict.txt", "dict.txt")       # dict_init maps both through s3file_map_file


def gen_stage_b_fds(c, tier, model_dir, tag, stats, faults):
    """stage-B faults added for the descriptor ledger (own random stream): the ZERO-LENGTH file (and a file that is
    missing, one byte long, and one random cut) through the memory-mapping route for EVERY file decoder_init maps -
    the five binary files, noisedict.txt and the main dictionary dict.txt (dict faults: `nouse`, accept/reject not
    judged, the dictionary parser is C16's subject) - under the default and one non-default configuration; the
    in-memory route gets length 0 of the binary files too.  Faults already drawn by the base enumeration are not
    repeated; the distribution (incl. how many zero-length map attempts the whole run contains) goes to the evidence."""
    rng = vlib.Rng(c.seed * 7919 + 37)
    have = {(m, fn, ed, mt.get("cfg")) for m, fn, ed, mt in faults}
    out, dist = [], {"added": 0, "zero_length_mmap_by_file": {}, "zero_length_mem_by_file": {}}
    k = 0
    for fn in ("mdef", "means", "variances", "sendump", "transition_matrices", "mixture_weights") + MAPPED_TEXT_FILES:
        pth = model_dir / fn
        if not pth.exists():
            continue
        n = pth.stat().st_size
        text = fn in MAPPED_TEXT_FILES
        for mode in ("mmap",) if text else ("mmap", "mem"):
            eds = ["t0", "t1", "x", f"t{rng.range(2, max(2, n - 1))}"] if mode == "mmap" else ["t0"]
            for ed in eds:
                for cfg in (None, CONFIGS[k % len(CONFIGS)]) if ed == "t0" else (None,):
                    if (mode, fn, ed, cfg) in have:
                        continue
                    if fn == "dict.txt":
                        meta = {"kind": "other", "nouse": True}
                    else:
                        meta = {"kind": "missing" if ed == "x" else "trunc"}
                    if cfg:
                        meta["cfg"] = cfg
                    out.append((mode, fn, ed, meta))
                    dist["added"] += 1
                k += 1
    for mode, fn, ed, mt in list(faults) + out:
        if ed == "t0":
            key = "zero_length_mmap_by_file" if mode == "mmap" else "zero_length_mem_by_file"
            dist[key][fn] = dist[key].get(fn, 0) + 1
    stats.setdefault("fd_family_stageB", {})[tag] = dist
    return out


def gen_stage_a_fds(c, A, tier, stats):
    """stage A: the assembly on FILES (acmod_load_am, ct = 1: every file goes through s3file_map_file) and on memory
    (ct = 0) with each of its five files cut to length 0, for a sendump set and a mixture-weights set"""
    rng = vlib.Rng(c.seed * 7919 + 41)
    st = {"am_kinds": {}}
    n = 0
    for use_sd in (True, False):
        words = [w for kind, w in syn_am(rng, st, "ok", use_sd) if w[1] == "1"][0]
        for pos in (5, 7, 9, 11, 14):       # edit words of mdef, tmat, means, variances, sendump|mixw (after the id)
            for ct in ("1", "0"):
                w = list(words)
                w[1] = ct
                w[pos - 1] = "t0"
                cid = f"a{A.n}"; A.n += 1
                A.cases.append((cid, " ".join([cid] + w), {"target": "am", "file": "syn-am", "kind": "trunc0"}))
                n += 1
    stats["fd_family_stageA"] = {"am_zero_length_cases": n}


def judge_maps(res, model_lens):
    """mapping ledger over all stage-B children: (violations [(index, text)], pairs compared, live mappings left)"""
    bad, n, live = [], 0, 0
    for i, d in res.items():
        if d.get("mmbad"):
            continue        # judged per fault
        if d.get("mmlive", "0") != "0":
            live += 1
        page = int(d.get("page", PAGE))
        for pr in (d.get("mm", "-").split(",") if d.get("mm", "-") != "-" else []):
            a, b = (int(x) for x in pr.split(":"))
            n += 1
            # compared in pages (what the kernel releases): munmap(ptr, st_size) would be the same release
            if model_lens.get((a, page)) is None or -(-b // page) != model_lens[(a, page)][1]:
                bad.append((i, f"file of {a} bytes mapped, munmap given {b}, model (mapLen, pages) = {model_lens.get((a, page))}"))
    return bad, n, live


def model_maplens(sizes):
    """mapLen of Model/ReadFlags.lean for every (size, page) seen: {(size, page): unmapped length}"""
    qs = sorted(sizes)
    if not qs:
        return {}
    rc, out, err = vlib.run_driver("c17", "".join(f"m{i} maplen {a} {p}\n" for i, (a, p) in enumerate(qs)), timeout=600)
    res = {}
    for l in out.split("\n"):
        w = l.split()
        if len(w) == 5 and w[0][1:].isdigit():
            a, p = qs[int(w[0][1:])]
            if int(w[1]) == a and w[3] == w[4]:       # pages unmapped = pages mapped (C17_unmap_is_map), evaluated
                res[(a, p)] = (int(w[2]), int(w[4]))
    return res


def meta_of_edit(model_dir, fn, ed):
    """fault class of a (file, edit) pair given literally (corpus, replay)"""
    if ed == "-":
        return {"kind": "intact"}
    if ed == "x":
        return {"kind": "missing"}
    if ed.startswith("t"):
        return {"kind": "trunc"}
    m = re.fullmatch(r"w(\d+):([0-9a-fA-F]+)", ed)
    if m and (model_dir / fn).exists():
        b = (model_dir / fn).read_bytes()
        off, v = int(m.group(1)), int(m.group(2), 16)
        for name, o in layout(fn, b)["fields"].items():
            if o == off:
                return {"kind": "chksum" if name == "chksum" else "field", "field": name, "value": v,
                        "orig": struct.unpack_from("<i", b, off)[0]}
    return {"kind": "other"}


def model_assembly(c, tag, model_dir, plan_accepts):
    """for every damaged bundled file that its own plan accepts: what the model of acmod_load_am (decoder_init path)
    and of the in-memory sequence says about the whole model directory -> {(fn, ed, mode): 'acc'|'rej'}"""
    files = {"mdef": "mdef", "transition_matrices": "tmat", "means": "means", "variances": "vars", "sendump": "sd"}
    b = (model_dir / "means").read_bytes()
    L = layout("means", b)
    nf = struct.unpack_from("<i", b, L["fields"]["n_feat"])[0]
    streams = ",".join(str(struct.unpack_from("<i", b, L["fields"][f"veclen{i}"])[0]) for i in range(nf))
    qs = []
    for key, acc in sorted(plan_accepts.items(), key=str):
        fn, ed = key
        if fn not in files or not acc:
            continue
        for mode, ct in (("mmap", "1"), ("mem", "0")):
            e = {k: "-" for k in files}
            e[fn] = ed
            qs.append(((fn, ed, mode), " ".join([f"q{len(qs)}", "am", ct, streams] + [x for k in ("mdef", "transition_matrices", "means", "variances")
                                                                                     for x in ("@" + str(model_dir / k), e[k])]
                                                + ["sd", "@" + str(model_dir / "sendump"), e["sendump"]])))
    if not qs:
        return {}

    def mworker(chunk):
        rc, out, err = vlib.run_driver("c17", "\n".join(l for _, l in chunk) + "\n", timeout=3000)
        return out
    outs = run_parallel(mworker, [x for x in split(qs, 4) if x], 4)
    res = {}
    byid = {l.split()[0]: k for k, l in qs}
    for out in outs:
        for l in out.split("\n"):
            w = l.split()
            if w and w[0] in byid:
                res[byid[w[0]]] = "acc" if len(w) > 1 and w[1] == "ok" else "rej"
    return res


def expected_b(fault, plan_accepts, model_dir=None):
    """expected decoder_init outcome of a stage-B fault: 'acc', 'rej' or None (= not judged, only cleanliness)"""
    mode, fn, ed, meta = fault
    if meta["kind"] == "intact":
        return "acc"
    if meta["kind"] == "other" or fn == "dict.txt":      # dictionary contents: cleanliness + ledgers only
        return None
    if fn == "feat_params.json" and meta["kind"] in ("trunc", "missing") and model_dir is not None:
        # without its feature parameters the model cannot match the default front end; a cut that still
        # leaves complete JSON (only trailing blanks removed) is the same file
        if meta["kind"] == "missing":
            return "rej"
        try:
            json.loads((model_dir / fn).read_bytes()[:int(ed[1:])].decode("utf8"))
            return None
        except ValueError:
            return "rej"
    if meta["kind"] == "missing":
        return "rej" if fn not in ("feat_params.json", "noisedict.txt") else None
    if fn in ("feat_params.json", "noisedict.txt"):
        return None
    am = plan_accepts.get("__am__")
    if am is not None and fn in ("mdef", "transition_matrices", "means", "variances", "sendump"):
        # model-derived: a file its own plan rejects makes every loader fail; otherwise the assembly plan decides
        if not plan_accepts.get((fn, ed), False):
            return "rej"
        return am.get((fn, ed, mode))
    if fn == "mdef":
        # model-derived: bin_mdef_read accepts iff the plan model does; the assembled decoder additionally needs the
        # codebook count (= n_ciphone) and the senone count of the other files, and (decoder_init only) n_tmat <= #tmat
        core = plan_accepts.get(("mdef-core", ed))
        if core is None:
            return "rej"
        intact = plan_accepts.get(("mdef-core", "-"))
        if intact is None:
            return None
        # core = ok swap n_ciphone n_phone n_emit n_ci_sen n_sen n_tmat ...
        if core[2] != intact[2] or core[6] != intact[6]:
            return "rej"
        if mode == "mmap" and int(core[7]) > int(intact[7]):
            return "rej"
        return "acc"
    key = (fn, ed)
    if key in plan_accepts:
        return "acc" if plan_accepts[key] else "rej"
    return "rej"


def prepare_model(c, tag):
    """copy of the bundled model + small dictionary, grammar and audio for the smoke use"""
    src = vlib.REPO / "model" / tag
    P = c.scratch / f"P-{tag}"
    P.mkdir(parents=True, exist_ok=True)
    for f in src.iterdir():
        if f.is_file():
            shutil.copy(f, P / f.name)
    words = {"en-us": ["go", "forward", "backward", "ten", "meters", "one", "two"],
             "fr-fr": ["avance", "recule", "de", "dix", "mètres", "deux"]}[tag]
    small = c.scratch / f"small-{tag}.dict"
    with open(P / "dict.txt", encoding="utf8") as f:
        small.write_text("".join(l for l in f if re.split(r"[\s(]", l, 1)[0] in words), encoding="utf8")
    jsgf = c.scratch / f"g-{tag}.jsgf"
    jsgf.write_text({"en-us": "#JSGF V1.0;\ngrammar g;\npublic <g> = go (forward | backward) (one | two | ten) meters;\n",
                     "fr-fr": "#JSGF V1.0;\ngrammar g;\npublic <g> = (avance | recule) de (deux | dix) mètres;\n"}[tag],
                    encoding="utf8")
    raw = vlib.REPO / "tests" / "data" / ("goforward.raw" if tag == "en-us" else "goforward_fr.raw")
    return P, small, jsgf, raw


def run_stage_b(c, binp, tag, env, faults, nw):
    P, small, jsgf, raw = env

    def worker(k_chunk):
        k, chunk = k_chunk
        if not chunk:
            return ""
        W = c.scratch / f"W-{tag}-{k}"
        shutil.rmtree(W, ignore_errors=True)
        W.mkdir()
        for f in P.iterdir():
            os.symlink(f, W / f.name)
        text = "".join(f"{i} {m} {fn} {e}" + (f" {mt['cfg']}" if mt.get("cfg") else "") + "\n" for i, (m, fn, e, mt) in chunk)
        rc, out, err = vlib.run_bin(binp, ["dec", P, W, small, "-", jsgf, raw], stdin_text=text, leaks=True, timeout=6000)
        shutil.rmtree(W, ignore_errors=True)
        return out
    idx = list(enumerate(faults))
    outs = run_parallel(worker, list(enumerate(split(idx, nw))), nw)
    res = {}
    for out in outs:
        for l in out.split("\n"):
            if l.strip():
                cid, d = parse_kv(l)
                if cid.isdigit():
                    d["_line"] = l[:1200]
                    res[int(cid)] = d
    return res


def judge_b(fault, d, exp):
    """None if fine, else (signature, detail)"""
    if d is None:
        return "died", "no output line"
    if d.get("mmbad"):
        return "munmap-mismatch", ("munmap does not release exactly the pages of a live mapping: mapped/unmapped/known = "
                                   + d["mmbad"] + "; end=" + d.get("end", "?"))
    sig = signature(d)
    if sig:
        return sig, d.get("diag", "-")[:600]
    if d.get("intact") != "acc":
        return "intact-fails", "the intact model did not load after the damaged one"
    if d.get("cfgbad", "0") != "0":
        return "harness-config", f"configuration {d.get('cfg')} was not accepted by config_set_str"
    if d.get("mmlive", "0") != "0":
        return "mapping-leak", f"{d.get('mmlive')} file mappings still live after decoder_free"
    fl = fd_leak(d)
    if fl:
        return "fd-leak", fl
    got = d.get("fault")
    if got == "acc" and d.get("use") != "ok" and fault[1] != "dict.txt":
        return "accepted-unusable", f"use={d.get('use')}"
    if exp is not None and got != exp:
        return ("accepted" if got == "acc" else "rejected-unexpectedly"), f"expected {exp}, decoder_init gave {got}"
    return None


def finding_key(stage, file, kind, sig):
    return f"{stage}:{file}:{kind}:{sig}"


def pending_findings():
    """defect classes with a proposed repair under fixes/ that is not (yet) in the tree under test; kept next to the
    corpus so that the coordinator can drop an entry when its patch is applied or move it to known_findings.json"""
    p = vlib.ROOT / "corpus" / "C17" / "pending-findings.json"
    if not p.exists():
        return []
    return json.loads(p.read_text()).get("pending", [])


def pending_match(key, pend):
    for e in pend:
        if re.fullmatch(e["pattern"], key):
            return e
    return None


def report(c, groups, limit=16):
    """one replay per (stage,file,kind,signature) class, smallest witness first"""
    pend = pending_findings()
    for key in sorted(groups):
        e = pending_match(key, pend)
        if e is not None:
            if key not in [k for k, _ in c.known_hits]:
                c.known_hits.append((key, f"pending repair {e['fix']}: {e['what']} ({len(groups[key])} witnesses)"))
            del groups[key]
    order = sorted(groups, key=lambda k: (0 if k.startswith("B:") else 1, k))
    for key in order[:limit]:
        items = groups[key]
        rep = dict(items[0])
        if "case" in rep:       # bundled files are named relative to the repository under test
            rep["case"] = rep["case"].replace(str(vlib.REPO), "$REPO")
        rep["class"] = key
        rep["witnesses_in_class"] = len(items)
        rep["other_witnesses"] = [i.get("fault") or i.get("case") for i in items[1:6]]
        rep["how_to_rerun"] = "python3 tools/check.py C17 --replay <this file>"
        c.violation(rep, rep.pop("_found", True), finding_key=key)
    if len(groups) > limit:
        c.oblige(f"{len(groups) - limit} further violation classes not written as replay files", False, order[limit:])


def check(c):
    c.trusted += ["harness/h_c17.c + tools/props/c17.py (fault generator, layout parsers, canonicalisation, diff)",
                  "clang ASan/UBSan/LSan as observers of out-of-bounds reads (exact-size heap copies in the in-memory path), null dereference, double free, leaks; waitpid/on_exit as observers of exit()/abort()",
                  "js/api.js + js/soundswallower.c initialisation sequence transcribed into the harness as the 'without memory mapping' path",
                  "Lean model = C code for what the correspondence did not exercise; ms_senone.c, float-valued checks (tmat topology), alignment of the in-place mdef tables and the cd_tree contents are not modelled"]
    c.assumptions += ["64-bit size_t, little-endian host; element sizes 1, 2, 4",
                      "a damaged binary mdef that the plan model accepts (ignored fields: version <= 1, sil; n_tmat over-declared in the in-memory path) with unchanged n_ciphone/n_sen is expected to load: it yields the same model",
                      "mmap path: an over-read inside the last mapped page is invisible to ASan; the in-memory path (exact-size heap block) observes it",
                      "feat_params.json / noisedict.txt faults are judged for cleanliness only (their parsers are the subject of C10/C14)"]
    if not c.lean_obligations():
        return
    binp0 = vlib.build_harness("h_c17", extra_flags=WRAP_FLAGS)
    binp = c.scratch / "h_c17"
    shutil.copy(binp0, binp)
    t_start = time.time()
    nw = min(10, max(4, vlib.NPROC - 4))
    stats = {"syn_files": {}, "b_files": {}}
    models = ["en-us"] if c.tier == "quick" else ["en-us", "fr-fr"]
    groups = {}

    def add_violation(stage, file, kind, sig, obj, found=True):
        obj["_found"] = found
        groups.setdefault(finding_key(stage, file, kind, sig), []).append(obj)

    # ---- stage A
    A = StageA(c, binp)
    corpus = sorted((vlib.ROOT / "corpus" / "C17").glob("s3-*.txt"))
    for f in corpus:
        for l in f.read_text().split("\n"):
            w = l.split()
            if len(w) >= 3 and not l.startswith("#"):
                cid = f"a{A.n}"; A.n += 1
                A.cases.append((cid, " ".join([cid] + w[1:]).replace("$REPO", str(vlib.REPO)),
                                {"target": w[1], "file": "corpus", "kind": "corpus"}))
    gen_stage_a(c, A, c.tier, stats)
    envs = {}
    infos = {}
    for tag in models:
        envs[tag] = prepare_model(c, tag)
        infos[tag] = gen_stage_a_real(c, A, c.tier, stats, vlib.REPO / "model" / tag, tag)
    # corpus of the flag family first, then the family (cases appended after the base enumeration: ids of the base
    # cases do not move)
    for f in sorted((vlib.ROOT / "corpus" / "C17").glob("flags-*.txt")):
        for l in f.read_text().split("\n"):
            w = l.split()
            if len(w) >= 3 and not l.startswith("#"):
                cid = f"a{A.n}"; A.n += 1
                A.cases.append((cid, " ".join([cid] + w[1:]).replace("$REPO", str(vlib.REPO)),
                                {"target": w[1], "file": "corpus", "kind": "corpus"}))
    gen_stage_a_flags(c, A, c.tier, stats, [(tag, vlib.REPO / "model" / tag) for tag in models])
    gen_stage_a_fds(c, A, c.tier, stats)
    cres, mres = A.run(nw)
    a_ok, a_bad, sites, a_kinds, model_sites, ledger_stages = 0, 0, {}, {}, {}, {}
    plan_accepts = {tag: {} for tag in models}
    for case in A.cases:
        cid, line, meta = case
        ok, info = judge_a(case, cres.get(cid), mres.get(cid))
        kk = f"{meta['target']}/{meta['kind']}"
        a_kinds[kk] = a_kinds.get(kk, 0) + 1
        ml = mres.get(cid, "")
        ms = ml.split("site=")[-1].split(" ledger=")[0].strip() if "site=" in ml else "-"
        model_sites[ms] = model_sites.get(ms, 0) + 1
        if ok:
            a_ok += 1
            sites[info["site"]] = sites.get(info["site"], 0) + 1
            if info.get("ledger_stage"):
                ledger_stages[info["ledger_stage"]] = ledger_stages.get(info["ledger_stage"], 0) + 1
            # remember what the plan model says about damaged bundled files (used as expectation in stage B)
            f = meta["file"]
            if "/" in f and f.split("/")[0] in plan_accepts:
                w = line.split()
                tag, fn = f.split("/")
                ed = w[3] if fn != "variances" else w[5]
                plan_accepts[tag][(fn, ed)] = info["core"].startswith("ok")
                if fn == "mdef" and info["core"].startswith("ok"):
                    plan_accepts[tag][("mdef-core", ed)] = info["core"].split()
        else:
            a_bad += 1
            add_violation("A", meta["file"], meta["kind"], info.get("sig", "differs"),
                          {"stage": "A (reader/loader level, in-memory)", "case": line[:3000], "why": info["why"],
                           "implementation": info.get("impl"), "model": info.get("model")},
                          found=info["impl_violates"])
    pend = pending_findings()
    a_pending = sum(len(v) for k, v in groups.items() if k.startswith("A:") and pending_match(k, pend))
    c.oblige(f"stage A: real reader/loaders (ASan/UBSan/LSan, exact-size buffers) = model on {len(A.cases)} cases"
             + (f" ({a_pending} witnesses of pending repairs reported as findings)" if a_pending else ""),
             a_bad - a_pending == 0, f"{a_bad - a_pending} cases differ / die")
    def accepted(l):
        core = l.split(" | ")[0].split(" ", 1)[-1]
        return core.startswith(("ok", "H:")) and not any(t in core for t in ("rej", "OOB", "IDX", "bad"))
    intact_ok = all(accepted(mres.get(cid, "")) for cid, _, m in A.cases if m["kind"] == "intact")
    # every error return of the model was exercised against the real code; the five listed ones are behind the
    # "count fits into the rest of the file" test of the repaired code and cannot be reached any more
    dead = {"Failed to read density data", "Failed to read transition matrix", "get(arraydata) failed",
            "read (feature-lengths) failed", "s3file_get (arraydata) failed"}
    src = (vlib.LEAN / "SSVerif" / "Model" / "S3file.lean").read_text() + \
        (vlib.LEAN / "SSVerif" / "Model" / "BinMdef.lean").read_text()
    all_sites = {m for m in re.findall(r'"([A-Za-z][^"\n]{6,})"', src) if not m.startswith("is extremely")}
    missed = sorted(x for x in all_sites - dead if x not in model_sites)
    c.oblige(f"stage A: all {len(all_sites - dead)} reachable error returns of the model were exercised against the implementation",
             not missed, missed)
    c.oblige("stage A: every intact synthetic/bundled file is accepted by the model (plans are not vacuous rejecters)", intact_ok)

    # the ledger tie: every failure stage of every ledger that the repaired code can reach was compared with a real trace
    want = ["tmat:header", "tmat:chksum", "tmat:ok", "rd:dims", "rd:mismatch", "rd:ok", "lda:header", "lda:chksum", "lda:dims", "lda:ok",
            "lda:LdaStage.array_(ArrStage.dims)", "lda:LdaStage.array_(ArrStage.mismatch)",
            "gau:ok", "gau:mismatch", "gau:GauStage.means_(ParamStage.header)", "gau:GauStage.means_(ParamStage.veclen)",
            "gau:GauStage.means_(ParamStage.chksum)", "gau:GauStage.vars_(ParamStage.header)", "gau:GauStage.vars_(ParamStage.veclen)",
            "gau:GauStage.vars_(ParamStage.chksum)", "mdef:pre", "mdef:counts", "mdef:tables", "mdef:seqs", "mdef:maps", "mdef:ok",
            "am:gauden", "am:checks", "am:sdHead", "am:sdRows", "am:mxHead", "am:nsen", "am:okSd", "am:okMx",
            # a second feat_read_lda_s3file with a previous matrix in place (hadOld = true), every stage
            "lda2:header", "lda2:chksum", "lda2:dims", "lda2:ok", "lda2:LdaStage.array_(ArrStage.dims)",
            "lda2:LdaStage.array_(ArrStage.mismatch)",
            # read completely, refused by tmat_chk_uppertri / tmat_chk_1skip
            "tmat:topology"]
    # not in the list: rd/lda ArrStage.data, tmat:row, gau ParamStage.data — dead code behind a length pre-check
    # (Props/C17Fuel.lean, C17_short_read_stages_dead)
    pend_fixes = {e["fix"] for k in groups for e in [pending_match(k, pend)] if e}
    if "D19l" in pend_fixes:        # the stage exists only in the repaired code (see corpus/C17/pending-findings.json)
        want.remove("am:nsen")
    miss = [w for w in want if w not in ledger_stages]
    c.oblige(f"ledger tie: the allocation trace of the implementation equals the ownership ledger at all {len(want)} reachable stages "
             f"({sum(ledger_stages.values())} traces compared)", not miss, {"stages never compared": miss})
    # ---- stage B
    b_total, b_kinds, b_sites, b_out = 0, {}, {}, {}
    b_cfgs = {}
    mm_stats = {"pairs": 0, "distinct_sizes": 0, "page_multiple_sizes": 0, "bad": [], "children_with_maps": 0}
    fd_stats = {"children": 0, "leaking": 0, "zero_length_mmap_loads": 0, "zero_length_mmap_files": set()}
    for tag in models:
        plan_accepts[tag]["__am__"] = model_assembly(c, tag, vlib.REPO / "model" / tag,
                                                     {k: v for k, v in plan_accepts[tag].items() if isinstance(k, tuple) and len(k) == 2 and k[0] != "mdef-core"})
        stats.setdefault("assembly_queries", {})[tag] = len(plan_accepts[tag]["__am__"])
        faults = gen_stage_b(c, c.tier, envs[tag][0], tag, stats)
        faults += gen_stage_b_flags(c, c.tier, envs[tag][0], tag, stats, faults)
        faults += gen_stage_b_fds(c, c.tier, envs[tag][0], tag, stats, faults)
        for corpf in (vlib.ROOT / "corpus" / "C17" / f"fds-{tag}.txt", vlib.ROOT / "corpus" / "C17" / f"decflags-{tag}.txt"):
          if corpf.exists():
            for l in corpf.read_text().split("\n"):
                w = l.split()
                if len(w) == 4 and not l.startswith("#"):
                    faults.insert(0, (w[0], w[1], w[2], dict(meta_of_edit(envs[tag][0], w[1], w[2]), **({"cfg": w[3]} if w[3] != "-" else {}))))
        corp = vlib.ROOT / "corpus" / "C17" / f"dec-{tag}.txt"
        if corp.exists():
            for l in corp.read_text().split("\n"):
                w = l.split()
                if len(w) == 3 and not l.startswith("#"):
                    faults.insert(0, (w[0], w[1], w[2], meta_of_edit(envs[tag][0], w[1], w[2])))
        res = run_stage_b(c, binp, tag, envs[tag], faults, nw)
        # mapping ledger: every (mapped, unmapped) pair of every child against mapLen of the model
        sizes = set()
        for d in res.values():
            if d.get("mm", "-") != "-":
                sizes |= {(int(pr.split(":")[0]), int(d.get("page", PAGE))) for pr in d["mm"].split(",")}
        mlens = model_maplens(sizes)
        mbad, mpairs, mlive = judge_maps(res, mlens)
        pm = sum(1 for a, pg in sizes if a % pg == 0)
        mm_stats["pairs"] += mpairs; mm_stats["distinct_sizes"] += len(sizes); mm_stats["page_multiple_sizes"] += pm
        mm_stats["bad"] += [x[1] for x in mbad[:5]]
        mm_stats["children_with_maps"] += sum(1 for d in res.values() if d.get("mmaps", "0") != "0")
        for i, txt in mbad[:3]:
            mode, fn, ed, meta = faults[i]
            add_violation("B", fn, meta["kind"], "maplen-differs",
                          {"stage": "B (mapping ledger)", "model": tag, "fault": {"path": mode, "file": fn, "edits": ed, "cfg": meta.get("cfg")},
                           "observed": (res.get(i) or {}).get("_line"), "why": txt}, found=False)
        for i, fault in enumerate(faults):
            d = res.get(i)
            if d and d.get("fds"):
                fd_stats["children"] += 1
                fd_stats["leaking"] += 1 if fd_leak(d) else 0
                if fault[2] == "t0" and fault[0] == "mmap":
                    fd_stats["zero_length_mmap_loads"] += 1
                    fd_stats["zero_length_mmap_files"].add(fault[1])
        for i, fault in enumerate(faults):
            mode, fn, ed, meta = fault
            d = res.get(i)
            exp = expected_b(fault, plan_accepts[tag], envs[tag][0])
            bad = judge_b(fault, d, exp)
            b_total += 1
            kk = f"{fn}/{meta['kind']}/{mode}"
            b_kinds[kk] = b_kinds.get(kk, 0) + 1
            b_cfgs[meta.get("cfg", "-")] = b_cfgs.get(meta.get("cfg", "-"), 0) + 1
            if d:
                b_out[d.get("fault", "died")] = b_out.get(d.get("fault", "died"), 0) + 1
                b_sites[d.get("site", "-")] = b_sites.get(d.get("site", "-"), 0) + 1
            if bad:
                add_violation("B", fn, meta["kind"] if meta["kind"] != "magic" else "field", bad[0],
                              {"stage": "B (decoder_init with a damaged model directory)", "model": tag,
                               "fault": {"path": mode, "file": fn, "edits": ed, "field": meta.get("field"),
                                         **({"cfg": meta["cfg"]} if meta.get("cfg") else {})},
                               "observed": (d or {}).get("_line"), "expected": exp, "why": f"{bad[0]}: {bad[1]}"})
    nb = sum(len(v) for k, v in groups.items() if k.startswith("B:") and not pending_match(k, pend))
    c.oblige(f"stage B: {b_total} single faults over {models}: rejected (or benign, as predicted) without exit/abort/sanitizer report/leak, intact model loads afterwards",
             nb == 0, f"{nb} faults violate")
    c.oblige(f"mapping ledger: every munmap of the implementation names a live mapping and is given mapLen(file size) of the model "
             f"({mm_stats['pairs']} releases in {mm_stats['children_with_maps']} children, {mm_stats['distinct_sizes']} distinct file sizes, "
             f"{mm_stats['page_multiple_sizes']} of them whole pages)",
             not mm_stats["bad"] and mm_stats["pairs"] > 0 and mm_stats["page_multiple_sizes"] > 0, mm_stats["bad"])
    a_fd = sum(1 for cid, _, _ in A.cases if " fdsend=" in (cres.get(cid) or ""))
    need0 = {"mdef", "means", "variances", "sendump", "transition_matrices", "noisedict.txt", "dict.txt"}
    c.oblige(f"descriptor ledger: every load attempt leaves the process with exactly the open file descriptors it had before "
             f"({fd_stats['children']} stage-B children: fds= around the damaged load, fdsend= start/end of the child; {a_fd} stage-A children; "
             f"{fd_stats['zero_length_mmap_loads']} loads of a zero-length file through the mapping route over "
             f"{len(fd_stats['zero_length_mmap_files'])} files)",
             fd_stats["leaking"] == 0 and fd_stats["children"] > 0 and a_fd == len(A.cases) - sum(1 for cid, _, _ in A.cases if " | " not in (cres.get(cid) or ""))
             and need0 <= fd_stats["zero_length_mmap_files"],
             {"leaking_children": fd_stats["leaking"], "files_never_mapped_at_length_0": sorted(need0 - fd_stats["zero_length_mmap_files"])})
    fa = stats.get("flag_family_stageA", {})
    c.oblige(f"configuration family: the reader with a flag argument was run under both values ({fa.get('cionly=1', 0)} faults with cionly=1, "
             f"{fa.get('cionly=0', 0)} with cionly=0, {fa.get('cut_in_tree', 0)} cuts inside a cd_tree, {fa.get('n_cd_tree_field', 0)} corrupted tree counts); "
             f"stage B under {len(b_cfgs) - 1} non-default configurations",
             fa.get("cionly=1", 0) > 0 and fa.get("cut_in_tree", 0) > 0 and fa.get("n_cd_tree_field", 0) > 0 and len(b_cfgs) > len(CONFIGS),
             {"stageB_by_config": b_cfgs})
    report(c, groups)
    distinct = len({l.split(" ", 1)[1] for _, l, _ in A.cases}) + b_total
    c.cov.update({"evaluations": len(A.cases) + b_total, "distinct_nontrivial": distinct,
                  "rule": "stage A: distinct (target, bytes, edit) cases, each runs the real reader/loader and the model; "
                          "stage B: distinct (model, path, file, edit) single faults, each = decoder_init on the damaged directory + leak check + intact reload in a forked child",
                  "stageA_cases": len(A.cases), "stageA_agree": a_ok, "stageA_by_target_kind": a_kinds,
                  "stageA_reject_sites_reached_in_C": dict(sorted(sites.items(), key=lambda x: -x[1])[:60]),
                  "stageA_model_outcomes_by_site": dict(sorted(model_sites.items(), key=lambda x: -x[1])[:60]),
                  "synthetic_files": stats["syn_files"], "ledger_traces_compared_by_stage": dict(sorted(ledger_stages.items())), "stageB_faults": b_total, "stageB_by_file_kind_path": b_kinds,
                  "stageB_outcomes": b_out, "stageB_reject_sites": dict(sorted(b_sites.items(), key=lambda x: -x[1])[:50]),
                  "bundled_files_bytes": stats["b_files"], "assembly_cases_by_kind": stats.get("am_kinds"),
                  "stageB_expectations_from_assembly_model": stats.get("assembly_queries"), "models": models, "workers": nw,
                  "flag_family_stageA": stats.get("flag_family_stageA"), "flag_family_stageB": stats.get("flag_family_stageB"),
                  "stageB_by_config": b_cfgs, "mapping_ledger": {k: v for k, v in mm_stats.items() if k != "bad"},
                  "descriptor_ledger": {"stageB_children": fd_stats["children"], "stageB_leaking": fd_stats["leaking"],
                                        "zero_length_mmap_loads": fd_stats["zero_length_mmap_loads"],
                                        "zero_length_mmap_files": sorted(fd_stats["zero_length_mmap_files"]),
                                        "stageA_children_with_ledger": a_fd},
                  "fd_family_stageA": stats.get("fd_family_stageA"), "fd_family_stageB": stats.get("fd_family_stageB"),
                  "violation_classes": sorted(groups), "wall_enumeration_s": round(time.time() - t_start, 1)})
    for cid, line, meta in A.cases[:3]:
        c.samples.append({"stageA": line[:200], "impl": (cres.get(cid) or "")[:200], "model": (mres.get(cid) or "")[:200]})


def replay(c, path):
    c.lean_obligations()
    binp0 = vlib.build_harness("h_c17", extra_flags=WRAP_FLAGS)
    binp = c.scratch / "h_c17"
    shutil.copy(binp0, binp)
    obj = json.loads(open(path).read())
    groups = {}
    if "case" in obj:
        A = StageA(c, binp)
        w = obj["case"].replace("$REPO", str(vlib.REPO)).split()
        A.cases.append(("a0", " ".join(["a0"] + w[1:]), {"target": w[1], "file": "replay", "kind": "trunc", "must_reject": True}))
        cres, mres = A.run(1)
        ok, info = judge_a(A.cases[0], cres.get("a0"), mres.get("a0"))
        c.oblige("replayed stage-A case agrees", ok, info)
        if not ok:
            c.violation({"stage": "A", "case": obj["case"], "why": info["why"], "implementation": info.get("impl"),
                         "model": info.get("model")}, info["impl_violates"])
    else:
        tag = obj["model"]
        env = prepare_model(c, tag)
        f = obj["fault"]
        fault = (f["path"], f["file"], f["edits"], dict(meta_of_edit(env[0], f["file"], f["edits"]),
                                                         **({"cfg": f["cfg"]} if f.get("cfg") else {})))
        res = run_stage_b(c, binp, tag, env, [fault], 1)
        bad = judge_b(fault, res.get(0), obj.get("expected") or expected_b(fault, {}, env[0]))
        c.oblige("replayed stage-B fault is handled cleanly", bad is None, bad)
        if bad:
            c.violation({"stage": "B", "model": tag, "fault": f, "observed": (res.get(0) or {}).get("_line"),
                         "expected": obj.get("expected"), "why": f"{bad[0]}: {bad[1]}"}, True)
    c.cov.update({"evaluations": 1, "distinct_nontrivial": 1})
