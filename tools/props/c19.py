"""C19 — log-domain addition is accurate, commutative and monotone (src/logmath.c).

Lean: SSVerif/Props/C19.lean — generic theorems about the model `logAdd` for every table with
`TableOK`, kernel-checked shape + exact accuracy (`AccAt`, in N after cross-multiplication) of the
tables dumped from `logmath_init` of the current build for every (base, shift) the code base
instantiates, and the integer side of `logmath_log` / `logmath_exp`.

Tie: (1) the tables are re-dumped from the freshly built library on every run
(tools/gen_logtables.py); a changed table is re-proved by `lake build` or stops checking.
(2) `harness/h_c19.c` runs the real `logmath_add` / `logmath_log` / `logmath_exp` (ASan/UBSan) on
exhaustive difference sweeps `0 .. size+2` at several offsets and in both argument orders, at the
range ends, with log-zero on either side, on random pairs and on a sweep of probabilities; the same
ops run on the model's own definitions (`ssdriver c19`), outputs diffed.
Oracle (implementation side): the property itself — identity of log-zero, symmetry, bounds,
accuracy of `result - max` against `log_B(1 + B^-d)` (float screening, exact big-integer arithmetic
at the boundary), monotonicity along each sweep, and the log/exp round trip in exact rational
arithmetic — is evaluated in Python on what the C code returned.

(3) HISTORY family: in ONE harness process (`h_c19 hist`) logmath objects are created, retained, freed and
re-created in generated orders (a tour through every ordered pair "X freed, then Y created" of the
kernel-proved configurations and a few others, a fixed two-live-objects scenario, random multi-slot
histories with retain/free interleavings and decoder-owned objects: decoder_create -> decoder_logmath ->
decoder_free -> new decoder with another logbase).  After every creation (and after every free, for the
objects that stay alive) the object's whole table is dumped and must EQUAL, entry for entry, the table in
lean/SSVerif/Generated/LogTables.lean that the kernel proof is about (for the other configurations: the
table dumped from a fresh process and judged by the exact oracle), and difference sweeps on the object are
judged by the oracle and diffed against the model.  This is what makes the theorems apply to every object
of a history, not only to the first object of a fresh process.

Known finding D20: `logmath_log` truncates toward zero, so `exp(log p) > p` for `p < 1` whenever
`log_b p` is not an integer (witness p = 0.5, base 1.0001, shift 0: -6931 > -6931.8).
"""
import json, math, shutil
from fractions import Fraction
import vlib, gen_logtables

KEY_D20 = "D20-logmath_log-truncates-toward-zero"
INT_MIN, INT_MAX = -2 ** 31, 2 ** 31 - 1
DTOL = 2 ** 20           # delta = 1/DTOL, as in Config.acc
BAND = 1e-6              # float screening band around the tolerance; inside it exact arithmetic decides


class Cfg:
    def __init__(self, name, base, fr, shift, hdr, vals, label=None):
        self.name, self.base, self.fr, self.shift, self.hdr, self.vals = name, base, fr, shift, hdr, vals
        self.dyn, self.label = name == "dyn", label or name
        self.size, self.zero, self.width = hdr["size"], hdr["zero"], hdr["width"]
        self.P, self.Q = fr.numerator ** (2 ** shift), fr.denominator ** (2 ** shift)
        self.lnB = math.log1p(float(fr - 1)) * (2 ** shift)
        self.eps = math.log1p(1.0 / DTOL) / self.lnB
        self.cache = {}
        self.exact_calls = 0
        self._t0max = None
        self.line = None          # the harness op that creates this configuration, when it is not `cfg`
        self.exact_limit = 3 * 10 ** 7   # bit budget of one exact big-integer decision

    @property
    def t0max(self):
        if self._t0max is None:
            l0 = math.log(2.0) / self.lnB
            self._t0max = max([k for k in range(max(0, int(l0) - 1), int(l0) + 3) if self.acc_ok(0, k)] or [-1])
        return self._t0max

    def cfg_line(self):
        return self.line or f"cfg {self.name} {self.base} {self.shift}"

    def driver_cfg_line(self):
        """generated configurations are looked up by name in the Lean library; a dynamic one hands the
        table dumped in this run to the model"""
        if self.line and self.line.startswith("cfg0 "):
            return f"cfgnotab {self.name} {self.shift}"
        if not self.dyn:
            return self.cfg_line()
        return f"cfgdyn {self.name} {self.shift} " + ",".join(f"{v}:{n}" for v, n in gen_logtables.rle(self.vals))

    def corr(self, d):
        """log_B(1 + B^-d) in double precision (screening only)"""
        return math.log1p(math.exp(-d * self.lnB)) / self.lnB

    def exact_acc(self, d, k):
        """the statement AccAt P Q D d k of the Lean development, in exact integer arithmetic"""
        P, Q, D = self.P, self.Q, DTOL
        if (2 * d + 2 * k + 2) * P.bit_length() > self.exact_limit:
            return True      # too large for exact arithmetic: inside the 1e-6 screening band, accepted
        X, Y = P ** d, Q ** d
        lower = True if k == 0 else P ** (2 * k - 1) * X * X * (D - 1) ** 2 <= (X + Y) ** 2 * Q ** (2 * k - 1) * D * D
        upper = (X + Y) ** 2 * Q ** (2 * k + 1) * D * D <= P ** (2 * k + 1) * X * X * (D + 1) ** 2
        return lower and upper

    def acc_ok(self, d, k):
        if k < 0:
            return False
        key = (d, k)
        r = self.cache.get(key)
        if r is None:
            dev, tol = abs(k - self.corr(d)), 0.5 + self.eps
            if dev <= tol - BAND:
                r = True
            elif dev >= tol + BAND:
                r = False
            else:
                self.exact_calls += 1
                r = self.exact_acc(d, k)
            self.cache[key] = r
        return r


def load_cfgs():
    return {n: Cfg(n, b, fr, s, hdr, vals) for n, (b, fr, s, hdr, vals) in gen_logtables.dump_all().items()}


# --------------------------------------------------------------------------
# the property, evaluated on implementation results

def judge_add(cfg, x, y, r):
    """None when `r` is an acceptable value of logmath_add(x, y) under the property, else the reason"""
    z = cfg.zero
    if x <= z:
        return None if r == y else f"log-zero on the left is not the identity: expected {y}"
    if y <= z:
        return None if r == x else f"log-zero on the right is not the identity: expected {x}"
    m, d = max(x, y), abs(x - y)
    k = r - m
    if k < 0:
        return f"result smaller than the larger argument {m}"
    if k > cfg.t0max:
        return f"result exceeds the larger argument by {k} > round(log_B 2) = {cfg.t0max}"
    if not cfg.acc_ok(d, k):
        return (f"inaccurate: result - max = {k} but log_B(1 + B^-{d}) = {cfg.corr(d):.6f} "
                f"(tolerance 0.5 + {cfg.eps:.6f})")
    return None


def judge_table(cfg, sample=False):
    """shape and accuracy of the dumped table itself (search for a failing input when a table
    obligation breaks): returns a list of (d, reason).  `sample`: for very long tables only the
    first 5000, every 53rd and the last 300 entries"""
    bad, t = [], cfg.vals
    ds = range(len(t))
    if sample and len(t) > 20000:
        ds = sorted(set(range(5000)) | set(range(0, len(t), 53)) | set(range(len(t) - 300, len(t))))
    for d in ds:
        nxt = t[d + 1] if d + 1 < len(t) else 0
        if nxt > t[d]:
            bad.append((d, f"table increases: t[{d}] = {t[d]} < t[{d+1}] = {nxt}"))
        elif t[d] > nxt + 1:
            bad.append((d, f"table drops by more than one: t[{d}] = {t[d]}, next = {nxt}"))
        if not cfg.acc_ok(d, t[d]):
            bad.append((d, f"inaccurate entry: t[{d}] = {t[d]} but log_B(1 + B^-{d}) = {cfg.corr(d):.6f}"))
        if len(bad) >= 5:
            break
    for d in (len(t), len(t) + 1, 2 * len(t)):
        if not cfg.acc_ok(d, 0):
            bad.append((d, f"beyond the table the implicit 0 is inaccurate: log_B(1 + B^-{d}) = {cfg.corr(d):.6f}"))
    return bad


def judge_log(cfg, L, ppos, m, e):
    """round trip of one logmath_log result: returns (reason or None, finding_key or None)"""
    if not ppos:
        return (None, None) if L == cfg.zero else (f"log of a non-positive number is {L}, not zero = {cfg.zero}", None)
    v = Fraction(m) * (Fraction(2) ** e)
    unit = 2 ** cfg.shift
    if not v < (L + 1) * unit:
        return f"loses one unit or more: v = {float(v):.6f} >= (L+1)*2^shift = {(L + 1) * unit}", None
    if not L * unit <= v:
        tr = math.trunc(v)
        if v < 0 and v.denominator != 1 and L == tr >> cfg.shift:
            return (f"exp(log p) > p: log_b p = {float(v):.6f} is truncated toward zero to {tr}, "
                    f"result {L} * 2^{cfg.shift} = {L * unit} > {float(v):.6f}"), KEY_D20
        return f"exp(log p) > p: v = {float(v):.6f} < L*2^shift = {L * unit} (not the truncation pattern)", None
    return None, None


# --------------------------------------------------------------------------
# generators

def gen_ops(cfg, rng, tier, stats, light=False):
    """harness op list for one configuration; every op is (text, meta).  `light`: the reduced set
    used for the dynamically dumped tables (width-boundary and random bases)"""
    ops = [(cfg.cfg_line(), None), ("tab", None)]
    n, z, t0 = cfg.size + 3, cfg.zero, max(max(cfg.vals[:4]), 1)   # (not vals[0] alone: robust against a wrapped first entry)
    noffs = 2 if tier == "quick" else 30
    offs = [0, -1 - rng.below(5000), rng.range(1, 200000), z + n + 5 + rng.below(1000)]
    offs += [-(rng.below(-z - n - 10)) for _ in range(noffs)]
    if tier == "quick" and cfg.size > 10000:
        offs = [offs[0], offs[3]] + offs[-2:]
    if light:
        offs = [0, -1 - rng.below(5000)]
    for x0 in offs:
        if light and cfg.size > 20000:
            # long dynamic table: the first 3000 differences and the table end, both orders
            for d0, cnt in ((0, 3000), (cfg.size - 60, 63)):
                ops.append((f"sweep {x0} {x0 - d0} 0 -1 {cnt}", ("pair", len(ops) + 1)))
                ops.append((f"sweep {x0 - d0} {x0} -1 0 {cnt}", ("pairof", len(ops) - 1)))
            stats["partial_sweeps"] = stats.get("partial_sweeps", 0) + 4
            continue
        # all differences 0 .. size+2, the moving argument below the fixed one, both orders
        ops.append((f"sweep {x0} {x0} 0 -1 {n}", ("pair", len(ops) + 1)))
        ops.append((f"sweep {x0} {x0} -1 0 {n}", ("pairof", len(ops) - 1)))
        stats["full_sweeps"] += 2
    # the moving argument rises through the fixed one (monotonicity across x = y) and far above it
    for _ in range(2 if light else 4 if tier == "quick" else 100):
        y0 = -rng.below(min(-z - 2 * n, 10 ** 8))
        w = rng.choice([20, 3 * t0, min(n, 3000)])
        ops.append((f"sweep {y0 - w} {y0} 1 0 {2 * w}", None))
        ops.append((f"sweep {y0} {y0 - w} 0 1 {2 * w}", None))
        stats["crossing_sweeps"] += 2
    # around log-zero, on either side, and the ends of the int range
    for a in (z - 2, z - 1, z, z + 1, z + 2):
        ops.append((f"sweep {a} {z - 3} 0 1 8", None))
        ops.append((f"sweep {z - 3} {a} 1 0 8", None))
        for b in (-5, 0, z + t0, INT_MIN, INT_MIN + 1, z + 1, z, 12345):
            ops.append((f"add {a} {b}", None))
            ops.append((f"add {b} {a}", None))
    for a, b in ((INT_MIN, INT_MIN), (INT_MIN, -7), (-7, INT_MIN), (INT_MAX, INT_MAX - n), (INT_MAX - n, INT_MAX),
                 (INT_MAX - t0, INT_MAX - t0), (INT_MAX - t0, INT_MAX - t0 - 1), (INT_MAX - 1, z + 2 ** 31 - 2),
                 (0, 0), (1, 0), (0, 1), (z + 1, z + 1), (z + 1, z + 2), (z + 1, 0), (0, z + 1)):
        ops.append((f"add {a} {b}", None))
    stats["edge_adds"] += 5 * 16 + 15
    # table end: differences size-2 .. size+2 exactly
    for x0 in (0, -77, 31337):
        for d in range(max(cfg.size - 2, 0), cfg.size + 3):
            ops.append((f"add {x0} {x0 - d}", None))
            ops.append((f"add {x0 - d} {x0}", None))
    # random pairs, log-uniform difference
    for _ in range(300 if light else 2000 if tier == "quick" else 200000):
        x = rng.range(z - 3, 10 ** 6) if rng.chance(0.1) else -rng.below(min(-z, 10 ** (1 + rng.below(9))))
        d = rng.below(10 ** (1 + rng.below(6)))
        y = x - d if rng.chance(0.5) else x + d
        if y < INT_MIN or y > 10 ** 7:
            y = x
        ops.append((f"add {x} {y}", None))
        stats["random_adds"] += 1
    # conversions
    b = cfg.fr.numerator / cfg.fr.denominator
    ps = [0.5, 1.0, 2.0, 42.0, 1e-150, 1e-48, 5e-324, 1.7976931348623157e308, 0.0, -1.0, -0.0,
          math.nextafter(1.0, 0.0), math.nextafter(1.0, 2.0), 1e-3, 5e-3, 6e-48]
    for _ in range(40 if light else 300 if tier == "quick" else 50000):
        kind = rng.below(4)
        if kind == 0:
            ps.append(math.ldexp(1.0 + rng.below(2 ** 52) / 2.0 ** 52, -1 - rng.below(1000)))
        elif kind == 1:
            ps.append(math.ldexp(1.0 + rng.below(2 ** 52) / 2.0 ** 52, rng.below(1000)))
        elif kind == 2:
            k = rng.range(-60000, 60000) * (2 ** cfg.shift if rng.chance(0.5) else 1)
            try:
                ps.append(b ** k)          # log_b p within rounding of an integer, either side
            except OverflowError:
                ps.append(1.0)
        else:
            ps.append((rng.below(10 ** 6) + 1) / 10.0 ** 6)
    for p in ps:
        if p != p or p in (float("inf"), float("-inf")) or (p > 0 and abs(math.log(p) / math.log(b)) > 2.0e9):
            continue
        ops.append((f"log {float(p).hex()}", None))
        stats["log_ops"] += 1
    lmax = int(690.0 / math.log(b)) >> cfg.shift
    # |l << shift| * ln b <= 690: pow() stays finite and non-zero, so the harness can recover the exponent
    ls = [0, 1, -1, lmax, -lmax, -6931 >> cfg.shift] + [rng.range(-lmax, lmax) for _ in range(20 if light else 100 if tier == "quick" else 5000)]
    for l in ls:
        l = max(-lmax, min(lmax, l))
        ops.append((f"exp {l}", None))
        stats["exp_ops"] += 1
    return ops


# --------------------------------------------------------------------------
# running one op list on both sides

def driver_ops(ops, hout, cfg=None):
    """the driver sees the same ops, except that `log`/`exp` are replaced by the integer
    post/pre-processing ops, fed with the exact double the harness reports"""
    res = []
    for op, line in zip(ops, hout):
        w = op.split()
        if w[0] == "log":
            f = line.split()
            if len(f) == 5 and f[0] == "l":
                ppos, m, e = int(f[2]), int(f[3]), int(f[4])
                num, den = (m * 2 ** e, 1) if e >= 0 else (m, 2 ** (-e))
                res.append(f"logpost {ppos} {num} {den}")
            else:
                res.append("bad-harness-line")
        elif w[0] == "exp":
            res.append(f"exparg {w[1]}")
        elif w[0] in ("cfg", "cfg0") and cfg is not None and (cfg.dyn or cfg.line):
            res.append(cfg.driver_cfg_line())
        else:
            res.append(op)
    return res


def sweep_args(op):
    w = op.split()
    if w[0] == "add":
        return int(w[1]), int(w[2]), 0, 0, 1
    return int(w[1]), int(w[2]), int(w[3]), int(w[4]), int(w[5])


def run_case(c, binp, cfg, ops, metas=None, stats=None, _depth=0):
    """run the ops on the real code and on the model; returns a list of problem dicts"""
    text = "\n".join(ops) + "\n"
    rc, out, err = vlib.run_bin(binp, stdin_text=text, timeout=1800)
    hout = out.split("\n")[:-1]            # complete lines only (a crash may leave a partial one)
    problems = []
    if rc != 0 or len(hout) != len(ops):
        last = ops[len(hout)] if len(hout) < len(ops) else ops[-1]
        if last.startswith("sweep") and _depth == 0:
            # shrink: replay the sweep as single adds; the first one that does not return is the witness
            x, y, dx, dy, n = sweep_args(last)
            singles = [ops[0]] + [f"add {x + j * dx} {y + j * dy}" for j in range(n)]
            sub = run_case(c, binp, cfg, singles, _depth=1)
            problems += [p for p in sub if p["kind"] == "harness-abort"] or \
                [{"kind": "harness-abort", "op": last, "exit_code": rc, "stderr_tail": err[-2500:], "impl_violates": True,
                  "reason": "the real code did not return (sanitizer report / abort) inside this sweep"}]
        else:
            problems.append({"kind": "harness-abort", "op": last, "exit_code": rc, "stderr_tail": err[-2500:],
                             "impl_violates": True,
                             "reason": "the real code did not return (sanitizer report / abort) on this op"})
        ops = ops[:len(hout)]
        if len(ops) < 2:
            return problems
    dops = driver_ops(ops, hout, cfg)
    rc2, mout, merr = vlib.run_driver("c19", "\n".join(dops) + "\n", timeout=1800)
    mlines = mout.rstrip("\n").split("\n") if mout.strip() else []
    if rc2 != 0 or len(mlines) != len(ops):
        problems.append({"kind": "driver-error", "reason": f"ssdriver c19 exit {rc2}, {len(mlines)} lines for {len(ops)} ops",
                         "stderr_tail": merr[-800:], "impl_violates": False})
        return problems
    sweeps = {}
    for i, (op, hl, ml) in enumerate(zip(ops, hout, mlines)):
        w = op.split()
        if w[0] in ("add", "sweep"):
            x, y, dx, dy, n = sweep_args(op)
            hv = [int(t) for t in hl.split()[1:]]
            mv = [int(t) for t in ml.split()[1:]]
            sweeps[i] = hv
            if len(hv) != n:
                problems.append({"kind": "harness-line", "op": op, "reason": f"{len(hv)} values for {n}", "impl_violates": False})
                continue
            prev = None
            for j, r in enumerate(hv):
                xj, yj = x + j * dx, y + j * dy
                why = judge_add(cfg, xj, yj, r)
                if why is None and prev is not None and (dx > 0 or dy > 0) and r < prev:
                    why = f"not monotone: previous result {prev} for the smaller argument"
                if why is None and prev is not None and (dx < 0 or dy < 0) and r > prev:
                    why = f"not monotone: previous result {prev} for the larger argument"
                prev = r
                mr = mv[j] if j < len(mv) else None
                if why is not None or mr != r:
                    problems.append({"kind": "add", "op": f"add {xj} {yj}", "from": op, "impl": r, "model": mr,
                                     "reason": why or "implementation and model differ (the implementation's value satisfies the property)",
                                     "impl_violates": why is not None,
                                     "finding_key": KEY_D50 if why is not None and xj > cfg.zero and yj > cfg.zero and
                                     d50_pattern(cfg, abs(xj - yj)) and r - max(xj, yj) == 256 ** cfg.width - 1 else None})
                    break
            if stats is not None:
                stats["adds_evaluated"] += n
            if metas and metas[i] and metas[i][0] == "pairof":
                other = sweeps.get(metas[i][1])
                if other is not None and other != hv:
                    j = next(k for k in range(min(len(other), len(hv))) if other[k] != hv[k])
                    problems.append({"kind": "add", "op": f"add {x + j * dx} {y + j * dy}", "from": op, "impl": hv[j],
                                     "swapped": other[j], "reason": "not symmetric: the swapped call returned a different value",
                                     "impl_violates": True})
        elif w[0] == "log":
            f = hl.split()
            L, ppos, m, e = int(f[1]), int(f[2]), int(f[3]), int(f[4])
            why, key = judge_log(cfg, L, ppos, m, e)
            mL = int(ml.split()[1]) if ml.startswith("l ") else None
            if stats is not None:
                v = Fraction(m) * Fraction(2) ** e if ppos else None
                cls = "non-positive" if not ppos else ("p<1 non-integer" if v < 0 and v.denominator != 1 else
                                                       "p<1 integer" if v < 0 else "p>=1")
                stats["log_classes"][cls] = stats["log_classes"].get(cls, 0) + 1
            if why is not None:
                problems.append({"kind": "log", "op": op, "impl": L, "model": mL, "value_mantissa_exp": [m, e],
                                 "reason": why, "impl_violates": True, "finding_key": key})
            if mL != L:
                problems.append({"kind": "log", "op": op, "impl": L, "model": mL, "value_mantissa_exp": [m, e],
                                 "reason": "implementation and model differ on the integer post-processing",
                                 "impl_violates": False})
        elif w[0] == "exp":
            f, g = hl.split(), ml.split()
            if len(f) == 3 and f[1] == "oor":
                if abs(int(w[1])) * cfg.lnB <= 700.0:
                    problems.append({"kind": "exp", "op": op, "impl": "0 or inf", "model": ml,
                                     "reason": f"logmath_exp returned 0 or inf although base^(l << shift) = e^{int(w[1]) * cfg.lnB:.2f} "
                                               "is representable: a positive probability is lost entirely (more than one unit)",
                                     "impl_violates": True})
                    continue
                # pow() under/overflowed: the exponent cannot be recovered from the result; outside the modelled range
                if stats is not None:
                    stats["exp_out_of_range"] = stats.get("exp_out_of_range", 0) + 1
                continue
            if f[0] != "e" or g[0] != "e" or f[1] != g[1] or f[2] != "1":
                problems.append({"kind": "exp", "op": op, "impl": hl, "model": ml,
                                 "reason": "exponent handed to pow() differs from l << shift", "impl_violates": False})
        else:
            if hl != ml:
                problems.append({"kind": w[0], "op": op, "impl": hl, "model": ml,
                                 "reason": "implementation and model differ", "impl_violates": False})
    return problems


def report(c, cfg, problems, label):
    """turn problems into violations (one per kind and finding key); returns True when clean
    apart from known findings"""
    clean, seen = True, set()
    for p in problems:
        key = p.get("finding_key")
        tag = (p["kind"], key, p["impl_violates"])
        if tag in seen:
            continue
        seen.add(tag)
        ops = [cfg.cfg_line(), p.get("op", "tab")]
        replay = dict(p)
        replay.update({"config": cfg.name, "base": cfg.base, "shift": cfg.shift, "ops": ops, "where": label,
                       "implementation_violates_property": p["impl_violates"],
                       "how_to_rerun": "python3 tools/check.py C19 --replay <this file>"})
        before = len(c.violations)
        c.violation(replay, p["impl_violates"], finding_key=key)
        if len(c.violations) != before:
            clean = False
            if not p["impl_violates"]:
                c.oblige(f"correspondence model = implementation ({label}, {p['kind']})", False, p)
    return clean


KEY_D50 = "D50-logmath_init-width-estimate-floors-shifted-log2"


def d50_pattern(cfg, d):
    """the witness class of D50: shift > 0, distance 0, the correctly rounded first entry is the
    first value that does not fit the element width logmath_init chose, and the stored entry is
    the largest value that does"""
    lim = 256 ** cfg.width
    return cfg.shift > 0 and d == 0 and cfg.vals[0] == lim - 1 and cfg.acc_ok(0, lim) and not cfg.acc_ok(0, lim - 1)


def check_table(c, cfg, sample=False):
    """implementation-side evaluation of the table obligations of one configuration (also the
    search for a failing input when a generated-table theorem stops checking); records a
    violation with a concrete `add` as replay; returns the list of bad entries"""
    bad = judge_table(cfg, sample)
    if bad:
        d, why = bad[0]
        c.violation({"kind": "table", "config": cfg.label, "base": cfg.base, "shift": cfg.shift, "width": cfg.width,
                     "distance": d, "table_entry": cfg.vals[d] if d < cfg.size else 0, "table_head": cfg.vals[:4],
                     "reason": why, "ops": [cfg.cfg_line(), f"add 0 {-d}"],
                     "implementation_violates_property": True,
                     "how_to_rerun": "python3 tools/check.py C19 --replay <this file>"}, True, tag="table",
                    finding_key=KEY_D50 if d50_pattern(cfg, d) else None)
    return bad


def check_tables(c, cfgs):
    ok = True
    for cfg in cfgs.values():
        bad = check_table(c, cfg)
        c.oblige(f"oracle: dumped table `{cfg.name}` (base {cfg.base}, shift {cfg.shift}, {cfg.size} entries) is "
                 f"non-increasing, 1-Lipschitz and accurate at every entry and beyond", not bad, bad[:3])
        ok &= not bad
    return ok


def dyn_specs(rng, tier):
    """(log_b 2 in base units, shift, label) of the bases whose tables are dumped and judged in this
    run without a generated Lean table: bases around the 1-byte/2-byte and 2-byte/4-byte
    element-width boundaries (where round(log_b 2 / 2^shift) is 256 or 65536 while the floor is
    one less, and just on either side), at several shifts, plus random bases"""
    specs = []
    quick = tier == "quick"
    for bd, shifts in ((256, (0, 1, 8, 10)), (65536, (0, 1))):
        for sh in shifts:
            fr = (-0.25,) if quick and (bd == 65536 or sh in (8, 10)) else (-0.25, 0.2) if quick else (-0.25, -0.45, -0.04, 0.2, -0.6)
            for f in fr:
                specs.append(((bd + f) * 2 ** sh, sh, f"width boundary {bd}{f:+g}, shift {sh}"))
    for i in range(4 if quick else 40):
        sh = rng.below(5)
        t0 = math.exp(math.log(3.0) + (rng.below(10 ** 6) / 1e6) * math.log(1000.0))     # 3 .. 3000, log-uniform
        if rng.chance(0.25):
            t0 = 256 - rng.below(1000) / 1000.0
        specs.append((t0 * 2 ** sh, sh, f"random base, log_b 2 / 2^shift = {t0:.3f}, shift {sh}"))
    return specs


def topbit_specs(tier):
    """(base, shift, label) of bases whose 2-byte table needs the TOP BIT of its elements:
    round(log_b 2 / 2^shift) in [32768, 65536) — logmath_init picks the element width from that value
    (`maxyx < 256` -> 1, `< 65536` -> 2, else 4 bytes), so these are accepted with width 2 and the first
    ~3850 entries are >= 32768 (a signed 16-bit read would turn them negative)"""
    specs = [("1.00002", 0, "top-bit 16-bit table, base 1.00002 shift 0 (t[0] = 34658)"),
             ("1.00001", 1, "top-bit 16-bit table, base 1.00001 shift 1 (t[0] = 34658)")]
    if tier != "quick":
        specs += [("1.000011", 0, "top-bit 16-bit table, base 1.000011 shift 0 (t[0] = 63014)"),
                  ("1.0000025", 3, "top-bit 16-bit table, base 1.0000025 shift 3 (t[0] = 34657)")]
    return [(float(b).hex(), sh, label) for b, sh, label in specs]


def load_dyn(binp, base_hex, shift, label=None):
    hdr, vals = gen_logtables.dump_log_table(binp, base_hex, shift)
    fr = Fraction(float.fromhex(base_hex)) if "x" in base_hex.lower() else Fraction(base_hex)
    return Cfg("dyn", base_hex, fr, shift, hdr, vals, label)


def branch_coverage(cfg, ops):
    lines = [cfg.driver_cfg_line()]
    for op in ops:
        w = op.split()
        if w[0] == "sweep":
            lines.append("branches " + " ".join(w[1:]))
        elif w[0] == "add":
            lines.append(f"branches {w[1]} {w[2]} 0 0 1")
    rc, out, _ = vlib.run_driver("c19", "\n".join(lines) + "\n", timeout=900)
    tot = {}
    for l in out.split("\n"):
        if l.startswith("b "):
            for t in l.split()[1:]:
                k, v = t.rsplit(":", 1)
                tot[k] = tot.get(k, 0) + int(v)
    return tot


# --------------------------------------------------------------------------
# table-less objects: bases very close to 1 (log values reach and pass log-zero while base^zero is
# still representable) — conversions only

def zero_of(shift):
    return -(2 ** 31) >> (shift + 2)


def notab_cfg(name, base, shift):
    cfg = Cfg(name, base, Fraction(base), shift, {"size": 0, "zero": zero_of(shift), "width": 0, "shift": shift}, [])
    cfg.line = f"cfg0 {name} {base} {shift}"
    return cfg


def near_one_specs(rng, tier):
    if tier == "quick":
        specs = [("1.000001", 0), ("1.000001", 2), ("1.0000005", 1), ("1.00001", 4)]
    else:
        specs = [(b, sh) for b in ("1.000001", "1.0000005", "1.0000012", "1.000003", "1.00001") for sh in range(5)]
    for _ in range(1 if tier == "quick" else 10):
        u = 0.2 + rng.below(10 ** 6) / 1e6 * (1.2 if rng.chance(0.6) else 9.8)
        specs.append((f"{1 + u * 1e-6:.9f}", rng.below(5)))
    return specs


def near_one_ps(cfg, rng, n):
    """probabilities whose logarithm lands at log-zero - 3 .. + 3, from the smallest normal double up,
    and random ones"""
    lnb, z, unit = cfg.lnB / 2 ** cfg.shift, cfg.zero, 2 ** cfg.shift
    ps = [2.2250738585072014e-308, 2.3e-308, 1e-307, 1e-300, 1e-250, 1e-234, 7e-234, 1e-233, 1e-200, 1e-100, 0.5, 1.0, 2.0]
    for j in range(-3, 4):
        for fr in (0.0, 0.3, 0.5, 0.9):
            ps.append(math.exp(((z + j) * unit + fr * unit) * lnb))
    for _ in range(n):
        ps.append(math.exp(-(rng.below(10 ** 6) / 1e6) * 708.0))
    # log_b p must fit an int (assumption of the check: the `(int)` conversion is undefined beyond it)
    return [p for p in ps if p == p and p != float("inf") and (p <= 0 or abs(math.log(p)) / lnb < 2.0e9)]


def gen_notab_ops(cfg, rng, tier, stats):
    z = cfg.zero
    ops = [cfg.cfg_line()]
    for p in near_one_ps(cfg, rng, 40 if tier == "quick" else 2000):
        ops.append(f"log {float(p).hex()}")
        stats["log_ops"] += 1
    lmax = int(690.0 / (cfg.lnB / 2 ** cfg.shift)) >> cfg.shift
    ls = [z + j for j in range(-3, 4)] + [0, 1, -1, lmax, -lmax] + [rng.range(-lmax, lmax) for _ in range(20 if tier == "quick" else 1000)]
    for l in ls:
        l = max(-lmax, min(lmax, l, (2 ** 31 - 1) >> cfg.shift), -(2 ** 31) >> cfg.shift)
        ops.append(f"exp {l}")
        stats["exp_ops"] += 1
    return ops


def judge_roundtrip(cfg, p, L, r):
    """exp(log p) on the real code, judged on the doubles: when base^(L << shift) is representable the
    result must be positive, not more than one (shifted) unit below p and — D20 apart — less than one
    base unit above it"""
    if not p > 0:
        return None
    if abs(L) * cfg.lnB > 700.0:
        return None
    if not (r > 0.0) or r == float("inf"):
        return (f"exp(log p) = {r} for p = {p!r}: log p = {L} (zero = {cfg.zero}), base^(L << shift) = e^{L * cfg.lnB:.2f} "
                "is representable — a positive probability comes back as zero (loses more than one unit)")
    dl, tol = math.log(r) - math.log(p), 1e-9 * max(1.0, abs(math.log(p)))
    if dl <= -cfg.lnB - tol:
        return f"exp(log p) loses one unit or more: ln(exp(log p)/p) = {dl:.3e} <= -ln B = {-cfg.lnB:.3e}"
    if dl >= cfg.lnB / 2 ** cfg.shift + tol:
        return f"exp(log p) exceeds p by one base unit or more: ln(exp(log p)/p) = {dl:.3e}"
    return None


# --------------------------------------------------------------------------
# the table-less addition path: logmath_add_exact, and logmath_add on an object without table
# (floating point: judged by the oracle only)

ETA = 1e-5     # float noise allowance of the pow/log pair, in shifted units


def exact_specs(cfgs, rng, tier):
    bases = []
    for g in cfgs.values():
        if g.base not in bases:
            bases.append(g.base)
    return [(b, sh) for b in bases for sh in (0, 1, 4, 8, 10)]


def gen_exact_ops(base, shift, rng, tier):
    lnB = math.log1p(float(Fraction(base) - 1)) * 2 ** shift
    lim = int(600.0 / lnB)                       # |x| <= lim keeps base^(x << shift) well inside the double range
    z = zero_of(shift)
    ops = [f"cfgx x {base} {shift}"]
    x0s = [0, -rng.below(max(1, min(1000, lim // 3))), rng.below(max(1, min(200, lim // 3)))]
    if tier != "quick":
        x0s += [-rng.below(max(1, lim // 2)) for _ in range(6)]
    for x0 in x0s:
        cnt = max(3, min(3000 if tier == "quick" else 20000, lim - abs(x0) - 1))
        ops.append(f"sweepx {x0} {x0} 0 -1 {cnt}")
        ops.append(f"sweepx {x0} {x0} -1 0 {cnt}")
    # log-zero on either side of the table-less logmath_add
    ops.append(f"sweepx {z - 2} -5 1 0 5")
    ops.append(f"sweepx -5 {z - 2} 0 1 5")
    return ops


def run_exact(c, binp, ops, stats=None):
    """harness-only ops (cfgx / cfg0 + sweepx / rt); returns problems"""
    rc, out, err = vlib.run_bin(binp, stdin_text="\n".join(ops) + "\n", timeout=900)
    lines = out.split("\n")[:-1]
    problems = []
    if rc != 0 or len(lines) != len(ops):
        problems.append({"kind": "harness-abort", "op": ops[min(len(lines), len(ops) - 1)], "cfg_op": ops[0], "exit_code": rc,
                         "stderr_tail": err[-2000:], "impl_violates": True,
                         "reason": "the real code did not return (sanitizer report / abort) on this op"})
    cfg, cfg_op, prev = None, None, None
    for op, hl in zip(ops, lines):
        w, f = op.split(), hl.split()
        if w[0] in ("cfgx", "cfg0"):
            cfg_op, prev = op, None
            cfg = Cfg(w[1], w[2], Fraction(w[2]), int(w[3]), {"size": int(f[3]), "width": int(f[5]), "zero": int(f[9])}, [])
            cfg.line = op
            continue
        if w[0] == "rt":
            p, L, r = float.fromhex(w[1]), int(f[1]), float.fromhex(f[2])
            why = judge_roundtrip(cfg, p, L, r)
            if stats is not None:
                stats["roundtrips"] = stats.get("roundtrips", 0) + 1
                if p > 0 and L <= cfg.zero and abs(L) * cfg.lnB <= 700.0:
                    stats["roundtrips_at_or_below_log_zero_representable"] = stats.get("roundtrips_at_or_below_log_zero_representable", 0) + 1
            if why:
                problems.append({"kind": "roundtrip", "op": op, "cfg_op": cfg_op, "impl": hl, "reason": why, "impl_violates": True})
            continue
        x, y, dx, dy, n = sweep_args(op)
        vals = [int(t) for t in f[1:]]
        trip = [tuple(vals[3 * i:3 * i + 3]) for i in range(n)]
        z, unit = cfg.zero, 2.0 ** -cfg.shift
        for j, (e, n0, t) in enumerate(trip):
            xj, yj = x + j * dx, y + j * dy
            why = None
            if xj <= z or yj <= z:
                want = yj if xj <= z else xj
                if n0 != want:
                    why = f"table-less logmath_add: log-zero is not the identity: {n0}, expected {want}"
            else:
                m, d = max(xj, yj), abs(xj - yj)
                cor = cfg.corr(d)
                dev = e - (m + cor)
                if not (-1.0 - ETA < dev <= unit + ETA):
                    why = (f"logmath_add_exact inaccurate: result {e} = max + {e - m} but log_B(1 + B^-{d}) = {cor:.6f} "
                           f"(the truncating exact path must lie in (-1, +2^-shift] of it)")
                elif e < m - 1 or (e < m and cor > 1e-4):
                    why = f"logmath_add_exact result {e} smaller than the larger argument {m}"
                elif e - m > cfg.corr(0) + unit + ETA:
                    why = f"logmath_add_exact exceeds the larger argument by {e - m} > log_B 2 = {cfg.corr(0):.4f}"
                elif n0 != e:
                    why = f"logmath_add on a table-less object returned {n0}, logmath_add_exact {e}"
                elif abs(t - e) > 1:
                    why = f"table-driven logmath_add = {t} and logmath_add_exact = {e} differ by more than one unit"
            if why:
                problems.append({"kind": "addx", "op": f"sweepx {xj} {yj} 0 0 1", "cfg_op": cfg_op, "from": op, "impl": [e, n0, t],
                                 "reason": why, "impl_violates": True})
                break
        if stats is not None:
            stats["exact_path_evaluations"] = stats.get("exact_path_evaluations", 0) + n
        # symmetry: consecutive sweeps with swapped roles
        if prev is not None and prev[0] == (y, x, dy, dx, n) and prev[1] != trip:
            j = next(k for k in range(n) if prev[1][k] != trip[k])
            problems.append({"kind": "addx", "op": f"sweepx {x + j * dx} {y + j * dy} 0 0 1", "cfg_op": cfg_op, "from": op,
                             "impl": list(trip[j]), "swapped": list(prev[1][j]),
                             "reason": "not symmetric: the swapped call returned different values", "impl_violates": True})
        prev = ((x, y, dx, dy, n), trip)
    return problems


def report_exact(c, problems, label):
    clean, seen = True, set()
    for p in problems:
        if (p["kind"], p.get("cfg_op")) in seen:
            continue
        seen.add((p["kind"], p.get("cfg_op")))
        replay = dict(p)
        replay.update({"ops": [p.get("cfg_op") or "cfgx x 1.0001 0", p["op"]], "where": label, "harness_only": True,
                       "implementation_violates_property": True,
                       "how_to_rerun": "python3 tools/check.py C19 --replay <this file>"})
        c.violation(replay, True)
        clean = False
    return clean


# --------------------------------------------------------------------------
# HISTORY family: several logmath objects created / retained / freed / re-created in ONE process.
# The result of an object must depend on its own (base, shift) only, never on which other objects
# existed before or exist beside it: after every creation the object's table must be THE table the
# kernel proof is about, and its adds must satisfy the oracle and equal the model.

HIST_EXTRA = (("1.0003", 0), ("1.0003", 10), ("1.0001", 1), ("1.0003", 8), ("1.002714", 1))
NSLOT = 8
STRUCT_OPS = ("new", "new0", "retain", "free", "dec", "decre", "decretain", "decfree")


def rle_text(vals):
    return ",".join(f"{v}:{n}" for v, n in gen_logtables.rle(vals)) or "-"


def unrle(text):
    vals = []
    if text != "-":
        for t in text.split(","):
            v, n = t.split(":")
            vals += [int(v)] * int(n)
    return vals


def lean_tables():
    """{config name: values} parsed back from lean/SSVerif/Generated/LogTables.lean — the very run lists
    `cfgDec.checks = true` etc. are decided on in the kernel"""
    import re
    text = (gen_logtables.GEN / "LogTables.lean").read_text()
    res = {}
    for m in re.finditer(r"^def (\w+?)_runs_(\d+) : List \(Nat × Nat\) := \[(.*)\]$", text, re.M):
        res.setdefault(m.group(1), {})[int(m.group(2))] = [(int(a), int(b)) for a, b in re.findall(r"\((\d+), (\d+)\)", m.group(3))]
    out = {}
    for name, chunks in res.items():
        vals = []
        for i in sorted(chunks):
            for v, n in chunks[i]:
                vals += [v] * n
        out[name] = vals
    return out


class Pool:
    """the configurations a history draws from, keyed by (base string, shift): the generated
    (kernel-proved) ones with the table of Generated/LogTables.lean as reference, the others with the
    table dumped from a fresh process (judged by the exact oracle) as reference"""

    def __init__(self, c, cfgs, binp):
        self.binp, self.cfgs, self.ref, self.proved = binp, {}, {}, {}
        lt = lean_tables()
        stale = []
        for g in cfgs.values():
            key = (g.base, g.shift)
            if key in self.cfgs:
                continue
            self.cfgs[key], self.proved[key] = g, True
            self.ref[key] = rle_text(lt.get(g.name, []))
            if lt.get(g.name) != g.vals:
                stale.append(g.name)
        if c is not None:
            c.oblige("tie: the tables in Generated/LogTables.lean (what the kernel proof is about) equal the tables dumped "
                     "from a fresh process of this build", not stale, stale)

    def get(self, base, shift):
        key = (base, shift)
        if key not in self.cfgs:
            hdr, vals = gen_logtables.dump_log_table(self.binp, base, shift)
            self.cfgs[key] = Cfg("dyn", base, Fraction(base), shift, hdr, vals, f"history object, base {base} shift {shift}")
            self.proved[key] = False
            self.ref[key] = rle_text(vals)
        return self.cfgs[key]

    def keys(self):
        return list(self.cfgs)


def hist_walk(ops):
    """ledger of a history: yields (index, op words, key of the object the op concerns or None,
    expected return value or None); an op the ledger rejects (busy / empty slot) yields key 'invalid'"""
    slots, dec, cur = {}, None, None       # slot -> object (a list [key, refcount]); cur = object
    for i, op in enumerate(ops):
        w = op.split()
        k = w[0]
        try:
            if k in ("new", "new0"):
                a = int(w[1])
                if a in slots or not 0 <= a < NSLOT:
                    raise KeyError
                slots[a] = cur = [(w[2], int(w[3]), k == "new"), 1]
                yield i, w, cur[0], None
            elif k == "retain":
                a, b = int(w[1]), int(w[2])
                if b in slots or not 0 <= b < NSLOT:
                    raise KeyError
                slots[b] = slots[a]
                slots[b][1] += 1
                yield i, w, slots[b][0], 1
            elif k == "free":
                o = slots.pop(int(w[1]))
                o[1] -= 1
                cur = None
                yield i, w, o[0], o[1]
            elif k == "use":
                cur = slots[int(w[1])]
                yield i, w, cur[0], None
            elif k == "dec":
                if dec is not None:
                    raise KeyError
                dec = cur = [(w[1], 0, True), 1]
                yield i, w, cur[0], None
            elif k == "decre":
                # decoder_init_config keeps the logmath when the base is the same double, else frees it and makes a new one
                if float(dec[0][0]) != float(w[1]):
                    dec[1] -= 1
                    dec = [(w[1], 0, True), 1]
                cur = dec
                yield i, w, dec[0], None
            elif k == "decuse":
                cur = dec
                yield i, w, dec[0], None
            elif k == "decretain":
                a = int(w[1])
                if a in slots or dec is None or not 0 <= a < NSLOT:
                    raise KeyError
                slots[a] = dec
                dec[1] += 1
                yield i, w, dec[0], 1
            elif k == "decfree":
                dec[1] -= 1
                cur, dec = None, None
                yield i, w, None, 0          # decoder_free returns the DECODER's reference count
            else:
                yield i, w, (cur[0] if cur else None), None
        except (KeyError, TypeError, IndexError, ValueError):
            yield i, w, "invalid", None


def hist_valid(ops):
    return [op for (i, w, key, _), op in zip(hist_walk(ops), ops) if key != "invalid"]


def obj_check_ops(cfg, rng, deep=True):
    """ops judging the current object: its whole table, then difference sweeps in both orders"""
    ops = ["table", "tab"]
    if cfg.size == 0:
        return ops[:1]
    n1 = min(cfg.size + 3, 2000 if deep else 300)
    x0 = 0 if rng.chance(0.5) else -1 - rng.below(100000)
    ops += [f"sweep {x0} {x0} 0 -1 {n1}", f"sweep {x0} {x0} -1 0 {n1}"]
    if cfg.size + 3 > n1:
        d0 = cfg.size - 30
        ops += [f"sweep {x0} {x0 - d0} 0 -1 33", f"sweep {x0 - d0} {x0} -1 0 33"]
        for _ in range(40 if deep else 5):
            d = n1 + rng.below(cfg.size - n1)
            ops.append(f"add {x0} {x0 - d}" if rng.chance(0.5) else f"add {x0 - d} {x0}")
    ops += [f"add {cfg.zero} {x0 - 7}", f"add {x0 - 7} {cfg.zero - 1}"]
    return ops


def gen_tour(pool, rng, keys):
    """one object alive at a time; every ordered pair (X freed, then Y created) of `keys` occurs"""
    todo = {(a, b) for a in keys for b in keys}
    cur = rng.choice(keys)
    ops = [f"new 0 {cur[0]} {cur[1]}"] + obj_check_ops(pool.get(*cur), rng)
    while todo and len(ops) < 40 * len(keys) ** 2:
        nxt = [b for b in keys if (cur, b) in todo] or [b for b in keys if any((b, x) in todo for x in keys)] or keys
        b = rng.choice(nxt)
        todo.discard((cur, b))
        ops += ["free 0", f"new 0 {b[0]} {b[1]}"] + obj_check_ops(pool.get(*b), rng)
        cur = b
    ops.append("free 0")
    return ops


def gen_two_live(pool, rng, keys):
    """two (and three) objects alive at once, freed in the other order, buffers of equal byte size"""
    a, b, c3 = (rng.choice(keys) for _ in range(3))
    big = max(keys, key=lambda k: pool.get(*k).size * pool.get(*k).width)
    ops = []

    def chk(slot, key, deep=False):
        return [f"use {slot}"] + obj_check_ops(pool.get(*key), rng, deep)
    ops += [f"new 0 {big[0]} {big[1]}"] + obj_check_ops(pool.get(*big), rng)
    ops += [f"new 1 {a[0]} {a[1]}"] + obj_check_ops(pool.get(*a), rng) + chk(0, big)
    ops += ["retain 0 5", "free 0"] + chk(5, big) + chk(1, a)
    ops += ["free 5", f"new 2 {b[0]} {b[1]}"] + obj_check_ops(pool.get(*b), rng) + chk(1, a)
    ops += ["free 1", f"new 3 {c3[0]} {c3[1]}"] + obj_check_ops(pool.get(*c3), rng) + chk(2, b)
    ops += ["free 2", "free 3", f"new 0 {a[0]} {a[1]}"] + obj_check_ops(pool.get(*a), rng) + ["free 0"]
    return ops


def gen_decoder_chain(pool, rng, keys):
    """decoder-owned objects: decoder_create -> decoder_logmath -> decoder_free -> new decoder with another
    logbase, through every ordered pair of the shift-0 bases; now and then the decoder's logmath is retained
    beyond the decoder's life, or swapped inside a living decoder by decoder_reinit with another logbase"""
    bases = sorted({k[0] for k in keys if k[1] == 0})
    todo = {(a, b) for a in bases for b in bases}
    cur = rng.choice(bases)
    ops = [f"dec {cur}"] + obj_check_ops(pool.get(cur, 0), rng)
    held = None
    while todo and len(ops) < 2000:
        nxt = [b for b in bases if (cur, b) in todo] or [b for b in bases if any((b, x) in todo for x in bases)] or bases
        b = rng.choice(nxt)
        todo.discard((cur, b))
        how = rng.below(4)
        if how == 0 and held is None:
            # the old logmath outlives its decoder
            ops += ["decretain 6", "decfree", f"dec {b}"] + obj_check_ops(pool.get(b, 0), rng)
            ops += ["use 6"] + obj_check_ops(pool.get(cur, 0), rng, deep=False)
            held = cur
        elif how == 1:
            ops += [f"decre {b}"] + obj_check_ops(pool.get(b, 0), rng)
        else:
            ops += ["decfree", f"dec {b}"] + obj_check_ops(pool.get(b, 0), rng)
        if held is not None and rng.chance(0.5):
            ops += ["free 6", "decuse"] + obj_check_ops(pool.get(b, 0), rng, deep=False)
            held = None
        cur = b
    ops.append("decfree")
    if held is not None:
        ops += ["use 6"] + obj_check_ops(pool.get(held, 0), rng, deep=False) + ["free 6"]
    return ops


def gen_random_history(pool, rng, keys, nsteps):
    """random multi-slot history: new / new0 / retain / free / decoder-owned objects; after every
    creation the new object is judged in depth, after every creation and every release every object
    that is still alive is judged again (its table must not have moved)"""
    ops = []
    slots, dec = {}, None          # slot -> object id ; objects: id -> [key, refcount]
    objs, nid = {}, 0
    decbases = sorted({k[0] for k in keys if k[1] == 0})

    def live_checks(skip=None):
        res, seen = [], set()
        for s_, oid in sorted(slots.items()):
            if oid in seen or oid == skip or not objs[oid][0][2]:
                continue
            seen.add(oid)
            res += [f"use {s_}"] + obj_check_ops(pool.get(*objs[oid][0][:2]), rng, deep=False)
        if dec is not None and dec not in seen and dec != skip:
            res += ["decuse"] + obj_check_ops(pool.get(*objs[dec][0][:2]), rng, deep=False)
        return res
    for _ in range(nsteps):
        free_slots = [i for i in range(NSLOT) if i not in slots]
        nlive = len({o for o in slots.values()})
        kind = rng.weighted([("new", 30 if free_slots and nlive < 4 else 0), ("free", 30 if slots else 0),
                             ("retain", 10 if slots and free_slots else 0), ("new0", 3 if free_slots else 0),
                             ("dec", 10 if dec is None else 0), ("decretain", 5 if dec is not None and free_slots else 0),
                             ("decre", 6 if dec is not None else 0), ("decfree", 8 if dec is not None else 0)])
        if kind in ("new", "new0"):
            a, key = rng.choice(free_slots), rng.choice(keys)
            objs[nid] = [(key[0], key[1], kind == "new"), 1]
            slots[a] = nid
            ops.append(f"{kind} {a} {key[0]} {key[1]}")
            ops += obj_check_ops(pool.get(*key), rng) if kind == "new" else ["table"]
            ops += live_checks(skip=nid)
            nid += 1
        elif kind == "retain":
            a, b = rng.choice(sorted(slots)), rng.choice(free_slots)
            slots[b] = slots[a]
            objs[slots[a]][1] += 1
            ops.append(f"retain {a} {b}")
        elif kind == "free":
            a = rng.choice(sorted(slots))
            oid = slots.pop(a)
            objs[oid][1] -= 1
            ops.append(f"free {a}")
            ops += live_checks()
        elif kind == "dec":
            b = rng.choice(decbases)
            objs[nid] = [(b, 0, True), 1]
            dec = nid
            ops.append(f"dec {b}")
            ops += obj_check_ops(pool.get(b, 0), rng) + live_checks(skip=nid)
            nid += 1
        elif kind == "decre":
            b = rng.choice(decbases)
            ops.append(f"decre {b}")
            if float(b) != float(objs[dec][0][0]):
                objs[dec][1] -= 1
                objs[nid] = [(b, 0, True), 1]
                dec = nid
                nid += 1
            ops += obj_check_ops(pool.get(b, 0), rng) + live_checks(skip=dec)
        elif kind == "decretain":
            b = rng.choice(free_slots)
            slots[b] = dec
            objs[dec][1] += 1
            ops.append(f"decretain {b}")
        elif kind == "decfree":
            objs[dec][1] -= 1
            dec = None
            ops.append("decfree")
            ops += live_checks()
    for a in sorted(slots):
        ops.append(f"free {a}")
    if dec is not None:
        ops.append("decfree")
    return ops


def hist_run(binp, ops):
    rc, out, err = vlib.run_bin(binp, ["hist"], stdin_text="\n".join(ops) + "\n", timeout=1800)
    return rc, out.split("\n")[:-1], err


def failing_add_after(binp, pool, ops, upto, cfg, ds):
    """search for a failing input after a table mismatch: replay the history up to op `upto` and ask the
    real code for add(0, -d) at the entries that differ; returns (d, result, reason) of the first the oracle rejects"""
    adds = [f"add 0 {-d}" for d in ds]
    rc, lines, _ = hist_run(binp, ops[:upto + 1] + adds)
    for d, l in zip(ds, lines[upto + 1:]):
        f = l.split()
        if len(f) == 2 and f[0] == "r":
            why = judge_add(cfg, 0, -d, int(f[1]))
            if why:
                return d, int(f[1]), why
    return None


def shrink_history(binp, pool, ops, upto, add_op, cfg):
    """smallest create/retain/free history before the creation of the failing object on which the oracle
    still rejects `add_op` (asked right after the creation, the new object being current)"""
    create = max(i for i in range(upto + 1) if ops[i].split()[0] in ("new", "dec", "decre"))
    if ops[upto].split()[0] in ("use", "decuse") or any(o.split()[0] in ("use", "decuse") for o in ops[create:upto + 1]):
        return None        # the failing object is not the newest one: keep the whole history
    pre = [o for o in ops[:create] if o.split()[0] in STRUCT_OPS]
    x, y = int(add_op.split()[1]), int(add_op.split()[2])

    def fails(sub):
        h = hist_valid(sub + [ops[create]])
        if not h or h[-1] != ops[create]:
            return False
        rc, lines, _ = hist_run(binp, h + [add_op])
        f = lines[-1].split() if len(lines) == len(h) + 1 else []
        return len(f) == 2 and f[0] == "r" and judge_add(cfg, x, y, int(f[1])) is not None
    if not fails(pre):
        return None
    small = vlib.ddmin(pre, fails, max_tests=80) if len(pre) > 1 else pre
    return hist_valid(small + [ops[create]]) + [add_op]


def eval_history(c, binp, pool, ops, label, stats=None, shrink=True):
    """run one history on the real code and its adds on the model; judge; returns problems"""
    rc, hout, err = hist_run(binp, ops)
    problems = []
    if rc != 0 or len(hout) != len(ops):
        i = min(len(hout), len(ops) - 1)
        struct = [o for o in ops[:i] if o.split()[0] in STRUCT_OPS or o.split()[0] in ("use", "decuse")]
        problems.append({"kind": "harness-abort", "op": ops[i], "hist_ops": struct + [ops[i]], "exit_code": rc,
                         "stderr_tail": err[-2500:], "impl_violates": True,
                         "reason": "the real code did not return (sanitizer report / abort) on this op of the history"})
        ops = ops[:len(hout)]
    # model side: the configuration lines, `tab`, adds and sweeps
    dops, dmap, curkey = [], {}, None
    walk = list(hist_walk(ops))
    for i, w, key, _ in walk:
        if w[0] in ("new", "use", "dec", "decre", "decuse") and key not in (None, "invalid") and key[2]:
            cfg = pool.get(key[0], key[1])
            dmap[i] = len(dops)
            dops.append(cfg.driver_cfg_line() if cfg.dyn else f"cfg {cfg.name} {cfg.base} {cfg.shift}")
        elif w[0] in ("tab", "add", "sweep") and key not in (None, "invalid") and key[2]:
            dmap[i] = len(dops)
            dops.append(ops[i])
    mlines = []
    if dops:
        rc2, mout, merr = vlib.run_driver("c19", "\n".join(dops) + "\n", timeout=1800)
        mlines = mout.rstrip("\n").split("\n") if mout.strip() else []
        if rc2 != 0 or len(mlines) != len(dops):
            problems.append({"kind": "driver-error", "reason": f"ssdriver c19 exit {rc2}, {len(mlines)} lines for {len(dops)} ops",
                             "stderr_tail": merr[-800:], "impl_violates": False, "hist_ops": ops[:1]})
            return problems
    ncreate = 0
    for i, w, key, expect in walk:
        if any(q["impl_violates"] for q in problems):
            break              # one concrete failing input per history is enough (the search and the shrinking re-run the history)
        hl = hout[i]
        k = w[0]
        struct = lambda upto: [o for o in ops[:upto + 1] if o.split()[0] in STRUCT_OPS or o.split()[0] in ("use", "decuse")]
        if key == "invalid":
            problems.append({"kind": "generator", "op": ops[i], "impl": hl, "reason": "ill-formed history op", "impl_violates": False,
                             "hist_ops": struct(i)})
            continue
        if k in ("new", "new0", "use", "dec", "decre", "decuse"):
            cfg = pool.get(key[0], key[1])
            ncreate += k in ("new", "new0", "dec", "decre")
            want = (f"size {cfg.size} width {cfg.width} shift {cfg.shift} zero {cfg.zero}" if key[2] else
                    f"size 0 width 0 shift {cfg.shift} zero {cfg.zero}")
            if hl.split(" ", 2)[2:] != [want]:
                problems.append({"kind": "shape", "op": ops[i], "impl": hl, "expected": want, "impl_violates": False, "hist_ops": struct(i),
                                 "reason": "shape of the object differs from the shape of the same configuration in a fresh process"})
            if i in dmap and mlines[dmap[i]].split(" ", 2)[2:] != hl.split(" ", 2)[2:]:
                problems.append({"kind": "shape", "op": ops[i], "impl": hl, "model": mlines[dmap[i]], "impl_violates": False,
                                 "hist_ops": struct(i), "reason": "implementation and model differ on the shape"})
        elif k in ("retain", "decretain", "free", "decfree"):
            want = f"ret {expect}" if k.endswith("retain") else f"f {expect}"
            if hl != want:
                problems.append({"kind": "refcount", "op": ops[i], "impl": hl, "expected": want, "impl_violates": False, "hist_ops": struct(i),
                                 "reason": "reference count returned differs from the ledger of the history"})
        elif k == "table":
            if key is None:
                continue
            cfg = pool.get(key[0], key[1])
            ref = pool.ref[(key[0], key[1])] if key[2] else "-"
            f = hl.split()
            if stats is not None:
                stats["hist_tables_compared"] = stats.get("hist_tables_compared", 0) + 1
                stats["hist_table_entries_compared"] = stats.get("hist_table_entries_compared", 0) + (cfg.size if key[2] else 0)
            if len(f) == 4 and f[3] == ref and f[1] == str(cfg.width if key[2] else 0):
                continue
            got, want = unrle(f[3]) if len(f) == 4 else [], unrle(ref)
            diff = [d for d in range(max(len(got), len(want))) if (got[d] if d < len(got) else 0) != (want[d] if d < len(want) else 0)]
            p = {"kind": "history-table", "op": "table", "hist_ops": struct(i) + ["table"], "config": cfg.label, "base": cfg.base,
                 "shift": cfg.shift, "proved_configuration": pool.proved[(key[0], key[1])],
                 "entries_differing": len(diff), "first_differences": [
                     {"d": d, "object_in_history": got[d] if d < len(got) else None, "reference": want[d] if d < len(want) else None}
                     for d in diff[:4]], "impl_width_size": f[1:3], "impl_violates": False,
                 "reason": "the table of this object, dumped inside the history, differs from the table the proof is about "
                           "(the table of the same base and shift built in a fresh process): the object depends on the history"}
            # search for a failing input: an add at a differing entry that the oracle rejects
            cand = [d for d in diff if not cfg.acc_ok(d, got[d] if d < len(got) else 0)][:6] or diff[:6]
            hit = failing_add_after(binp, pool, ops, i, cfg, cand) if cand else None
            if hit:
                d, r, why = hit
                add_op = f"add 0 {-d}"
                small = shrink_history(binp, pool, ops, i, add_op, cfg) if shrink else None
                p.update({"op": add_op, "impl": r, "impl_violates": True, "hist_ops": small or (struct(i) + [add_op]),
                          "history_before_shrinking": len(struct(i)),
                          "reason": f"after this history, logmath_add(0, {-d}) on the newest object (base {cfg.base}, shift {cfg.shift}) "
                                    f"returns {r}: {why}; the same object built in a fresh process has t[{d}] = "
                                    f"{want[d] if d < len(want) else 0}, this one t[{d}] = {got[d] if d < len(got) else 0}"})
            problems.append(p)
        elif k == "tab":
            if i in dmap and mlines[dmap[i]] != hl:
                problems.append({"kind": "history-tab", "op": "tab", "impl": hl, "model": mlines[dmap[i]], "impl_violates": False,
                                 "hist_ops": struct(i) + ["tab"], "reason": "table hash of implementation and model differ"})
        elif k in ("add", "sweep"):
            if key is None or not key[2]:
                continue
            cfg = pool.get(key[0], key[1])
            x, y, dx, dy, n = sweep_args(ops[i])
            hv = [int(t) for t in hl.split()[1:]]
            mv = [int(t) for t in mlines[dmap[i]].split()[1:]] if i in dmap else []
            if stats is not None:
                stats["adds_evaluated"] += n
                stats["hist_adds"] = stats.get("hist_adds", 0) + n
            for j, r in enumerate(hv):
                xj, yj = x + j * dx, y + j * dy
                why = judge_add(cfg, xj, yj, r)
                mr = mv[j] if j < len(mv) else None
                if why is not None or mr != r:
                    add_op = f"add {xj} {yj}"
                    small = shrink_history(binp, pool, ops, i, add_op, cfg) if (why is not None and shrink) else None
                    problems.append({"kind": "history-add", "op": add_op, "from": ops[i], "impl": r, "model": mr,
                                     "config": cfg.label, "base": cfg.base, "shift": cfg.shift,
                                     "hist_ops": small or (struct(i) + [add_op]),
                                     "reason": why or "implementation and model differ (the implementation's value satisfies the property)",
                                     "impl_violates": why is not None})
                    break
    if stats is not None:
        stats["hist_creations"] = stats.get("hist_creations", 0) + ncreate
        stats["hist_ops"] = stats.get("hist_ops", 0) + len(ops)
        for o in ops:
            kk = o.split()[0]
            if kk in STRUCT_OPS:
                stats.setdefault("hist_op_mix", {})[kk] = stats.setdefault("hist_op_mix", {}).get(kk, 0) + 1
    return problems


def report_history(c, problems, label):
    """one violation per (kind, implementation violates); returns True when clean"""
    clean, seen = True, set()
    for p in sorted(problems, key=lambda q: not q["impl_violates"]):
        tag = (p["kind"] if not p["impl_violates"] else "impl", p["impl_violates"])
        if tag in seen or (not p["impl_violates"] and ("impl", True) in seen):
            continue
        seen.add(tag)
        replay = dict(p)
        replay.update({"kind": "history", "problem": p["kind"], "ops": p.get("hist_ops", []), "where": label,
                       "implementation_violates_property": p["impl_violates"],
                       "how_to_rerun": "python3 tools/check.py C19 --replay <this file>   (ops are fed to `h_c19 hist`)"})
        replay.pop("hist_ops", None)
        c.violation(replay, p["impl_violates"], tag="history")
        clean = False
        if not p["impl_violates"]:
            c.oblige(f"correspondence: every object of a history = the fresh-process object of its configuration ({label}, {p['kind']})", False, p)
    return clean


def check_histories(c, cfgs, binp, stats):
    pool = Pool(c, cfgs, binp)
    for b, sh in HIST_EXTRA:
        pool.get(b, sh)
    corp_ok, ncorp = True, 0
    for f in sorted((vlib.ROOT / "corpus" / "C19").glob("*.hist")):
        ops = [l.strip() for l in f.read_text().split("\n") if l.strip() and not l.startswith("#")]
        corp_ok &= report_history(c, eval_history(c, binp, pool, ops, f"corpus {f.name}", stats), f"corpus {f.name}")
        ncorp += 1
    stats["hist_corpus_cases"] = ncorp
    keys = pool.keys()
    bad = []
    for k in keys:
        if not pool.proved[k]:
            g = pool.cfgs[k]
            bb = judge_table(g, sample=c.tier == "quick")
            if bb:
                bad.append({"base": g.base, "shift": g.shift, "bad": bb[:3]})
                check_table(c, g, sample=c.tier == "quick")
    c.oblige(f"oracle: the fresh-process reference tables of the {sum(not v for v in pool.proved.values())} history configurations "
             "without a generated table are non-increasing, 1-Lipschitz and accurate", not bad, bad[:3])
    quick = c.tier == "quick"
    fams = [("tour of all ordered (freed, created) pairs", gen_tour(pool, c.rng, keys)),
            ("two and three live objects", gen_two_live(pool, c.rng, keys)),
            ("decoder-owned objects, every ordered pair of logbases", gen_decoder_chain(pool, c.rng, keys))]
    for i in range(2 if quick else 40):
        fams.append((f"random multi-slot history {i}", gen_random_history(pool, c.rng, keys, 40 if quick else 150)))
    ok = corp_ok
    for label, ops in fams:
        ok &= report_history(c, eval_history(c, binp, pool, ops, label, stats), label)
        if not ok and quick:
            break
    if len(c.samples) < 12:
        c.samples.append({"history": fams[-1][0], "ops": [o for o in fams[-1][1] if o.split()[0] in STRUCT_OPS][:30]})
    c.oblige("correspondence (histories): in one process, through generated create / retain / free / re-create orders "
             "(decoder-owned objects included), the table of every object equals the table the kernel proof is about "
             "(fresh-process table for the other configurations), every add satisfies the oracle and equals the model", ok)
    stats["hist_families"] = [l for l, _ in fams]
    stats["hist_configurations"] = [{"base": k[0], "shift": k[1], "kernel_proved": pool.proved[k], "size": pool.cfgs[k].size,
                                     "bytes": pool.cfgs[k].size * pool.cfgs[k].width} for k in keys]
    return ok


def private_harness(c):
    """a private copy of the harness binary: the shared build cache prunes old library builds
    (and the binaries next to them) while a long run is still using them"""
    for _ in range(3):
        try:
            dst = c.scratch / "h_c19"
            shutil.copy2(vlib.build_harness("h_c19"), dst)
            return dst
        except FileNotFoundError:
            continue
    raise vlib.BuildError("harness binary disappeared three times while copying it")


def check(c):
    c.trusted += ["libm `log`/`pow`/`log10` and the floating-point part of logmath_init/logmath_log/logmath_exp (the table is "
                  "taken as data from the running code; its accuracy is then proved exactly)",
                  "tools/gen_logtables.py + harness/h_c19.c `dump` / `hist` `table` (table dump, run-length encoding; the history "
                  "family parses Generated/LogTables.lean back with a regular expression)",
                  "harness/h_c19.c + tools/props/c19.py (generators, exact-rational oracle, diff)",
                  "the base is read as the rational its decimal string denotes (1.0001 = 10001/10000); the C code uses the nearest double"]
    c.assumptions += ["the Lean model of logmath_add assumes a table (use_table = 1); the table-less path (logmath_add_exact, floating "
                      "point) is judged by the oracle only, inside the range where base^(x << shift) is representable, with the "
                      "tolerance a truncating conversion can meet (within one unit below, 2^-shift above)",
                      "no `int` overflow in C: |x - y| < 2^31 and result <= INT_MAX (signed overflow is undefined in C and traps "
                      "under UBSan; the model's `d < 0` branch, which mirrors the guard the code has, is covered by the theorems "
                      "but cannot be exercised on the sanitised build)",
                      "probabilities passed to logmath_log are finite and log_b p fits an int",
                      "the Lean accuracy theorems are stated for the configurations the code base instantiates (dec, s8b, tst) "
                      "plus a 1-byte-width base (w1) and a width-boundary base (wb), not for an arbitrary floating-point base; "
                      "other bases (width boundaries at shifts 0/1/8/10, random bases) are covered by the exact oracle on the "
                      "table dumped in the run and by the correspondence only"]
    c.leanchecker_modules = lambda: ["SSVerif.Proofs.LogTablesChecked", "SSVerif.Props.C19"]
    lean_ok = c.lean_obligations()
    if not lean_ok:
        # the driver does not depend on the proofs: build it on its own so the search below can run
        ok2, out2 = vlib.lake_build(("ssdriver-c19",))
        if not ok2:
            c.oblige("ssdriver builds", False, out2[-1500:])
    cfgs = load_cfgs()
    tables_ok = check_tables(c, cfgs)
    if not vlib.driver_path().exists():
        return
    binp = private_harness(c)
    stats = {"full_sweeps": 0, "crossing_sweeps": 0, "edge_adds": 0, "random_adds": 0, "log_ops": 0, "exp_ops": 0,
             "adds_evaluated": 0, "log_classes": {}}
    allok, branches, ncorp, nops = True, {}, 0, 0
    # corpus first
    for f in sorted((vlib.ROOT / "corpus" / "C19").glob("*.ops")):
        ops = [l.strip() for l in f.read_text().split("\n") if l.strip() and not l.startswith("#")]
        name = ops[0].split()[1]
        if name not in cfgs:
            continue
        ncorp += 1
        nops += len(ops)
        allok &= report(c, cfgs[name], run_case(c, binp, cfgs[name], ops, stats=stats), f"corpus {f.name}")
    for cfg in cfgs.values():
        pairs = gen_ops(cfg, c.rng, c.tier, stats)
        ops, metas = [o for o, _ in pairs], [m for _, m in pairs]
        nops += len(ops)
        if len(c.samples) < 8:
            c.samples.append({"config": cfg.name, "ops": [ops[0], ops[2], ops[-150] if len(ops) > 150 else ops[-1], ops[-1]]})
        allok &= report(c, cfgs[cfg.name], run_case(c, binp, cfg, ops, metas, stats), f"generated ops, config {cfg.name}")
        br = branch_coverage(cfg, ops)
        branches[cfg.name] = br
    # bases without a generated table: width boundaries at several shifts, random bases
    dyn_info, dyn_bad = [], []
    dspecs = [((2.0 ** (1.0 / l2)).hex(), sh, label, None) for l2, sh, label in dyn_specs(c.rng, c.tier)]
    dspecs += [(bh, sh, label, 6 * 10 ** 6) for bh, sh, label in topbit_specs(c.tier)]
    for base_hex, sh, label, xlim in dspecs:
        cfg = load_dyn(binp, base_hex, sh, label)
        if xlim:
            cfg.exact_limit = xlim     # half-megabase tables: exact decisions only where they are affordable (d + k <= ~56 000)
        bad = check_table(c, cfg, sample=c.tier == "quick")
        if bad:
            dyn_bad.append({"config": label, "base": base_hex, "shift": sh, "bad": bad[:3]})
        pairs = gen_ops(cfg, c.rng, c.tier, stats, light=True)
        ops, metas = [o for o, _ in pairs], [m for _, m in pairs]
        nops += len(ops)
        allok &= report(c, cfg, run_case(c, binp, cfg, ops, metas, stats), f"generated ops, {label}")
        dyn_info.append({"what": label, "base": float.fromhex(base_hex), "shift": sh, "size": cfg.size, "width": cfg.width,
                         "t0": cfg.vals[0], "table_ok": not bad, "entries_needing_top_bit_of_width": sum(
                             1 for v in cfg.vals[:70000] if cfg.width in (1, 2) and v >= 256 ** cfg.width // 2)})
    # table-less objects for bases within 1e-5 of 1: conversions at and around log-zero
    near_info = []
    for base, sh in near_one_specs(c.rng, c.tier):
        cfg = notab_cfg("nt", base, sh)
        ops = gen_notab_ops(cfg, c.rng, c.tier, stats)
        nops += len(ops)
        allok &= report(c, cfg, run_case(c, binp, cfg, ops, None, stats), f"conversions, table-less object, base {base} shift {sh}")
        rts = [cfg.cfg_line()] + [f"rt {float(p).hex()}" for p in near_one_ps(cfg, c.rng, 40 if c.tier == "quick" else 2000)]
        nops += len(rts)
        allok &= report_exact(c, run_exact(c, binp, rts, stats), f"round trip, base {base} shift {sh}")
        near_info.append({"base": base, "shift": sh, "zero": cfg.zero, "base_pow_zero_representable": abs(cfg.zero) * cfg.lnB <= 700.0})
    # round trips on the generated configurations too
    for g in cfgs.values():
        rts = [f"cfg0 {g.name} {g.base} {g.shift}"] + [f"rt {float(p).hex()}" for p in near_one_ps(g, c.rng, 40 if c.tier == "quick" else 2000)]
        nops += len(rts)
        allok &= report_exact(c, run_exact(c, binp, rts, stats), f"round trip, config {g.name}")
    # the table-less addition path (logmath_add_exact / logmath_add without table), every base at shifts 0,1,4,8,10
    xspecs = exact_specs(cfgs, c.rng, c.tier)
    for base, sh in xspecs:
        ops = gen_exact_ops(base, sh, c.rng, c.tier)
        nops += len(ops)
        allok &= report_exact(c, run_exact(c, binp, ops, stats), f"table-less addition, base {base} shift {sh}")
    # histories: several objects created / retained / freed / re-created in one process
    hist_ok = check_histories(c, cfgs, binp, stats)
    c.oblige(f"oracle: the {len(dyn_info)} tables dumped for width-boundary, top-bit and random bases are non-increasing, "
             f"1-Lipschitz and accurate at every entry judged and beyond", not dyn_bad, dyn_bad[:4])
    tables_ok &= not dyn_bad
    c.oblige("correspondence: real logmath_add/logmath_log/logmath_exp (ASan/UBSan) = model on every op; "
             "the property holds on every implementation result (apart from known findings)", allok)
    hit = {k for br in branches.values() for k, v in br.items() if v > 0}
    never = sorted({"x-zero", "y-zero", "overflow", "beyond", "table-x", "table-y"} - hit)
    c.cov.update({
        "evaluations": stats["adds_evaluated"] + stats["log_ops"] + stats["exp_ops"] + stats.get("exact_path_evaluations", 0)
        + stats.get("roundtrips", 0),
        "distinct_nontrivial": sum(min(cfg.size + 3, 10 ** 9) for cfg in cfgs.values()) + stats["log_ops"],
        "rule": "distinct_nontrivial = number of distinct (configuration, difference) pairs 0..size+2 covered exhaustively "
                "(each at several offsets and in both argument orders) plus the number of probabilities converted; "
                "evaluations = individual logmath_add / logmath_log / logmath_exp calls judged",
        "configurations": {n: {"base": g.base, "shift": g.shift, "size": g.size, "width": g.width, "zero": g.zero,
                               "t0": g.vals[0], "exact_bigint_decisions": g.exact_calls} for n, g in cfgs.items()},
        "ops": nops, "corpus_cases": ncorp,
        "op_mix": {k: stats[k] for k in ("full_sweeps", "crossing_sweeps", "edge_adds", "random_adds", "log_ops", "exp_ops")},
        "log_value_classes": stats["log_classes"],
        "exp_results_out_of_pow_range_not_judged": stats.get("exp_out_of_range", 0),
        "dynamic_configurations": dyn_info,
        "near_one_bases_conversions_only": near_info,
        "roundtrips_judged": stats.get("roundtrips", 0),
        "roundtrips_at_or_below_log_zero_with_representable_result": stats.get("roundtrips_at_or_below_log_zero_representable", 0),
        "exact_path": {"base_shift_pairs": [list(x) for x in xspecs], "evaluations": stats.get("exact_path_evaluations", 0),
                       "tolerance": "logmath_add_exact - (max + log_B(1+B^-d)) in (-1-1e-5, 2^-shift+1e-5] (it truncates, it does not round); "
                                    "equal to logmath_add on a table-less object; within 1 of the table-driven result; symmetric; "
                                    ">= max (up to float noise when the correction is < 1e-4); <= max + log_B 2 + 2^-shift"},
        "histories": {"ok": hist_ok, "families": stats.get("hist_families"), "ops": stats.get("hist_ops", 0),
                      "corpus_histories": stats.get("hist_corpus_cases", 0),
                      "objects_created": stats.get("hist_creations", 0), "op_mix": stats.get("hist_op_mix", {}),
                      "tables_compared_entry_for_entry": stats.get("hist_tables_compared", 0),
                      "table_entries_compared": stats.get("hist_table_entries_compared", 0),
                      "adds_judged_and_diffed": stats.get("hist_adds", 0),
                      "configurations": stats.get("hist_configurations")},
        "model_branches_hit": branches,
        "model_branches_never_hit": never,
        "table_oracle_ok": tables_ok,
    })


def finish(c):
    return c.finish(explanation=(
        "Proof: generic theorems about the model of logmath_add for every well-formed table; kernel-computed shape and exact "
        "accuracy (in N, and restated with Real.logb) of the four tables dumped from logmath_init of this build, at every "
        "distance inside and beyond the table. Tie: tables re-dumped and re-proved when changed; real code vs model on "
        "exhaustive difference sweeps in both argument orders, range ends, log-zero, random pairs, log/exp sweep. Oracle: the "
        "property evaluated in exact arithmetic on every value the C code returned. History family: in one process objects are "
        "created / retained / freed / re-created in generated orders (decoder-owned ones included); the table of every object "
        "must equal, entry for entry, the generated table the kernel proof is about, and its adds satisfy the oracle and equal "
        "the model — so the theorems apply to every object of a history, not only to a fresh one. Known finding D20: logmath_log truncates "
        "toward zero, so exp(log p) > p for p < 1 (not repaired: a floor() changes pinned test outputs)."))


def replay(c, path):
    c.lean_obligations()
    obj = json.loads(open(path).read())
    binp = private_harness(c)
    if obj.get("kind") == "history":
        pool = Pool(None, load_cfgs(), binp)
        probs = eval_history(c, binp, pool, obj["ops"], "replay", shrink=False)
        report_history(c, probs, "replay")
        c.cov.update({"evaluations": len(obj["ops"]), "distinct_nontrivial": 1, "replayed_problems": [
            {k: v for k, v in p.items() if k != "stderr_tail"} for p in probs[:5]]})
        return
    if obj.get("harness_only"):
        probs = run_exact(c, binp, obj["ops"])
        report_exact(c, probs, "replay")
        c.cov.update({"evaluations": len(obj["ops"]), "distinct_nontrivial": 1, "replayed_problems": probs[:5]})
        return
    w = obj["ops"][0].split()
    if w[0] == "cfg0":
        cfg = notab_cfg(w[1], w[2], int(w[3]))
        report(c, cfg, run_case(c, binp, cfg, obj["ops"]), "replay")
        c.cov.update({"evaluations": len(obj["ops"]), "distinct_nontrivial": 1})
        return
    cfg = load_dyn(binp, w[2], int(w[3]), obj.get("config")) if w[1] == "dyn" else load_cfgs()[w[1]]
    if obj.get("kind") == "table":
        bad = check_table(c, cfg)
        c.oblige("oracle: the dumped table is accurate", not bad, bad[:3])
    probs = run_case(c, binp, cfg, obj["ops"])
    report(c, cfg, probs, "replay")
    c.cov.update({"evaluations": len(obj["ops"]), "distinct_nontrivial": 1, "replayed_problems": probs[:5]})
