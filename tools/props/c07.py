"""C07 — decoding results do not depend on chunking, buffering mode or partial-result queries.

Lean: SSVerif/Props/C07.lean — for every front-end batch structure, every interleaving of
no_search / immediate search and of partial queries, the k-th feature vector handed to the search is
the canonical window of cepstrum k, each exactly once, M search steps, no buffer index out of range
(model SSVerif/Model/AcmodBuf.lean of acmod.c + feat_s2mfc2feat_live, with the D8 repair).

Tie: harness/h_c07.c runs the real decoder (ASan/UBSan, asserts on) under generated calling patterns and
logs, per API call, every front-end call underneath (output limit, frames yielded, samples left —
observed with linker --wrap, no source hook), every acmod_score call (frame, feat_buf index, hash of
the vector read) and the acmod/feat counters; the same call list with the observed front-end
responses is replayed on the model's own definitions (`ssdriver c07`) and counters, search steps and
"same window <-> same feature bits" are diffed.

Oracle (the property on the implementation): the full result record (hypothesis, path score,
segmentation with frames and scores, alignment at word/phone/state level, decoder_n_frames, hash of
every feature vector, alignment-pass reads) of every pattern must be IDENTICAL to the record of the
reference pattern (one int16 call, immediate search, no queries) of the same clip with the same CMN
state set by decoder_set_cmn before the utterance.

Round 3 (wave 5): (a) ring-residue sweep -- the live feature ring of feat.c is never reset, so the write position at
the end-of-utterance flush is a residue mod LIVEBUFBLOCKSIZE fixed by the decoder's history; `ring_phase_family` sets
it (streamed warm-up of chosen length, variant and reference of the same clip at different residues, one process per
case), `ring_unit_tie` (harness/h_c07r.c vs driver command `ring`) compares the real feat_s2mfc2feat_live with the
model function featLive at EVERY ring position for a list of call shapes (Props/C07Ring.lean); (b) early and refused
queries -- `early_query_family` asks for hypothesis / segmentation / alignment after 0, 1, 2, ... frames searched,
`q ralign` reaches decoder_alignment also when there is no hypothesis (request refused, NULL; Props/C07Query.lean).
"""
import json, re
import vlib

WRAP = ["-Wl,--wrap=fe_process_int16", "-Wl,--wrap=fe_process_float32", "-Wl,--wrap=fe_end",
        "-Wl,--wrap=acmod_score"]
D25_KEY = "stream ends with a full frame in the overflow buffer"
GROUPS = [
    # word-loop grammars: a final hypothesis (hence segmentation, scores, alignment) exists for clips of any length
    {"name": "en-us/word-loop", "hmm": "model/en-us", "cfg": ["jsgf=verif:harness/c07_words_en.gram"],
     "audio": "tests/data/goforward.raw"},
    {"name": "fr-fr/word-loop", "hmm": "model/fr-fr", "cfg": ["jsgf=verif:harness/c07_words_fr.gram"],
     "audio": "tests/data/goforward_fr.raw"},
    {"name": "en-us/goforward", "hmm": "model/en-us", "cfg": ["jsgf=tests/data/goforward.gram"],
     "audio": "tests/data/goforward.raw"},
    {"name": "fr-fr/goforward_fr", "hmm": "model/fr-fr", "cfg": ["jsgf=tests/data/goforward_fr.gram"],
     "audio": "tests/data/goforward_fr.raw"},
    {"name": "en-us/goforward.fsg", "hmm": "model/en-us", "cfg": ["fsg=tests/data/goforward.fsg"],
     "audio": "tests/data/goforward.raw"},
]
CMNS = ["40,3,-1", "41.00,-5.29,-0.12,5.09,2.48,-4.07,-1.37,-1.78,-5.08,-2.05,-6.45,-1.42,1.17",
        "30,0,0,0,0,0,0,0,0,0,0,0,0"]
WARMUP = ["utt 3000 16000 40,3,-1", "p i 7000 0", "p f 9000 1", "end", "res"]
# warm-up of the "streaming after a batch utterance" groups: a full_utt decode of the whole recording leaves the
# cepstrum ring (n_mfc_alloc) as large as that utterance for good
WARMUP_FULL = ["utt 0 99999999 40,3,-1", "p i 99999999 0 full", "end", "res"]
MODE = {"warm_full": False, "ref_full": False, "warm_len": False}


def warmup_run():
    wl = WARMUP_FULL if MODE["warm_full"] else WARMUP
    w = wl[0].split()
    if MODE.get("warm_len"):
        # a STREAMED warm-up utterance of the given number of samples: it leaves the live feature ring (feat.c cepbuf,
        # LIVEBUFBLOCKSIZE slots; the positions are never reset) at read position (frames + win) mod LIVEBUFBLOCKSIZE,
        # where the next utterance starts to write
        n = int(MODE["warm_len"])
        return mk_run(0, n, w[3], [f"p i {n // 2} 0", f"p f {n - n // 2} 1"])
    if MODE["warm_full"] and MODE["warm_full"] is not True:
        # a batch utterance of the given number of samples (the cepstrum ring then has exactly that many frames)
        n = int(MODE["warm_full"])
        return mk_run(0, n, w[3], [f"p i {n} 0 full"])
    return mk_run(int(w[1]), int(w[2]), w[3], wl[1:-2])
ST_KEYS = ["st", "nmfc", "mfco", "nfeat", "fo", "of", "alloc", "grow", "bp", "cp", "malloc"]


def repo(p):
    if p.startswith("verif:"):
        return str(vlib.ROOT / p[6:])
    return str(vlib.REPO / p)


def dec_lines(g):
    cfg = []
    for kv in g["cfg"]:
        k, v = kv.split("=", 1)
        cfg.append(f"{k}={repo(v)}")
    return [f"dec {repo(g['hmm'])} " + " ".join(cfg), f"audio {repo(g['audio'])}"]


def kv(s):
    return dict(t.split("=", 1) for t in s.split() if "=" in t)


# --------------------------------------------------------------------------------------------------
# generator

def gen_sizes(rng, L, P, kind, cap):
    """chunk sizes (sum = L) of one pattern"""
    fs, sh = P["fsize"], P["fshift"]
    out, left = [], L

    def take(n):
        nonlocal left
        n = max(0, min(n, left, cap))
        out.append(n)
        left -= n
    if kind == "one":
        while left > 0:
            take(left)
        return out or [0]
    if kind in ("tinyfirst", "mixed", "queries", "buffered"):
        if rng.chance(0.8):
            take(rng.choice([1, 2, 100, sh - 1, sh, fs - 1, rng.range(1, fs - 1)]))   # shorter than one window
            if rng.chance(0.4):
                take(rng.range(1, 200))                                               # still no frame
    if kind == "single":
        # a run of one-sample chunks somewhere, the rest in medium pieces
        start = 0 if rng.chance(0.5) else rng.below(max(1, L))
        run = rng.range(300, 1300)
        while left > 0 and L - left < start:
            take(min(rng.range(200, 3000), start - (L - left)))
        for _ in range(run):
            if left <= 0:
                break
            take(1)
    if kind == "edge":
        # call boundaries that make the feature queue end exactly at / next to the end of feat_buf (128, 256 entries):
        # a call ends when exactly T cepstral frames have been delivered, T - win in {alloc - 1, alloc, alloc + 1}
        win = P["win"]
        targets = sorted(set(a + win + d for a in (P["nfeat"], 2 * P["nfeat"]) for d in (-1, 0, 1)))
        pos = 0
        for T in targets:
            end = fs + (T - 1) * sh + rng.below(sh)           # T frames delivered, the (T+1)-th not yet
            if end >= L:
                break
            k = rng.range(1, 100)                              # the call before brings the count to T - k
            before = fs + (T - k - 1) * sh + rng.below(sh)
            if before > pos:
                while pos < before:
                    n = min(before - pos, rng.range(2000, 12000), cap)
                    take(n)
                    pos += n
            while pos < end:
                n = min(end - pos, cap)
                take(n)
                pos += n
    if kind == "huge":
        # chunks far larger than the 128-frame cepstrum ring (and than the feature buffer)
        while left > 0:
            take(rng.choice([fs + 128 * sh, fs + 127 * sh, fs + 129 * sh + rng.below(sh), 128 * sh,
                             rng.range(129 * sh, 260 * sh), left]))
        return out
    while left > 0:
        r = rng.below(100)
        if r < 25:
            take(rng.choice([sh - 1, sh, sh + 1, fs - 1, fs, fs + 1, 2 * sh, fs + sh, fs - sh]))
        elif r < 45:
            take(rng.range(1, 50))
        elif r < 75:
            take(rng.range(50, 3000))
        elif r < 90:
            take(rng.range(3000, 24000))
        elif r < 94:
            take(0)
        else:
            take(left)
    return out


def gen_pattern(rng, L, P, cap, kind):
    sizes = gen_sizes(rng, L, P, kind, cap)
    ops = []
    allbuf = kind == "buffered"
    pq = {"queries": 0.35, "mixed": 0.12, "single": 0.004}.get(kind, 0.0)
    pf = 0.0 if kind == "one" else rng.choice([0.0, 0.5, 1.0])
    pns = {"buffered": 1.0, "mixed": 0.5, "queries": 0.3, "huge": 0.3, "single": 0.2, "tinyfirst": 0.2, "edge": 0.3}.get(kind, 0.0)
    for n in sizes:
        ns = 1 if (allbuf or rng.chance(pns)) else 0
        ops.append(f"p {'f' if rng.chance(pf) else 'i'} {n} {ns}")
        if pq and rng.chance(pq):
            ops.append("q " + rng.weighted([("hyp", 3), ("seg", 3), ("align", 4)]))
    if kind == "alignresume":
        # a partial decoder_alignment every few frames, the first pass resuming right after each (D63 class: the
        # second pass must leave the scorer exactly where the first pass left it)
        ops, left = [], L
        while left > 0:
            n = min(left, rng.range(3 * P["fshift"], 10 * P["fshift"]), cap)
            ops.append(f"p {'f' if rng.chance(pf) else 'i'} {n} 0")
            ops.append("q align")
            left -= n
        return ops
    if kind == "bufquery":
        # search some audio, buffer some more without searching, then ask for a partial alignment / result
        ops = []
        for i, n in enumerate(sizes):
            ops.append(f"p {'f' if rng.chance(pf) else 'i'} {n} {i % 2}")
            if i % 2 == 1:
                ops.append("q " + rng.weighted([("align", 6), ("seg", 2), ("hyp", 2)]))
    if kind == "queries" and rng.chance(0.5):
        ops.insert(0, "q " + rng.choice(["hyp", "seg", "align"]))          # right after decoder_start_utt
    return ops


REF_NOSEARCH = False   # set while a group is judged whose reference is the buffered single call (no_search = 1)


def ref_ops(L, cap):
    """the reference pattern: as few int16 calls as possible, searched as data arrives (or, when REF_NOSEARCH,
    buffered with no_search = 1 and searched by decoder_end_utt)"""
    if MODE["ref_full"]:
        return [f"p i {L} 0 full"]
    out, left = [], L
    ns = 1 if REF_NOSEARCH else 0
    while left > 0:
        n = min(left, cap)
        out.append(f"p i {n} {ns}")
        left -= n
    return out or [f"p i 0 {ns}"]


def end_edge_lengths(rng, N, P, tier):
    """clip lengths whose cepstral frame count M sits next to a size feat_buf can have (128 * 2^k): at the end of
    the utterance the flush of `win` more feature frames then lands exactly at / next to the end of the buffer.
    M = k*128 + d, d in -3..+6; the two values of d that put the last write position on the boundary with
    immediate search (M - win - 1 in {alloc - 3, alloc - 2}) are always included."""
    fs, sh, win, a0 = P["fsize"], P["fshift"], P["win"], P["nfeat"]
    out = []
    for k in (1, 2, 4):
        alloc = a0 * k
        crit = [alloc + win - 2, alloc + win - 1]
        extra = [alloc + d for d in range(-3, 7) if alloc + d not in crit]
        rng.shuffle(extra)
        picks = crit + extra[:(0 if tier == "quick" else 4)]
        for M in picks:
            L = fs + (M - 2) * sh + rng.below(sh)      # M - 1 frames from fe_process, one from fe_end
            if M >= 2 and L <= N and M <= 300:
                out.append((M, alloc, L))
    return out


def gen_clips(rng, N, P, tier):
    """(offset, length) of the clips of one recording: 0-4 frame clips, boundary lengths, medium, full"""
    fs, sh = P["fsize"], P["fshift"]
    maxlen = fs + 299 * sh - 1           # < CMN_WIN_HWM - CMN_WIN frames: the mean cannot move inside the utterance
    short = [0, 1, rng.range(2, fs - 1), fs - 1, fs, fs + 1, fs + sh - 1, fs + sh, fs + sh + 1, fs + 2 * sh,
             fs + 3 * sh + rng.below(sh), fs + 6 * sh + rng.below(sh)]
    k = 5 if tier == "quick" else len(short)
    picks = [short[i] for i in sorted(set([0, 2, 4] + [rng.below(len(short)) for _ in range(k)]))]
    clips = [(rng.below(max(1, N - l)), l) for l in picks]
    clips.append((rng.below(N // 2), rng.range(4000, 16000)))
    # lengths that make the single-call reference end exactly at an output-limited front-end call (D25 class)
    clips.append((rng.below(N // 4), fs + 128 * sh))
    if tier != "quick":
        clips.append((rng.below(N // 4), fs + 128 * sh + rng.below(sh)))
        clips.append((rng.below(N // 2), rng.range(16000, 30000)))
    # frame counts next to the sizes feat_buf can have (reused decoder: the size is whatever the history left)
    for (M, alloc, l) in end_edge_lengths(rng, N, P, tier)[:(1 if tier == "quick" else 8)]:
        clips.append((0 if l > N - 10 else rng.below(N - l), l))
    clips.append((0, min(N, maxlen)))
    return clips


KINDS = ["tinyfirst", "mixed", "queries", "buffered", "huge", "single", "random", "bufquery", "edge", "alignresume"]

# --------------------------------------------------------------------------------------------------
# running the harness and the model


def parse_runs(out_lines, runs):
    """attach the output lines to the runs of a script; returns the number of runs fully answered"""
    i, done = 0, 0
    for r in runs:
        need = 1 + len(r["ops"]) + 2
        if i + need > len(out_lines):
            r["out"] = out_lines[i:]
            break
        r["out"] = out_lines[i:i + need]
        i += need
        done += 1
    return done


def script_of(runs):
    lines = []
    for r in runs:
        lines.append(f"utt {r['off']} {r['len']} {r['cmn']}")
        lines += r["ops"]
        lines += ["end", "res"]
    return lines


def run_harness(binp, g, runs, timeout=1800):
    text = "\n".join(dec_lines(g) + script_of(runs)) + "\n"
    rc, out, err = vlib.run_bin(binp, stdin_text=text, timeout=timeout)
    lines = out.rstrip("\n").split("\n") if out.strip() else []
    hdr = lines[:2]
    P = {}
    if hdr and hdr[0].startswith("dec ok"):
        P = {k: int(v) for k, v in kv(hdr[0]).items()}
        if len(hdr) > 1 and hdr[1].startswith("audio "):
            P["naudio"] = int(hdr[1].split()[1])
    done = parse_runs(lines[2:], runs)
    return rc, err, P, done


def record_of(res_line):
    """the result record: everything but buffer positions"""
    body = res_line.split(" | ")[0]
    # alsc (the reads of the alignment pass made while printing the record) is used for the model diff only: it is
    # legitimately empty when decoder_alignment reuses the alignment a query has just computed at the same frame
    return " ".join(t for t in body.split() if not t.startswith("alsc="))


def public_of(rec):
    """what the property speaks about: hypothesis, path score, decoder_n_frames, segmentation, alignment.
    The rest of the record (hash of the feature vectors, digest of the senone scores every first-pass step received,
    cmn->nframe) is internal:
    a difference there alone breaks `features_canonical` on the implementation but is not a visible result."""
    return " ".join(t for t in rec.split() if t.split("=")[0] in ("res", "hyp", "score", "nfr", "segs", "align"))


def parse_sc(tok):
    if tok == "-" or not tok:
        return []
    out = []
    for e in tok.split(","):
        tag, rest = e[0], e[1:].split(":")
        out.append((tag, int(rest[0])) + tuple(rest[1:]))
    return out


def model_lines(P, run, fix=1):
    """driver script of one run, from what the harness observed"""
    out = run["out"]
    lines = [f"start {kv(out[0])['cmnframes']}"]
    # a streaming utterance is replayed from the chunk lengths alone: the composed model (M5 with c06's front end
    # inside) computes the front-end responses itself; a batch utterance (full_utt = 1) from the observed responses
    samples = not any(o.startswith("p ") and o.endswith(" full") for o in run["ops"]) and "naudio" in P
    left = max(0, min(run["len"], P.get("naudio", 0) - run["off"]))
    for op, o in zip(run["ops"], out[1:1 + len(run["ops"])]):
        d = kv(o.split(" | ")[0])
        w = op.split()
        if w[0] == "p" and samples:
            k = min(int(w[2]), left)
            left -= k
            lines.append(f"ps {w[3]} {k}")
        elif w[0] == "p" and len(w) == 5 and w[4] == "full":
            # per loop iteration: e<estimate>, <lim>:<nvec>:<left> (fe_process), <lim>:<n>:0 (fe_end)
            ent = [] if d.get("fe", "-") == "-" else d["fe"].split(",")
            resp, i = [], 0
            while i + 2 < len(ent) + 0 and ent[i].startswith("e"):
                pr, en = ent[i + 1].split(":"), ent[i + 2].split(":")
                resp.append(f"{ent[i][1:]}:{pr[1]}:{1 if int(pr[2]) > 0 else 0}:{en[1]}")
                i += 3
            lines.append(f"pfull {w[3]} {','.join(resp) if resp else '-'}")
        elif w[0] == "p":
            fe = d.get("fe", "-")
            resp = "-" if fe == "-" else ",".join(f"{x.split(':')[1]}:{1 if int(x.split(':')[2]) > 0 else 0}" for x in fe.split(","))
            lines.append(f"p {w[3]} {resp}")
        elif w[1] in ("align", "ralign"):
            na = sum(1 for e in parse_sc(d.get("sc", "-")) if e[0] == "a")
            lines.append(f"align {1 if na else 0} {na}")
        else:
            lines.append("q")
    e = kv(out[-2].split(" | ")[0])
    fe = e.get("fe", "-")
    tail = 0 if fe == "-" else int(fe.split(",")[-1].split(":")[1])
    lines.append("ends" if samples else f"end {tail}")
    r = kv(out[-1].split(" | ")[0])
    na = len(parse_sc(r.get("alsc", "-")))
    lines.append(f"align {1 if na else 0} {na}")
    return lines


def compare_run(P, run, mout, winmap, problems, stats):
    """diff one run: counters after every call, search steps, window <-> feature bits"""
    out = run["out"]
    # harness lines in model order: utt, ops..., end, res
    pairs = list(zip(out, mout))
    prev_nfrm = None
    for idx, (o, m) in enumerate(pairs):
        cs, ms = o.split(" | "), m.split(" | ")
        if len(cs) < 2 or len(ms) < 2:
            problems.append(f"line {idx}: malformed  C={o[:120]!r} model={m[:120]!r}")
            return
        cst, mst = kv(cs[-1]), kv(ms[-1])
        if "FAULT" in mst:
            problems.append(f"line {idx}: model raised {mst['FAULT']}")
            return
        for k in ST_KEYS:
            if cst.get(k) != mst.get(k):
                problems.append(f"line {idx} ({(['utt'] + run['ops'] + ['end', 'res'])[idx]}): counter {k}: C={cst.get(k)} model={mst.get(k)}"
                                f"  C:[{cs[-1].strip()}] model:[{ms[-1].strip()}]")
                return
        d = kv(cs[0])
        # C03 frame accounting (Model/DecRet.lean, Props/C03Ret.lean): the value decoder_process_* / decoder_end_utt
        # returned must be the one the model of the C counters (nfr, n_searchfr) computes for this call, and d->n_frame
        # must have grown by the model's count of search steps (for decoder_end_utt: the frames searched inside it,
        # which the call does not return) -- exact, on every call of every schedule
        mk0 = kv(ms[0])
        opname = (['utt'] + run['ops'] + ['end', 'res'])[idx]
        if "rv" in mk0:
            stats["returns_tied"] = stats.get("returns_tied", 0) + 1
            stats["returns_tied_positive"] = stats.get("returns_tied_positive", 0) + (1 if mk0["rv"] not in ("0", "-") else 0)
            if d.get("rv") != mk0["rv"]:
                problems.append(f"line {idx} ({opname}): value returned by the call: C={d.get('rv')} model={mk0['rv']}"
                                f"  (frames searched by the call in the model: {mk0.get('cnt')})")
                return
        elif idx > 0 and (opname.startswith("p ") or opname == "end"):
            problems.append(f"line {idx} ({opname}): the model driver printed no return value")
            return
        if "nfrm" in cst:
            if idx > 0 and prev_nfrm is not None:
                stats["n_frame_growth_tied"] = stats.get("n_frame_growth_tied", 0) + 1
                if int(cst["nfrm"]) - prev_nfrm != int(mk0.get("cnt", "0")):
                    problems.append(f"line {idx} ({opname}): d->n_frame grew by {int(cst['nfrm']) - prev_nfrm}, model: {mk0.get('cnt', '0')}")
                    return
            prev_nfrm = int(cst["nfrm"])
        csc = parse_sc(d.get("alsc" if idx == len(pairs) - 1 else "sc", "-"))
        msc = parse_sc(kv(ms[0]).get("sc", "-"))
        if [(e[0], e[1]) for e in csc] != [(e[0], e[1]) for e in msc]:
            problems.append(f"line {idx}: search steps differ: C={[(e[0], e[1]) for e in csc][:8]}.. model={[(e[0], e[1]) for e in msc][:8]}..")
            return
        for ce, me in zip(csc, msc):
            if int(ce[2]) != ce[1]:
                problems.append(f"line {idx}: frame {ce[1]} read from feat_buf[{ce[2]}] (model: index = frame)")
                return
            h = winmap.setdefault(me[2], ce[3])
            if h != ce[3]:
                problems.append(f"line {idx}: frame {ce[1]}: model window {me[2]} was seen with feature bits {h}, now {ce[3]}")
                return
            stats["steps"] += 1
        # the composed model computes the front-end traffic from the chunk length alone: on every fe_process / fe_end
        # call the room offered (= free slots of the cepstrum ring), the frames yielded and the samples left must agree
        mk = kv(ms[0])
        if "FEBAD" in mk:
            problems.append(f"line {idx}: the front-end model would read outside its buffers")
            return
        if "fe" in mk:
            stats["fe_calls_tied"] = stats.get("fe_calls_tied", 0) + (0 if mk["fe"] == "-" else mk["fe"].count(",") + 1)
            if mk["fe"] != d.get("fe", "-"):
                problems.append(f"line {idx} ({(['utt'] + run['ops'] + ['end', 'res'])[idx]}): front-end calls <room>:<frames>:<samples left>: "
                                f"C={d.get('fe', '-')[:200]} model={mk['fe'][:200]}")
                return
        # front-end contract used by the model: never more frames than the limit
        fe = d.get("fe", "-")
        if fe != "-":
            for x in fe.split(","):
                if x.startswith("e"):
                    continue
                lim, nvec, _ = x.split(":")
                if int(nvec) > int(lim):
                    problems.append(f"line {idx}: front end yielded {nvec} frames with limit {lim}")
    # fe_end contract (hypothesis of the theorems): a pending frame is emitted iff any sample was fed
    e = kv(out[-2].split(" | ")[0])
    fe = e.get("fe", "-")
    tail = 0 if fe == "-" else int(fe.split(",")[-1].split(":")[1])
    anyfull = any(o.startswith("p ") and o.endswith(" full") for o in run["ops"])
    if (tail == 1) != (run["len"] > 0 and run["fed"] > 0 and not anyfull):
        problems.append(f"fe_end yielded {tail} frame(s) after {run['fed']} samples")


def branch_stats(P, run, stats):
    b = stats["branches"]
    out = run["out"]
    prev = kv(out[0].split(" | ")[-1])
    for op, o in zip(run["ops"] + ["end"], out[1:]):
        st = kv(o.split(" | ")[-1])
        d = kv(o.split(" | ")[0])
        fe = d.get("fe", "-")
        fes = [] if fe == "-" else [tuple(int(y) for y in x.split(":")) for x in fe.split(",") if not x.startswith("e")]
        if op.startswith("p") and op.endswith(" full"):
            b["batch call (full_utt = 1)"] += 1
            if st.get("malloc") != prev.get("malloc"):
                b["cepstrum buffer enlarged by a batch call"] += 1
        elif op.startswith("p"):
            if int(st.get("malloc", P["nmfc"])) > P["nmfc"]:
                b["streaming call on an enlarged cepstrum ring"] += 1
                if int(st["nmfc"]) > 0:
                    b["frames left in the ring after a call (live-buffer clamp)"] += 1
            if prev["st"] == "1" and st["st"] == "1" and fes:
                b["call yielding no frame while STARTED"] += 1
            if prev["st"] == "1" and st["st"] == "2":
                b["first frames consumed (start padding)"] += 1
            if any(l < P["nmfc"] for l, _, _ in fes):
                b["cepstrum ring wrap (fe call limited by ring end)"] += 1
            if any(n == l and left > 0 for l, n, left in fes):
                b["output-limited fe call with samples left (decoder loops)"] += 1
            if any(n == 0 and i > 0 for i, (l, n, left) in enumerate(fes)):
                b["goto alldone / zero-frame fe call after a wrap"] += 1
            if op.split()[3] == "1":
                b["no_search call"] += 1
            if int(st["nfeat"]) > P["nmfc"]:
                b["more than 128 frames buffered"] += 1
        if op == "end" and not any(o.startswith("p ") and o.endswith(" full") for o in run["ops"]):
            # where in the live feature ring (feat.c cepbuf) the end-of-utterance padding was written: bufpos at the
            # moment of the flush = bufpos afterwards - win (mod LIVEBUFBLOCKSIZE)
            try:
                stats.setdefault("flush_pos", {}).setdefault((int(st["bp"]) - P["win"]) % P["livebuf"], 0)
                stats["flush_pos"][(int(st["bp"]) - P["win"]) % P["livebuf"]] += 1
            except (KeyError, ValueError):
                pass
        if op.startswith("q "):
            # every query by kind, by the number of frames searched when it was made (early points of the utterance
            # apart), and whether it was answered or refused (NULL)
            ofr = int(st.get("of", "0"))
            body = o.split(" | ")[0]
            if op.split()[1] in ("align", "ralign"):
                ans = "skipped by the harness (no dictionary word in the hypothesis)" if "al=skip" in body else \
                      "refused (NULL)" if "al=-1" in body else "answered"
            elif op.split()[1] == "hyp":
                ans = "refused (NULL)" if "hyp=~" in body else "answered"
            else:
                ans = "refused (NULL)" if "segs=-" in body else "answered"
            stats.setdefault("queries_by_point", {}).setdefault(
                f"{op.split()[1]} after {ofr if ofr <= 5 else '6+'} frames searched, {int(st['nfeat']) and 'some' or 'no'} frames buffered: {ans}", 0)
            stats["queries_by_point"][f"{op.split()[1]} after {ofr if ofr <= 5 else '6+'} frames searched, {int(st['nfeat']) and 'some' or 'no'} frames buffered: {ans}"] += 1
        if op == "end":
            if prev["st"] == "1" and fes and fes[-1][1] == 1:
                b["end of utterance while STARTED with a pending frame"] += 1
            if prev["st"] == "1" and (not fes or fes[-1][1] == 0):
                b["end of utterance with no audio"] += 1
            if prev["st"] == "2":
                b["end of utterance while PROCESSING"] += 1
            if int(prev["nfeat"]) > 0:
                b["frames still buffered at end (searched by decoder_end_utt)"] += 1
        if op.startswith(("q align", "q ralign")) and any(e[0] == "a" for e in parse_sc(d.get("sc", "-"))):
            b["partial alignment (rewind + re-advance)"] += 1
            if int(st["nfeat"]) > 0:
                b["partial alignment with unsearched frames buffered"] += 1
        if st["alloc"] != prev["alloc"]:
            b["feat_buf grown"] += 1
        if int(st["cp"]) < int(prev["cp"]):
            b["live ring read pointer wrapped (window wrap branch)"] += 1
        if int(st["bp"]) < int(prev["bp"]) and op != "utt":
            b["live ring write pointer wrapped"] += 1
        prev = st


def prior_state_wf0(P, run, mout, k, stats):
    """audit B3: the structural facts `WF0` on the state every utterance of a decoder's history starts from (hypothesis
    `hwf` of every C07 theorem; `C07_any_history` proves it for every history within the premises).  Evaluated twice:
    the model's Boolean `wf0b` on its own state (printed by the driver on the start line; `wf0b_iff`), and the same facts
    as far as the counters of the real decoder show them (grow_feat, curpos, n_feat_alloc, n_mfc_alloc; the three list
    lengths are allocation sizes in C).  Also the premise `hcmn` of `Ev.ok` for every streaming utterance, warm-up and
    variants included: cmn->nframe at the start + frames delivered <= CMN_WIN_HWM."""
    out = run["out"]
    cst, mst = kv(out[0].split(" | ")[-1]), kv(mout[0].split(" | ")[-1])
    bad = stats.setdefault("wf0_bad", [])
    stats["wf0_states"] = stats.get("wf0_states", 0) + 1
    if k > 0:
        stats["wf0_states_after_an_utterance"] = stats.get("wf0_states_after_an_utterance", 0) + 1
    try:
        c_ok = (cst["grow"] == "1" and 0 <= int(cst["cp"]) < P["livebuf"] and int(cst["alloc"]) >= 1 and int(cst["malloc"]) >= 1)
        if int(cst["malloc"]) > P["nmfc"]:
            stats["wf0_states_on_an_enlarged_cepstrum_ring"] = stats.get("wf0_states_on_an_enlarged_cepstrum_ring", 0) + 1
    except (KeyError, ValueError):
        c_ok = False
    if mst.get("wf0") != "1" or not c_ok:
        bad.append({"utterance_index_in_the_history": k, "model_wf0b": mst.get("wf0"), "C_counters": out[0].split(" | ")[-1].strip()[:200]})
    nfull = sum(1 for o in run["ops"] if o.startswith("p ") and o.endswith(" full"))
    nproc = sum(1 for o in run["ops"] if o.startswith("p "))
    regime = "streaming" if nfull == 0 else "batch (one full_utt call)" if nproc == 1 else "mixed"
    stats.setdefault("history_events", {}).setdefault(regime, 0)
    stats["history_events"][regime] += 1
    if regime.startswith("batch"):
        # premises of `Ev.ok` for a batch utterance: one loop iteration (`r.more = false`) that delivered >= 1 frame
        # (counted, not required: an utterance outside them is simply not an event the history theorem speaks about)
        try:
            i = next(j for j, o in enumerate(run["ops"]) if o.startswith("p ") and o.endswith(" full"))
            ent = kv(out[1 + i].split(" | ")[0]).get("fe", "-")
            ent = [] if ent == "-" else ent.split(",")
            est = [x for x in ent if x.startswith("e")]
            within = (len(est) == 1 and len(ent) == 3 and int(ent[1].split(":")[2]) == 0 and
                      int(kv(mout[1 + i].split(" | ")[-1])["n"]) >= 1)
        except (StopIteration, KeyError, ValueError, IndexError):
            within = False
        stats["batch_events_within_the_premises" if within else "batch_events_outside_the_premises"] = \
            stats.get("batch_events_within_the_premises" if within else "batch_events_outside_the_premises", 0) + 1
    if regime == "streaming":
        try:
            c0 = int(kv(out[0])["cmnframes"])
            m = int(kv(mout[-1].split(" | ")[-1])["n"])
            if c0 + m > P["cmnhwm"]:
                stats.setdefault("hcmn_bad", []).append({"utterance_index_in_the_history": k, "cmn_nframe_at_start": c0, "frames": m})
        except (KeyError, ValueError):
            stats.setdefault("hcmn_bad", []).append({"utterance_index_in_the_history": k, "unreadable": out[0][:120]})


def run_model(P, runs, cmn0):
    lines = [f"init {P['win']} {cmn0} 1", f"cfg {P['fsize']} {P['fshift']}"]
    spans = []
    for r in runs:
        ml = model_lines(P, r)
        spans.append((len(lines), len(ml)))
        lines += ml
    rc, out, err = vlib.run_driver("c07", "\n".join(lines) + "\n", timeout=1800)
    ol = out.rstrip("\n").split("\n")
    return rc, err, [ol[a:a + n] for a, n in spans], lines


# --------------------------------------------------------------------------------------------------
# judging one case = (group, clip, cmn, variant ops) against the reference pattern


def d25_class(run):
    e = kv(run["out"][-2].split(" | ")[0]) if len(run.get("out", [])) >= 2 else {}
    return e.get("ovf") is not None and e.get("ovf") == e.get("fsz")


def mk_run(off, ln, cmn, ops):
    fed = sum(int(o.split()[2]) for o in ops if o.startswith("p "))
    return {"off": off, "len": ln, "cmn": cmn, "ops": list(ops), "fed": min(fed, ln)}


STATE = {"tie_failures": 0, "oracle_failed": False}
REF_LAST = False      # set while a group is judged whose reference pattern is decoded after the variants


def isolated(binp, g, off, ln, cmn, ops, cap):
    """fresh process: warm-up utterance, reference pattern, variant (or variant, reference when REF_LAST).
    Returns (kind, info, runs, P) with kind None | "diff" (record differs) | "crash" (the library died in the variant)."""
    runs = [warmup_run(), mk_run(off, ln, cmn, ref_ops(ln, cap)), mk_run(off, ln, cmn, ops)]
    if REF_LAST:
        runs = [runs[0], runs[2], runs[1]]
    rc, err, P, done = run_harness(binp, g, runs, timeout=600)
    if REF_LAST:
        runs = [runs[0], runs[2], runs[1]]
    info = {"exit_code": rc, "stderr_tail": err[-1500:] if rc != 0 else "", "stderr_head": err[:1200] if rc != 0 else ""}
    if done < 3:
        if REF_LAST:
            vdone = len(runs[2].get("out", [])) == 1 + len(runs[2]["ops"]) + 2
            info["crashed_in"] = "reference" if vdone else "variant"
            info["variant_calls_answered_before_the_crash"] = max(0, len(runs[2].get("out", [])) - 1)
            return ("crash-ref" if vdone else "crash"), info, runs, P
        info["crashed_in"] = "warm-up" if done < 1 else "reference" if done < 2 else "variant"
        nans = len(runs[2].get("out", []))
        info["variant_calls_answered_before_the_crash"] = max(0, nans - 1)
        return ("crash" if done == 2 else "crash-ref"), info, runs, P
    info["reference_record"] = record_of(runs[1]["out"][-1])
    info["variant_record"] = record_of(runs[2]["out"][-1])
    if public_of(info["reference_record"]) != public_of(info["variant_record"]):
        return "diff", info, runs, P
    return ("diff-internal" if info["reference_record"] != info["variant_record"] else None), info, runs, P


def shrink(binp, g, off, ln, cmn, ops, cap, kind, budget=40):
    """fewer / simpler calls that still fail in the same way (same total audio when the failure is a differing record)"""
    tests = 0

    def bad(cand):
        nonlocal tests
        tests += 1
        return isolated(binp, g, off, ln, cmn, cand, cap)[0] == kind
    cur = list(ops)
    if any(o.endswith(" full") for o in cur):
        return [o for o in cur if not o.startswith("q ")] if (kind.startswith("diff") and bad([o for o in cur if not o.startswith("q ")])) else cur
    if kind == "crash":
        k, info, runs, _ = isolated(binp, g, off, ln, cmn, cur, cap)
        if k == "crash":
            n = info["variant_calls_answered_before_the_crash"]
            if n + 1 < len(cur):
                cur = cur[:n + 1]            # the calls after the fatal one are irrelevant
    if kind.startswith("diff"):
        ps = [o for o in cur if o.startswith("p ")]
        for j in (1, 2, 3):
            if len(ps) > j + 1 and tests < budget:
                head = ps[:j]
                tot = sum(int(o.split()[2]) for o in ps[j:])
                cand = head + [f"p i {min(tot, cap)} 0"] + ([f"p i {tot - cap} 0"] if tot > cap else [])
                if bad(cand):
                    cur = cand
                    break
    changed = True
    while changed and tests < budget:
        changed = False
        if kind.startswith("diff"):
            noq = [o for o in cur if not o.startswith("q ")]
            if len(noq) < len(cur) and bad(noq):
                cur, changed = noq, True
                continue
        else:
            for i in range(len(cur) - 1):
                if cur[i].startswith("q ") and tests < budget:
                    cand = cur[:i] + cur[i + 1:]
                    if bad(cand):
                        cur, changed = cand, True
                        break
            if changed:
                continue
        for i in range(len(cur) - 1):
            if tests >= budget:
                break
            a = cur[i].split()
            if a[0] != "p":
                continue
            # merge every following process call up to the next query into this one
            j, tot = i, 0
            while j < len(cur) and cur[j].startswith("p ") and tot + int(cur[j].split()[2]) <= cap:
                tot += int(cur[j].split()[2])
                j += 1
            if j - i >= 3:
                cand = cur[:i] + [f"p {a[1]} {tot} {a[3]}"] + cur[j:]
                if bad(cand):
                    cur, changed = cand, True
                    break
            b = cur[i + 1].split()
            if b[0] == "p" and int(a[2]) + int(b[2]) <= cap:
                cand = cur[:i] + [f"p {a[1]} {int(a[2]) + int(b[2])} {a[3]}"] + cur[i + 2:]
                if bad(cand):
                    cur, changed = cand, True
                    break
        if not changed:
            simp = [re.sub(r"^p f ", "p i ", o) for o in cur]
            simp = [re.sub(r"^(p \w \d+) 1$", r"\1 0", o) for o in simp]
            if simp != cur and tests < budget and bad(simp):
                cur, changed = simp, True
    return cur


def crash_key(err):
    """witness class of a sanitizer report / assertion: the innermost library frame"""
    m = re.search(r"runtime error: ([a-z ]+?)[:\n].*?#0 \S+ in (\w+)", err, re.S)
    if m:
        return f"{m.group(1).strip()} in {m.group(2)}"
    m = re.search(r"Assertion `([^']*)' failed", err)
    if m:
        return "assert " + m.group(1)
    m = re.search(r"ERROR: AddressSanitizer: (\S+).*?#0 \S+ in (\w+)", err, re.S)
    if m:
        return f"{m.group(1)} in {m.group(2)}"
    return None


MAX_REPLAYS = 5


def report_violation(c, binp, g, off, ln, cmn, ops, cap, why):
    """shrink, classify and record; returns (kind of the failure in isolation, finding key)"""
    kind, info, runs, P = isolated(binp, g, off, ln, cmn, ops, cap)
    if kind is None:
        return None, None
    if len(c.violations) >= MAX_REPLAYS:
        return kind, None                # already reported enough witnesses in this run; counted in the statistics
    if kind == "crash-ref":
        small = ref_ops(ln, cap)
    else:
        small = shrink(binp, g, off, ln, cmn, ops, cap, kind, budget=30 if c.tier == "quick" else 80)
        k2, info2, runs2, _ = isolated(binp, g, off, ln, cmn, small, cap)
        if k2 == kind:
            info, runs = info2, runs2
        else:
            small = ops
    key = None
    if kind.startswith("diff") and (d25_class(runs[1]) or d25_class(runs[2])):
        key = D25_KEY
    elif not kind.startswith("diff"):
        key = crash_key(info.get("stderr_head", "") + info.get("stderr_tail", ""))
    visible = kind != "diff-internal"
    replay = {"kind": "decoder call pattern",
              "failure": "result (hypothesis / scores / segmentation / alignment / frame count) differs from the reference pattern" if kind == "diff"
              else "the feature vectors handed to the search differ from the reference pattern (features_canonical broken on the "
                   "implementation); the decoded result itself is the same on this input" if kind == "diff-internal"
              else "the library aborted / reported a sanitizer error under this call pattern (no result)",
              "group": g["name"], "hmm": g["hmm"], "cfg": g["cfg"], "audio": g["audio"],
              "clip_offset_samples": off, "clip_length_samples": ln, "cmn": cmn,
              "reference_ops": ref_ops(ln, cap), "variant_ops": small, "why": why,
              "reference_decoded_after_the_variant": REF_LAST, "reference_buffered_no_search": REF_NOSEARCH,
              "warm_up_is_a_full_utt_decode": MODE["warm_full"], "reference_full_utt": MODE["ref_full"],
              "warm_up_streamed_samples": MODE.get("warm_len") or False,
              "implementation_violates_property": visible, "finding_class": key,
              "how_to_rerun": "python3 tools/check.py C07 --replay <this file>   (a warm-up utterance, the reference "
                              "pattern and the variant are decoded by harness/h_c07 in one fresh process; ops: "
                              "'p <i|f> <samples> <no_search>', 'q hyp|seg|align|ralign')"}
    replay.update(info)
    sig = (g["name"], off, ln, tuple(small), kind, REF_LAST, REF_NOSEARCH, MODE["warm_full"], MODE["ref_full"], MODE.get("warm_len"))
    if sig not in STATE.setdefault("reported", set()):
        STATE["reported"].add(sig)
        c.violation(replay, visible, finding_key=key)
    return kind, key


# --------------------------------------------------------------------------------------------------


def new_stats():
    from collections import Counter
    return {"steps": 0, "branches": Counter(), "kinds": Counter(), "chunks": Counter(), "entry": Counter(),
            "nosearch": Counter(), "queries": Counter(), "clip_frames": Counter(), "first_chunk_lt_window": 0,
            "one_sample_chunks": 0, "chunks_gt_ring": 0, "utterances": 0, "groups": Counter(),
            "reference_with_hypothesis": 0, "reference_without_hypothesis": 0, "patterns_differing_from_reference": 0,
            "patterns_differing_in_the_visible_result": 0, "end_edge_frames": Counter(), "seconds": Counter()}


def bucket(n):
    for b in (0, 1, 49, 159, 160, 161, 409, 410, 411, 3000, 20730, 32767):
        if n <= b:
            return f"<={b}"
    return ">32767"


def note_pattern(stats, P, kind, ops, ln):
    stats["kinds"][kind] += 1
    ps = [o.split() for o in ops if o.startswith("p ")]
    for w in ps:
        n = int(w[2])
        stats["chunks"][bucket(n)] += 1
        stats["entry"]["int16" if w[1] == "i" else "float32"] += 1
        stats["nosearch"][w[3]] += 1
        if n == 1:
            stats["one_sample_chunks"] += 1
        if n > P["fsize"] + (P["nmfc"] - 1) * P["fshift"]:
            stats["chunks_gt_ring"] += 1
    if ps and 0 < int(ps[0][2]) < P["fsize"] and ln >= P["fsize"]:
        stats["first_chunk_lt_window"] += 1
    for o in ops:
        if o.startswith("q "):
            stats["queries"][o.split()[1]] += 1


def probe(binp):
    rc, out, err = vlib.run_bin(binp, stdin_text="probe-d9\n", timeout=120)
    m = re.search(r"probe-d9 (\d)", out)
    return bool(m and m.group(1) == "1")


def check_group(c, binp, g, cases, cap, stats, label, depth=0, ref_last=False, ref_nosearch=False, warm_full=False,
                ref_full=False, warm_len=False):
    import time as _t
    t0 = _t.time()
    try:
        return _check_group(c, binp, g, cases, cap, stats, label, depth, ref_last, ref_nosearch, warm_full, ref_full, warm_len)
    finally:
        stats["seconds"][label.split(" M=")[0][:40]] += round(_t.time() - t0, 1)


def _check_group(c, binp, g, cases, cap, stats, label, depth=0, ref_last=False, ref_nosearch=False, warm_full=False,
                 ref_full=False, warm_len=False):
    """cases: list of (off, len, cmn, [(kind, ops), ...], cap).  Returns (ok, P).
    ref_last: decode the variants before the reference pattern (on a fresh decoder the variants then meet the
    initial buffer sizes, which the single-call reference would have grown)."""
    global REF_LAST, REF_NOSEARCH
    REF_LAST = ref_last
    REF_NOSEARCH = ref_nosearch
    MODE["warm_full"], MODE["ref_full"], MODE["warm_len"] = warm_full, ref_full, warm_len
    runs = [warmup_run()]
    index = []               # (case idx, variant idx or -1 for the reference) per run after the warm-up
    for ci, (off, ln, cmn, variants, cap_c) in enumerate(cases):
        if not ref_last:
            runs.append(mk_run(off, ln, cmn, ref_ops(ln, cap_c)))
            index.append((ci, -1))
        for vi, (kind, ops) in enumerate(variants):
            runs.append(mk_run(off, ln, cmn, ops))
            index.append((ci, vi))
        if ref_last:
            runs.append(mk_run(off, ln, cmn, ref_ops(ln, cap_c)))
            index.append((ci, -1))
    rc, err, P, done = run_harness(binp, g, runs)
    ok = True
    if done < len(runs):
        # the library died (sanitizer report, assert, exit): a pattern without a result
        if done < 1:
            c.oblige(f"harness ran the warm-up utterance ({label})", False, {"exit_code": rc, "stderr_tail": err[-1500:]})
            return False, P
        ci, vi = index[done - 1]
        off, ln, cmn, variants, cap_c = cases[ci]
        ops = ref_ops(ln, cap_c) if vi < 0 else variants[vi][1]
        kind, key = report_violation(c, binp, g, off, ln, cmn, ops, cap_c,
                                     "the library aborted / reported a sanitizer error under this call pattern")
        known = key is not None and any(k == key for k, _ in c.known_hits)
        if not known:
            STATE["oracle_failed"] = True
        if kind is None:
            c.oblige(f"harness ran every pattern to completion ({label})", False,
                     {"exit_code": rc, "stderr_tail": err[-1500:], "pattern": ops[:40],
                      "note": "dies inside the batch run but not in isolation: depends on earlier utterances"})
            c.violation({"kind": "decoder call pattern (history dependent crash)", "group": g["name"],
                         "clip_offset_samples": off, "clip_length_samples": ln, "cmn": cmn, "variant_ops": ops[:400],
                         "exit_code": rc, "stderr_tail": err[-1500:], "implementation_violates_property": True}, True)
        # go on with the remaining patterns so that one defect does not hide the others
        if depth < 4:
            rest = []
            for cj, (o2, l2, m2, v2, cp2) in enumerate(cases):
                if cj < ci:
                    continue
                if cj == ci:
                    v2 = [] if vi < 0 else v2[vi + 1:]
                    if not v2:
                        continue
                rest.append((o2, l2, m2, v2, cp2))
            if rest:
                ok2, P = check_group(c, binp, g, rest, cap, stats, label, depth + 1, ref_last, ref_nosearch, warm_full, ref_full, warm_len)
                return (ok2 and known), P
        return known, P
    # ---- oracle: every record identical to the reference record of its clip
    refs = {}
    bad_cases = []
    for r, (ci, vi) in zip(runs[1:], index):
        if vi < 0:
            refs[ci] = (record_of(r["out"][-1]), r)
    for r, (ci, vi) in zip(runs[1:], index):
        rec = record_of(r["out"][-1])
        stats["utterances"] += 1
        if vi < 0:
            refs[ci] = (rec, r)
            nfr = int(kv(rec).get("nfr", "1")) - 1
            stats["clip_frames"]["0" if nfr == 0 else "1-4" if nfr <= 4 else "5-20" if nfr <= 20 else "21-128" if nfr <= 128 else "129-300"] += 1
            stats["reference_with_hypothesis" if kv(rec).get("hyp") not in ("~", "-") else "reference_without_hypothesis"] += 1
            if int(kv(rec).get("cmnframes", "0")) > P["cmnhwm"]:
                c.oblige("generator keeps utterances shorter than the CMN update window", False, rec[:200])
        elif rec != refs[ci][0]:
            bad_cases.append((public_of(rec) == public_of(refs[ci][0]), ci, vi))
    stats["patterns_differing_from_reference"] += len(bad_cases)
    stats["patterns_differing_in_the_visible_result"] += sum(1 for b in bad_cases if not b[0])
    bad_cases.sort(key=lambda b: b[0])          # visible differences first
    seen_keys = set()
    for _, ci, vi in bad_cases:
        if len(seen_keys) >= 2 or len(c.violations) >= MAX_REPLAYS:
            ok = False
            break
        off, ln, cmn, variants, cap_c = cases[ci]
        kind, key = report_violation(c, binp, g, off, ln, cmn, variants[vi][1], cap_c,
                                     "result record differs from the reference pattern of the same clip")
        seen_keys.add((kind, key))
        if kind is None and len(c.violations) < MAX_REPLAYS:
            # differs only in the long history of the batch run: report that run as it is
            c.violation({"kind": "decoder call pattern (history dependent)", "group": g["name"],
                         "clip_offset_samples": off, "clip_length_samples": ln, "cmn": cmn,
                         "variant_ops": variants[vi][1], "reference_record": refs[ci][0],
                         "variant_record": record_of(runs[1 + index.index((ci, vi))]["out"][-1]),
                         "note": "differs inside the batch run but not in isolation: the result depends on earlier utterances",
                         "implementation_violates_property": True}, True)
        if not (key and any(k == key for k, _ in c.known_hits)):
            ok = False
    # ---- tie: model vs implementation
    cmn0 = int(kv(runs[0]["out"][0])["cmnframes"])
    mrc, merr, mouts, mscript = run_model(P, runs, cmn0)
    if mrc != 0:
        c.oblige(f"model driver runs ({label})", False, merr[-800:])
        return False, P
    tie_ok = True
    winmaps = {}
    for k, (r, mo) in enumerate(zip(runs, mouts)):
        problems = []
        ci = index[k - 1][0] if k > 0 else -1
        compare_run(P, r, mo, winmaps.setdefault(ci, {}), problems, stats)
        if len(mo) >= 2 and len(r.get("out", [])) >= 2:
            prior_state_wf0(P, r, mo, k, stats)
        branch_stats(P, r, stats)
        if problems and tie_ok:
            tie_ok = False
            STATE["tie_failures"] += 1
            if STATE["tie_failures"] > 2:
                continue                 # already reported; keep looking for an input on which the oracle fails
            c.oblige(f"correspondence model = implementation ({label})", False,
                     {"group": g["name"], "clip": (r["off"], r["len"]), "ops": r["ops"][:60], "first_problems": problems[:3]})
            if ok and k > 0:
                # look for a failing input in the neighbourhood of the diverging pattern
                off, ln, cmn, variants, cap_c = cases[ci]
                report_violation(c, binp, g, off, ln, cmn, r["ops"], cap_c,
                                 "model and implementation diverge on this pattern: " + problems[0][:300])
    stats["groups"][g["name"]] += len(runs) - 1
    if not ok:
        STATE["oracle_failed"] = True
    return ok and tie_ok, P


# --------------------------------------------------------------------------------------------------
# round 3 (wave 5): ring-residue sweep and early / refused queries


def frames_to_samples(rng, P, M):
    """a clip length that gives exactly M cepstral frames (M - 1 from fe_process, one from fe_end), M >= 2"""
    return P["fsize"] + (M - 2) * P["fshift"] + rng.below(P["fshift"])


def ring_phase_targets(rng, P, tier):
    """(r, M): r = write position of the live feature ring (feat.c cepbuf, LIVEBUFBLOCKSIZE slots, bufpos survives from
    utterance to utterance) at the moment the end-of-utterance padding is written; M = cepstral frames of the clip, drawn
    next to every other ring / block size on the path (n_mfc_alloc, n_feat_alloc = 128 * 2^k) or short"""
    Lb, win = P["livebuf"], P["win"]
    crit = [0, 1, 2, win, win + 1, Lb - 1, Lb - 2, Lb - win, Lb - win - 1]          # wrap of the padding / of tpos / of the window
    if tier == "quick":
        rest = crit[2:5] + crit[6:]
        rng.shuffle(rest)
        rs = crit[:2] + [Lb - 1] + rest[:2] + [rng.below(Lb)]
    else:
        rs = list(range(Lb))
    out = []
    sizes = sorted(set([P["nmfc"], P["nfeat"]]))
    for r in rs:
        k = rng.below(100)
        if k < (70 if tier == "quick" else 55):
            M = rng.range(12, 60)                                  # short: the sweep is about r
        elif k < 85:
            M = rng.choice(sizes) + rng.range(-3, 6)               # frame count next to a ring size as well
        else:
            M = rng.range(60, 250)
        out.append((r, M))
    return out


def ring_phase_family(c, binp, groups, cap, stats, distinct):
    """Utterance ends at EVERY residue of the live feature ring.  Each case is a process of its own: a streamed warm-up
    utterance of Mw frames leaves curpos at (Mw + win) mod L (the next utterance starts writing there: feat.c
    `bufpos = curpos` at beginutt), the chunked variant of M frames then writes its end padding at bufpos
    r = (Mw + win + win + M) mod L, the one-call reference of the same clip follows at another residue (r + M + win)
    -- so a defect of the index arithmetic at ONE residue (padding source, window wrap) shows as
    a differing record, and `isolated` reruns exactly the same three utterances.  Returns (ok, number of variants)."""
    allok, nvar = True, 0
    hit = stats.setdefault("ring_phase_cases (r = bufpos at the end flush of the variant; frames)", [])
    for gi, g in enumerate(groups):
        rc, err, P, _ = run_harness(binp, g, [])
        if not P:
            break
        Lb, win, N = P["livebuf"], P["win"], P["naudio"]
        maxM = min(299, (N - P["fsize"]) // P["fshift"] + 1)
        # thorough: every residue 0 .. L-1 on the first model, the critical ones on the others
        for (r, M) in ring_phase_targets(c.rng, P, c.tier if gi == 0 else "quick"):
            if STATE["oracle_failed"]:
                return allok, nvar
            M = max(2, min(M, maxM))
            Mw = (r - 2 * win - M) % Lb
            if Mw < 2:
                Mw += Lb
            if Mw > maxM:
                continue
            ln, lw = frames_to_samples(c.rng, P, M), frames_to_samples(c.rng, P, Mw)
            # inside the spoken part of the recording where the length allows: a hypothesis exists, so a wrong padding
            # shows in the visible record (scores of the last segment), not only in the feature vectors
            off = min(c.rng.range(N // 8, N // 2), max(0, N - ln))
            kind = c.rng.choice(["random", "mixed", "queries", "tinyfirst", "buffered", "chunks"])
            if kind == "chunks":
                csz = c.rng.choice([1024, 2048, 160, 4000])
                ops = [f"p {'f' if c.rng.chance(0.5) else 'i'} {min(csz, ln - i)} 0" for i in range(0, ln, csz)]
            else:
                ops = gen_pattern(c.rng, ln, P, cap, kind)
            note_pattern(stats, P, "ringphase", ops, ln)
            distinct.add(hash((g["name"], off, ln, lw, tuple(ops), "ringphase")))
            nvar += 1
            hit.append(f"r={r} M={M} warm-up={Mw}")
            ok, P = check_group(c, binp, g, [(off, ln, c.rng.choice(CMNS), [("ringphase " + kind, ops)], cap)], cap, stats,
                                f"ring-residue sweep {g['name']}", ref_last=True, warm_len=lw)
            allok = allok and ok
    return allok, nvar


def early_query_ops(rng, L, P, cap, k, qkind, nosearch):
    """a first piece after which exactly k frames have been searched (k + win cepstral frames delivered; with
    nosearch the same piece is only buffered), the query, a second small piece and the same query again, then the rest"""
    fs, sh, win = P["fsize"], P["fshift"], P["win"]
    T = k + win
    n1 = rng.range(1, fs - 1) if k == 0 and rng.chance(0.5) else fs + (T - 1) * sh + rng.below(sh)
    e = lambda: "f" if rng.chance(0.3) else "i"
    ops, left = [], L
    for n in (n1, rng.choice([sh, 2 * sh, rng.range(1, 3 * sh)])):
        n = min(n, left, cap)
        ops += [f"p {e()} {n} {nosearch}", f"q {qkind}"]
        left -= n
    while left > 0:
        n = min(left, cap, rng.choice([left, rng.range(200, 6000)]))
        ops.append(f"p {e()} {n} 0")
        left -= n
    return ops


def early_query_family(c, binp, groups, cap, stats, distinct):
    """Queries of every kind (hypothesis, segmentation, alignment, alignment REFUSED for want of a hypothesis) at every
    early point of the utterance: after 0, 1, 2, ... frames searched, searched or only buffered.  A refused query is a
    query: the final record and the frame count must not change."""
    allok, nvar = True, 0
    ks = [0, 1, 2, 3, 4, 5] if c.tier == "quick" else [0, 1, 2, 3, 4, 5, 6, 8, 12]
    for g in groups:
        if STATE["oracle_failed"]:
            break
        rc, err, P, _ = run_harness(binp, g, [])
        if not P:
            break
        N = P["naudio"]
        cases = []
        for ci in range(2 if c.tier == "quick" else 6):
            ln = frames_to_samples(c.rng, P, c.rng.range(14, 40) if ci else c.rng.range(60, 120))
            off = c.rng.below(max(1, N - ln))
            variants = []
            for k in ks:
                for qkind in (["ralign", c.rng.choice(["hyp", "seg", "align"])] if c.tier == "quick" else ["ralign", "hyp", "seg", "align"]):
                    ns = 1 if (c.rng.chance(0.15) and k > 0) else 0
                    ops = early_query_ops(c.rng, ln, P, cap, k, qkind, ns)
                    variants.append(("earlyquery", ops))
                    note_pattern(stats, P, "earlyquery", ops, ln)
                    distinct.add(hash((g["name"], off, ln, tuple(ops), "earlyquery")))
                    nvar += 1
            cases.append((off, ln, c.rng.choice(CMNS), variants, cap))
        ok, P = check_group(c, binp, g, cases, cap, stats, f"early and refused queries {g['name']}")
        allok = allok and ok
    return allok, nvar


RING_SHAPES = [  # (frames pending in the ring, frames passed in, beginutt, endutt)
    (3, 0, 0, 1), (3, 1, 0, 1), (3, 2, 0, 1), (0, 1, 0, 1), (5, 1, 0, 1),      # end of utterance: padding from the last slot
    (3, 1, 0, 0), (3, 4, 0, 0), (3, 0, 0, 0), (9, 17, 0, 0),                    # middle of an utterance: copy + windows
    (3, 1, 1, 0), (3, 5, 1, 0), (0, 0, 1, 0), (3, 0, 1, 1), (7, 3, 1, 1),      # start (input pointer reset, first frame replicated), block path
    (3, 246, 0, 1), (3, 247, 0, 1), (3, 248, 0, 1), (3, 250, 0, 0), (3, 251, 0, 0)]   # live-buffer clamp boundary (D67)


def ring_unit_tie(c, stats):
    """The index arithmetic of feat_s2mfc2feat_live at EVERY position of the live feature ring, exhaustively and on every
    run: harness/h_c07r.c calls the real function on a feat_t whose ring slots and input frames carry identifying
    markers, with curpos at each of the LIVEBUFBLOCKSIZE positions, for a list of call shapes (pending frames, frames
    passed in, beginutt, endutt); `ssdriver c07` runs the model function `featLive` (the one the C07 theorems and
    Props/C07Ring.lean are about) on the same state; which id every changed slot holds afterwards, bufpos, curpos,
    *inout_ncep, the number of feature vectors and three coefficients of each (functions of all 2 win + 1 window
    entries) must be equal.  This is the tie of the ring-position theorems: no residue is left to sampling."""
    binr = vlib.build_harness("h_c07r")
    rc, out, err = vlib.run_bin(binr, stdin_text="", timeout=120)
    hdr = kv(out.split("\n")[0]) if out.startswith("ring ok") else {}
    if not hdr:
        c.oblige("ring harness initialises", False, (out + err)[-600:])
        return False
    Lb, win = int(hdr["livebuf"]), int(hdr["win"])
    shapes = list(RING_SHAPES)
    for _ in range(6 if c.tier == "quick" else 60):
        b, e = c.rng.below(2), c.rng.below(2)
        shapes.append((c.rng.below(12) if not b else c.rng.below(Lb), c.rng.range(0 if not (b and e) else 1, 40), b, e))
    ops = [f"ring {cp} {nb} {n} {b} {e}" for (nb, n, b, e) in shapes for cp in range(Lb)]
    rc, out, err = vlib.run_bin(binr, stdin_text="\n".join(ops) + "\n", timeout=600)
    cl = out.rstrip("\n").split("\n")[1:]
    rc2, mout, merr = vlib.run_driver("c07", f"init {win} 0 1\n" + "\n".join(ops) + "\n", timeout=600)
    ml = mout.rstrip("\n").split("\n")[1:]
    bad = []
    if rc != 0 or rc2 != 0 or len(cl) != len(ops) or len(ml) != len(ops):
        bad.append({"harness_exit": rc, "driver_exit": rc2, "lines": [len(ops), len(cl), len(ml)], "stderr": (err + merr)[-800:]})
    for op, a, b in zip(ops, cl, ml):
        if a != b and len(bad) < 3:
            bad.append({"op (ring <curpos> <pending> <ncep> <beginutt> <endutt>)": op, "C": a[:400], "model": b[:400]})
    pads = sum(1 for (nb, n, b, e) in shapes if e and not (b and n > 0) and nb + n + 2 * win <= Lb - win)
    stats["ring_unit"] = {"ring_positions": Lb, "call_shapes": len(shapes), "calls_compared": len(ops),
                          "of_which_end_of_utterance_paddings (every write position 0..L-1 each)": pads * Lb}
    c.oblige("correspondence (live feature ring, every position): feat_s2mfc2feat_live on the real code = model featLive for "
             "curpos = 0 .. LIVEBUFBLOCKSIZE-1 x every call shape: slot contents, bufpos, curpos, frames consumed, features",
             not bad, bad or stats["ring_unit"])
    return not bad


def load_corpus():
    out = []
    for f in sorted((vlib.ROOT / "corpus" / "C07").glob("*.json")):
        out.append((f.name, json.loads(f.read_text())))
    return out


def group_by_name(name):
    for g in GROUPS:
        if g["name"] == name:
            return g
    return GROUPS[0]


def check(c):
    c.trusted += ["harness/h_c07.c (observation of front-end calls and acmod_score through linker --wrap, result record printing) "
                  "+ tools/props/c07.py (generator, canonicalisation, diff, record comparison)",
                  "tools/gen_acmod.py (extraction of LIVEBUFBLOCKSIZE, ring sizes, CMN_WIN(_HWM), window sizes)",
                  "harness/h_c07r.c (marker-valued frames through the real feat_s2mfc2feat_live at every ring position; reads "
                  "fcb->cepbuf / bufpos / curpos and three coefficients of each feature vector)",
                  "determinism of the compiled front end / GMM / search for identical feature vectors (C08)",
                  "C06: the cepstral frames themselves do not depend on chunking (the D25 class is reported under its own key)",
                  "clang ASan/UBSan + assert() as observers of out-of-range accesses in acmod.c / feat.c"]
    c.assumptions += ["utterances shorter than CMN_WIN_HWM - CMN_WIN = 300 frames after decoder_set_cmn (the property's 'shorter than the "
                      "channel-normalisation update window'); the generator enforces it and the harness reports cmn->nframe",
                      "full_utt = 0 throughout (full_utt = 1 is the batch-CMN regime, not compared against streaming)",
                      "cmn != none; acmod_set_grow(FALSE) is not reachable through the decoder API",
"no assumption on the size of the cepstrum ring any more: the streaming theorems hold for every n_mfc_alloc >= 1 (a full_utt "
                      "utterance enlarges it for good; live-buffer clamp, D62 drain loop, D66 and D67 repairs are in the model and proved)",
                      "front end: Props/C07Fe.lean composes M5 with c06's model of fe_process/fe_end (Model/FeBuf.lean, D25-repaired), so "
                      "for streaming utterances the front-end contract (never more frames than the room offered; fe_end yields the "
                      "pending frame iff frames were delivered or samples are pending) is a theorem, under 0 < frame_shift < frame_size; "
                      "it is also checked on every run, and for every streaming utterance the driver replays the composed model from the chunk "
                      "lengths alone and every fe call's <room offered>:<frames>:<samples left> must equal the observed one; the batch "
                      "regime (full_utt = 1) still takes the observed responses as given",
                      "frame_shift < frame_size (with frame_shift = frame_size an utterance ending exactly on a window boundary has no "
                      "fe_end frame and acmod_end_utt then never flushes the end padding: outside the shipped configurations)",
                      "decoder_alignment is only requested when the current segmentation contains a dictionary word (D27 is C09/C14's)"]
    if not lean_all(c):
        return
    binp = vlib.build_harness("h_c07", extra_flags=WRAP)
    d9 = probe(binp)
    cap = 32767 if d9 else 10 ** 9
    stats = new_stats()
    stats["d9_stale_assert_present"] = d9
    STATE["tie_failures"], STATE["oracle_failed"], STATE["reported"] = 0, False, set()
    allok = True
    allok = ring_unit_tie(c, stats) and allok
    # ---- corpus first
    ncorp = 0
    batches = {}                 # corpus cases that share model, grammar and judging mode run in one process
    for name, obj in load_corpus():
        if obj.get("needs_calls_longer_than_32767") and d9:
            continue
        key = (obj["group"], bool(obj.get("reference_decoded_after_the_variant")), bool(obj.get("reference_buffered_no_search")),
               obj.get("warm_up_is_a_full_utt_decode") or False, bool(obj.get("reference_full_utt")),
               obj.get("warm_up_streamed_samples") or False)
        if key[1] or key[3] or key[5]:
            key = key + (name,)  # order- / warm-up-sensitive cases keep a process of their own
        batches.setdefault(key, []).append((name, obj))
    for key, items in batches.items():
        g = group_by_name(key[0])
        cases = [(o["clip_offset_samples"], o["clip_length_samples"], o["cmn"], [("corpus " + n, o["variant_ops"])],
                  min(cap, o.get("cap", 10 ** 9))) for n, o in items]
        ncorp += len(items)
        ok, P = check_group(c, binp, g, cases, cap, stats, "corpus " + ", ".join(n[:28] for n, _ in items)[:60],
                            ref_last=key[1], ref_nosearch=key[2], warm_full=key[3], ref_full=key[4], warm_len=key[5])
        allok = allok and ok
    # ---- round 3: queries at every early point (refused ones included); utterance ends at every residue of the live ring
    nvar0 = 0
    distinct0 = set()
    ok, n = early_query_family(c, binp, GROUPS[:1] + GROUPS[4:5] if c.tier == "quick" else GROUPS, cap, stats, distinct0)
    allok, nvar0 = allok and ok, nvar0 + n
    ok, n = ring_phase_family(c, binp, GROUPS[:1] if c.tier == "quick" else GROUPS[:2], cap, stats, distinct0)
    allok, nvar0 = allok and ok, nvar0 + n
    # ---- generated cases
    npat = 6 if c.tier == "quick" else 40
    rounds = 1 if c.tier == "quick" else 4
    groups = GROUPS[:2] if c.tier == "quick" else GROUPS
    P0 = {"fsize": 410, "fshift": 160, "nmfc": 128}
    nvar = nvar0
    distinct = distinct0
    # ---- end-of-utterance flush against the end of feat_buf: critical utterance lengths, immediate search in several
    #      chunk sizes, each on a fresh decoder (feat_buf has its initial size, grown only by doubling), compared with the
    #      buffered (no_search) single call; the same lengths are also in the clip list of the reused decoders above
    nedge = 0
    for g in (groups[:1] if c.tier == "quick" else groups):
        if STATE["oracle_failed"]:
            break
        rc, err, P, _ = run_harness(binp, g, [])
        if not P:
            break
        for (M, alloc, ln) in end_edge_lengths(c.rng, P["naudio"], P, c.tier):
            if STATE["oracle_failed"]:
                break
            off = 0
            cmn = c.rng.choice(CMNS)
            one = ("end-edge one call", [f"p i {min(ln, cap)} 0"] + ([f"p i {ln - cap} 0"] if ln > cap else []))
            variants = []
            for csz in ([1024] if c.tier == "quick" else [1024, 2048, 160, 4000]):
                variants.append((f"end-edge {csz}-sample chunks",
                                 [f"p {'f' if c.rng.chance(0.5) else 'i'} {min(csz, ln - i)} 0" for i in range(0, ln, csz)]))
            ops = [re.sub(r"^(p \w \d+) 1$", r"\1 0", o) for o in gen_pattern(c.rng, ln, P, cap, "random")]
            variants.append(("end-edge random immediate", ops))
            if c.tier != "quick":
                variants.append(("end-edge mixed", gen_pattern(c.rng, ln, P, cap, "mixed")))
                variants.append(("end-edge queries", gen_pattern(c.rng, ln, P, cap, "queries")))
                c.rng.shuffle(variants)          # which variant meets the untouched buffer size varies
            variants.append(one)                 # (a first call of more than 128 frames grows the buffer differently: last)
            for kind, ops in variants:
                note_pattern(stats, P, kind.split(" ")[0], ops, ln)
                distinct.add(hash((g["name"], off, ln, cmn, tuple(ops), "edge")))
                nvar += 1
            stats["end_edge_frames"][f"{alloc}{M - alloc:+d}"] += 1
            nedge += 1
            ok, P = check_group(c, binp, g, [(off, ln, cmn, variants, cap)], cap, stats,
                                f"end-of-utterance edge {g['name']} M={M}", ref_last=True, ref_nosearch=True)
            allok = allok and ok
    for rnd in range(rounds):
        for g in groups:
            if STATE["oracle_failed"]:
                break
            # header probe for the parameters of this model
            rc, err, P, _ = run_harness(binp, g, [])
            if not P:
                c.oblige(f"decoder initialises for {g['name']}", False, err[-800:])
                allok = False
                break
            N = P["naudio"]
            cases, fresh = [], []
            for (off, ln) in gen_clips(c.rng, N, P, c.tier):
                cmn = c.rng.choice(CMNS)
                variants = []
                kinds = list(KINDS)
                c.rng.shuffle(kinds)
                n_here = npat if ln > P["fsize"] else max(3, npat // 2)
                long_clip = ln >= P["fsize"] + (P["nfeat"] + P["win"] + 1) * P["fshift"]
                if long_clip:
                    kinds = ["edge", "edge"] + [k for k in kinds if k != "edge"]
                for i in range(n_here):
                    kind = kinds[i % len(kinds)]
                    if ln < 3000 and kind == "huge":
                        kind = "single"
                    if kind == "edge" and not long_clip:
                        kind = "random"
                    ops = gen_pattern(c.rng, ln, P, cap, kind)
                    variants.append((kind, ops))
                    note_pattern(stats, P, kind, ops, ln)
                    distinct.add(hash((g["name"], off, ln, cmn, tuple(ops))))
                    nvar += 1
                    if len(c.samples) < 6 and i == 0:
                        c.samples.append({"group": g["name"], "clip": [off, ln], "cmn": cmn, "kind": kind, "ops": ops[:12] + (["..."] if len(ops) > 12 else [])})
                if long_clip:
                    fresh.append((off, ln, cmn, variants, cap))
                else:
                    cases.append((off, ln, cmn, variants, cap))
            ok, P = check_group(c, binp, g, cases, cap, stats, f"generated {g['name']} round {rnd}")
            allok = allok and ok
            for fi, case in enumerate(fresh):
                if STATE["oracle_failed"]:
                    break
                # a fresh decoder per long clip: feat_buf still has its initial size when the first variants run
                ok, P = check_group(c, binp, g, [case], cap, stats, f"generated {g['name']} round {rnd} long clip {fi}",
                                    ref_last=True)
                allok = allok and ok
    # ---- the batch regime (full_utt = 1) against itself, and streaming on a decoder whose cepstrum ring an earlier batch
    #      utterance has enlarged for good (live-buffer clamp, frames left in the ring between calls)
    for g in (groups[:1] if c.tier == "quick" else groups):
        if STATE["oracle_failed"]:
            break
        rc, err, P, _ = run_harness(binp, g, [])
        if not P:
            break
        N, fs, sh = P["naudio"], P["fsize"], P["fshift"]
        lens = [min(N, fs + 299 * sh - 1), fs + 2 * sh + c.rng.below(sh), c.rng.range(1, fs - 1)]
        if c.tier != "quick":
            lens += [fs, fs + sh, c.rng.range(4000, 20000), c.rng.range(20000, 40000), fs + 127 * sh + c.rng.below(sh)]
        cases = []
        for ln in lens:
            ln = min(ln, N)
            off = 0 if ln > N - 10 else c.rng.below(N - ln)
            e = lambda: "f" if c.rng.chance(0.5) else "i"
            variants = [("full float32", [f"p f {ln} 0 full"]), ("full buffered", [f"p {e()} {ln} 1 full"]),
                        ("full queries", ["q hyp", f"p {e()} {ln} 1 full", "q seg", "q align"]),
                        ("full queries", [f"p {e()} {ln} 0 full", "q align", "q hyp", "q align"])]
            for kind, ops in variants:
                note_pattern(stats, P, "full_utt", ops, ln)
                distinct.add(hash((g["name"], off, ln, tuple(ops), "full")))
                nvar += 1
            cases.append((off, ln, c.rng.choice(CMNS), variants, cap))
        ok, P = check_group(c, binp, g, cases, cap, stats, f"batch regime {g['name']}", ref_full=True)
        allok = allok and ok
        if STATE["oracle_failed"]:
            break
        cases = []
        for ln in [min(N, fs + 299 * sh - 1), c.rng.range(8000, 30000)] + ([c.rng.range(300, 3000), fs + 130 * sh] if c.tier != "quick" else []):
            ln = min(ln, N)
            off = 0 if ln > N - 10 else c.rng.below(N - ln)
            variants = []
            for kind in (["huge", "random", "mixed"] if c.tier == "quick" else
                         ["huge", "random", "buffered", "mixed", "queries", "bufquery", "single", "tinyfirst", "huge", "random"]):
                ops = gen_pattern(c.rng, ln, P, cap, kind)
                variants.append((kind, ops))
                note_pattern(stats, P, "after-batch " + kind, ops, ln)
                distinct.add(hash((g["name"], off, ln, tuple(ops), "afterfull")))
                nvar += 1
            cases.append((off, ln, c.rng.choice(CMNS), variants, cap))
        ok, P = check_group(c, binp, g, cases, cap, stats, f"streaming after a batch utterance {g['name']}", warm_full=True)
        allok = allok and ok
        if STATE["oracle_failed"]:
            break
        # a batch utterance shorter than the streamed one (ring of K frames, K < frames of the recording): the queued
        # cepstra of one call then wrap around the ring end with a first part longer than the live buffer takes (D66),
        # and calls that deliver exactly LIVEBUFBLOCKSIZE - 2*win - {2,1,0} frames meet the clamp boundary (D67)
        K = c.rng.range(255, 268)
        lb = fs + (K - 2) * sh + c.rng.below(sh)
        ln = min(N, fs + 299 * sh - 1)
        if lb < ln:
            win, L = P["win"], P["livebuf"]
            first = fs + (c.rng.range(3, 9) - 1) * sh + c.rng.below(sh)          # a few frames, so that the queue wraps later
            variants = [("after-batch wrap", [f"p i {first} 0", f"p i {ln - first} 0"])]
            for d in ((1,) if c.tier == "quick" else (0, 1, 2)):
                m = L - 2 * win - d                                              # frames the second call delivers
                second = m * sh
                if first + second < ln:
                    variants.append(("after-batch clamp-edge", [f"p i {first} 0", f"p i {second} 0", f"p i {ln - first - second} 0"]))
            for kind in (["huge"] if c.tier == "quick" else ["huge", "random", "mixed", "queries"]):
                variants.append((kind, gen_pattern(c.rng, ln, P, cap, kind)))
            for kind, ops in variants:
                note_pattern(stats, P, kind if kind.startswith("after") else "after-batch " + kind, ops, ln)
                distinct.add(hash((g["name"], ln, tuple(ops), "aftershort", K)))
                nvar += 1
            ok, P = check_group(c, binp, g, [(0, ln, c.rng.choice(CMNS), variants, cap)], cap, stats,
                                f"streaming after a shorter batch utterance {g['name']}", warm_full=lb)
            allok = allok and ok
    c.oblige("oracle: every generated calling pattern gives the result record of the reference pattern (real decoder, ASan/UBSan)",
             allok)
    c.oblige("correspondence: counters after every call, search steps and window/feature identity agree with the model", allok)
    c.oblige("prior decoder state (hypothesis WF0 of every C07 theorem; Props/C07Hist.lean proves it for every history within the "
             "premises): on the state EVERY utterance of every decoder history starts from, the model's wf0b is true and the same "
             "facts hold on the real decoder's counters; premise hcmn holds for every streaming utterance of the histories",
             not stats.get("wf0_bad") and not stats.get("hcmn_bad") and stats.get("wf0_states_after_an_utterance", 0) > 0,
             {"prior_states_evaluated": stats.get("wf0_states", 0),
              "of_which_after_at_least_one_earlier_utterance": stats.get("wf0_states_after_an_utterance", 0),
              "of_which_on_a_cepstrum_ring_enlarged_by_an_earlier_batch_utterance": stats.get("wf0_states_on_an_enlarged_cepstrum_ring", 0),
              "utterances_by_regime (streaming and batch are events of Ev; mixed ones are outside the history theorem)": stats.get("history_events", {}),
              "failures": (stats.get("wf0_bad", []) + stats.get("hcmn_bad", []))[:5]})
    c.cov.update({"prior_decoder_states_on_which_WF0_was_evaluated (model wf0b + C counters, one per utterance)": stats.get("wf0_states", 0),
                  "of_which_after_at_least_one_earlier_utterance": stats.get("wf0_states_after_an_utterance", 0),
                  "of_which_on_a_cepstrum_ring_enlarged_by_an_earlier_batch_utterance": stats.get("wf0_states_on_an_enlarged_cepstrum_ring", 0),
                  "utterances_of_the_histories_by_regime": stats.get("history_events", {}),
                  "batch_utterances_within_the_premises_of_Ev.ok (one loop iteration, >= 1 frame)": stats.get("batch_events_within_the_premises", 0),
                  "batch_utterances_outside_them": stats.get("batch_events_outside_the_premises", 0)})
    c.oblige("correspondence (C03 frame accounting): the value every decoder_process_* / decoder_end_utt call returned equals the "
             "return value the counter model (Model/DecRet.lean) computes for that call, and d->n_frame grew by the model's count",
             allok and stats.get("returns_tied", 0) > 0 and stats.get("returns_tied_positive", 0) > 0,
             {"calls_compared": stats.get("returns_tied", 0), "with_a_positive_return": stats.get("returns_tied_positive", 0),
              "n_frame_growths_compared": stats.get("n_frame_growth_tied", 0)})
    unhit = [b for b in ["call yielding no frame while STARTED", "end of utterance while STARTED with a pending frame",
                         "end of utterance with no audio", "cepstrum ring wrap (fe call limited by ring end)",
                         "output-limited fe call with samples left (decoder loops)", "more than 128 frames buffered",
                         "partial alignment with unsearched frames buffered", "feat_buf grown",
                         "live ring read pointer wrapped (window wrap branch)", "goto alldone / zero-frame fe call after a wrap"]
             if stats["branches"][b] == 0]
    c.cov.update({"evaluations": nvar + ncorp, "distinct_nontrivial": len(distinct) + ncorp,
                  "rule": "a case = (model+grammar, clip, CMN vector, calling pattern) compared against the single-call reference of the same clip; "
                          "distinct = distinct (clip, pattern) tuples; every pattern differs from the reference in chunking, buffering, entry point or queries",
                  "utterances_decoded": stats["utterances"], "search_steps_compared_with_model": stats["steps"],
                  "front_end_calls_predicted_by_the_composed_model_from_chunk_lengths_and_compared (room:frames:left)": stats.get("fe_calls_tied", 0),
                  "return_values_compared_with_the_counter_model (decoder_process_* / decoder_end_utt, exact)": stats.get("returns_tied", 0),
                  "of_which_positive_returns": stats.get("returns_tied_positive", 0),
                  "d->n_frame_growths_compared_with_the_counter_model": stats.get("n_frame_growth_tied", 0),
                  "pattern_kinds": dict(stats["kinds"]), "chunk_size_histogram_samples": dict(stats["chunks"]),
                  "entry_points": dict(stats["entry"]), "no_search_flag": dict(stats["nosearch"]), "partial_queries": dict(stats["queries"]),
                  "clip_length_frames": dict(stats["clip_frames"]), "patterns_with_first_chunk_shorter_than_a_window": stats["first_chunk_lt_window"],
                  "one_sample_chunks": stats["one_sample_chunks"], "chunks_larger_than_the_cepstrum_ring": stats["chunks_gt_ring"],
                  "model_branches_hit": dict(stats["branches"]), "model_branches_never_hit": unhit,
                  "per_group_utterances": dict(stats["groups"]), "corpus_cases": ncorp,
                  "live_feature_ring_write_position_at_the_end_of_utterance_flush (streaming utterances; position: count)":
                      {str(k): v for k, v in sorted(stats.get("flush_pos", {}).items())},
                  "distinct_ring_positions_at_the_end_flush": len(stats.get("flush_pos", {})),
                  "live_ring_unit_tie (h_c07r vs featLive)": stats.get("ring_unit", {}),
                  "ring_residue_sweep_cases": stats.get("ring_phase_cases (r = bufpos at the end flush of the variant; frames)", [])[:48],
                  "queries_by_kind_point_and_outcome": dict(sorted(stats.get("queries_by_point", {}).items())),
                  "wall_seconds_by_stage": {k: round(v, 1) for k, v in stats["seconds"].items()},
                  "end_of_utterance_edge_clips_on_fresh_decoders (feat_buf size + offset of the frame count)": dict(stats["end_edge_frames"]),
                  "reference_records_with_a_hypothesis": stats["reference_with_hypothesis"],
                  "reference_records_without_a_hypothesis": stats["reference_without_hypothesis"],
                  "patterns_differing_from_reference": stats["patterns_differing_from_reference"],
                  "patterns_differing_in_the_visible_result": stats["patterns_differing_in_the_visible_result"],
                  "d9_stale_assert_present_chunks_capped_at_32767": d9})


def lean_all(c):
    """Props/C07.lean (M5) and Props/C07Fe.lean (M5 with c06's front-end model inside; imports Props/C06.lean)"""
    c.leanchecker_modules = lambda: ["SSVerif.Props.C07", "SSVerif.Props.C07Fe"] + [f"SSVerif.Props.{x}" for x in vlib.EXTRA_PROPS.get("C07", [])]
    ok = c.lean_obligations(extra_targets=("SSVerif.Props.C07Fe",))
    hits = vlib.grep_forbidden(["SSVerif.Props.C07Fe"])
    c.oblige("no sorry/admit/axiom/native_decide/bv_decide/implemented_by/unsafe/maxHeartbeats 0 in the modules "
             "Props/C07Fe.lean (front-end composition) imports", not hits, hits)
    return ok and not hits


def replay(c, path):
    lean_all(c)
    binp = vlib.build_harness("h_c07", extra_flags=WRAP)
    obj = json.loads(open(path).read())
    g = group_by_name(obj.get("group", GROUPS[0]["name"]))
    cap = 32767 if probe(binp) else 10 ** 9
    stats = new_stats()
    cases = [(obj["clip_offset_samples"], obj["clip_length_samples"], obj["cmn"], [("replay", obj["variant_ops"])], cap)]
    ok, P = check_group(c, binp, g, cases, cap, stats, "replay", ref_last=bool(obj.get("reference_decoded_after_the_variant")),
                        ref_nosearch=bool(obj.get("reference_buffered_no_search")),
                        warm_full=obj.get("warm_up_is_a_full_utt_decode") or False, ref_full=bool(obj.get("reference_full_utt")),
                        warm_len=obj.get("warm_up_streamed_samples") or False)
    c.oblige("replayed pattern gives the reference record and agrees with the model", ok)
    c.cov.update({"evaluations": 1, "distinct_nontrivial": 1})
