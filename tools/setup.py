#!/usr/bin/env python3
"""MANIFEST.setup_cmd: build the framework from files on disk only (offline)."""
import sys
from pathlib import Path
sys.path.insert(0, str(Path(__file__).resolve().parent))
import vlib, gen_consts

try:
    print("regenerated:", gen_consts.generate(None))
except Exception as e:  # the checks report this themselves
    print("generation problem:", e)
ok, out = vlib.lake_build()
print(out[-3000:])
if not ok:
    sys.exit(1)
for fl in ("asan",):
    print("repo build:", vlib.build_repo(fl))
