#!/usr/bin/env python3
"""MANIFEST.setup_cmd: build the framework from files on disk only (offline).
Failures of single proof modules are reported but do not fail the setup: the check of the
affected property reports them itself."""
import json, sys
from pathlib import Path
sys.path.insert(0, str(Path(__file__).resolve().parent))
import vlib, gen_consts

try:
    print("regenerated:", gen_consts.generate(None))
except Exception as e:  # the checks report this themselves
    print("generation problem:", e)
props = [c["property_id"] for c in json.loads((vlib.ROOT / "MANIFEST.json").read_text())["checks"]]
for p in props:
    ok, out = vlib.lake_build((f"SSVerif.Props.{p}",) + tuple(f"SSVerif.Props.{x}" for x in vlib.EXTRA_PROPS.get(p, []))
                              + tuple(f"ssdriver-{x}" for x in vlib.drivers_of(p)))
    print(p, "ok" if ok else "FAILED\n" + out[-1500:])
print("repo build:", vlib.build_repo("asan"))
