#!/usr/bin/env python3
"""Regenerates lean/SSVerif/Generated/FeWidths.lean: the integer WIDTHS the audio front end's sample bookkeeping
uses, read off the clang-14 JSON AST of the current src/fe_interface.c.

A cheap translation-style tie for C06: the Lean model of fe_process counts samples in unbounded/64-bit numbers, so
any change that routes a chunk-length-sized quantity through a type narrower than 32 bits (a new `uint16 n_avail`
parameter, an implicit long -> uint16 conversion, ...) must show up as a difference in the generated file.

What is recorded (functions = everything with a body in src/fe_interface.c reachable from fe_process,
fe_process_int16, fe_process_float32, fe_end):
  * feIntDecls       every integer-typed return type / parameter / local of those functions, and the integer
                     parameters / return types of the body-less fe_* functions they call, with a role:
                       "sample"  a `short` local initialised from an array element / dereference (one audio sample)
                       "byte"    an `unsigned char` local that is only ever assigned one byte loaded from memory
                                 (the `tmp` of the SWAP_FLOAT32 byte swap) -- NOT part of the caller's brief, added
                                 because that local exists on the unchanged tree; it can never hold a count
                       "count"   everything else
  * feNarrowingCasts every integer conversion (ImplicitCastExpr / CStyleCastExpr IntegralCast, or the implicit result
                     conversion of a compound assignment) to a type narrower than 32 bits and narrower than its
                     source, other than storing one audio sample into a role-"sample" local
  * fe*Bits          widths of the fe_t fields frame_shift, frame_size, num_overflow_samps

Enum-typed declarations (fe_encoding_t encoding), _Bool, pointers, floats and structs are skipped in feIntDecls;
an enum-typed SOURCE of a conversion counts as 32 bits.
Line numbers are kept in the python records (--dump) but never written to the Lean file, so that edits which only
shift lines leave the generated file byte-identical.
"""
import json, subprocess, sys
from pathlib import Path
sys.path.insert(0, str(Path(__file__).resolve().parent))
import vlib

SRC = "src/fe_interface.c"
ROOTS = ["fe_process", "fe_process_int16", "fe_process_float32", "fe_end"]
EXPECTED = ROOTS + ["output_frame_count", "overflow_append", "read_overflow_frame", "create_overflow_frame",
                    "append_overflow_frame"]
FIELDS = ["frame_shift", "frame_size", "num_overflow_samps"]

# LP64 (x86-64 clang)
BUILTIN = {"char": 8, "signed char": 8, "unsigned char": 8,
           "short": 16, "unsigned short": 16,
           "int": 32, "unsigned int": 32,
           "long": 64, "unsigned long": 64, "long long": 64, "unsigned long long": 64}
KIND_ORDER = {"return": 0, "param": 1, "local": 2, "callee-return": 3, "callee-param": 4}


# ---------------------------------------------------------------- AST plumbing

def parse_tu():
    """whole-TU clang-14 JSON AST of the current src/fe_interface.c (same flags as c2lean.ast_of)"""
    src = vlib.REPO / SRC
    flags = [f for f in vlib.cflags("asan") if f.startswith(("-D", "-U", "-I"))]
    r = subprocess.run(["clang-14", "-Xclang", "-ast-dump=json", "-fsyntax-only", "-w"] + flags + [str(src)],
                       stdout=subprocess.PIPE, stderr=subprocess.PIPE, text=True)
    if r.returncode != 0:
        raise vlib.BuildError(f"clang cannot parse {SRC}: {r.stderr[-1500:]}")
    try:
        ast = json.loads(r.stdout)
    except ValueError as e:
        raise vlib.BuildError(f"clang JSON AST of {SRC} unreadable: {e}")
    fill_locs(ast, [None, 0])
    return ast, str(src)


def fill_locs(n, cur):
    """clang prints `file` / `line` only when they change (document order); propagate both to every location"""
    stack = [n]
    while stack:
        n = stack.pop()
        if isinstance(n, dict):
            if "offset" in n and "col" in n:
                if "file" in n:
                    cur[0] = n["file"]
                else:
                    n["file"] = cur[0]
                if "line" in n:
                    cur[1] = n["line"]
                else:
                    n["line"] = cur[1]
            stack.extend(reversed(list(n.values())))
        elif isinstance(n, list):
            stack.extend(reversed(n))


def eff_loc(loc):
    loc = loc or {}
    return loc.get("expansionLoc") or loc


def line_of(n):
    b = (n.get("range") or {}).get("begin") or n.get("loc") or {}
    return eff_loc(b).get("line", 0)


def kids(n):
    return [c for c in n.get("inner", []) if isinstance(c, dict) and c.get("kind")]


def body_of(fd):
    for c in kids(fd):
        if c["kind"] == "CompoundStmt":
            return c
    return None


def walk(n):
    """pre-order, document order"""
    yield n
    for c in kids(n):
        yield from walk(c)


def strip(n, casts=True):
    """drop ParenExpr (and, with casts, ImplicitCastExpr) wrappers"""
    while n is not None and (n["kind"] == "ParenExpr" or (casts and n["kind"] == "ImplicitCastExpr")):
        k = kids(n)
        if not k:
            break
        n = k[0]
    return n


def norm(t):
    return " ".join(w for w in t.split() if w not in ("const", "volatile", "restrict", "__restrict"))


def bits_of_type(ty, enum32=False):
    """bit width of a clang `type` record if it is an integer type, else None"""
    if not ty:
        return None
    d = norm(ty.get("desugaredQualType") or ty.get("qualType") or "")
    if d in BUILTIN:
        return BUILTIN[d]
    if enum32 and d.startswith("enum "):
        return 32
    return None


def desugared(ty):
    return norm((ty or {}).get("desugaredQualType") or (ty or {}).get("qualType") or "")


# ---------------------------------------------------------------- collection

def typedef_table(ast):
    td = {}
    for n in ast.get("inner", []):
        if n.get("kind") == "TypedefDecl" and "name" in n:
            ty = n.get("type", {})
            td[n["name"]] = norm(ty.get("desugaredQualType") or ty.get("qualType") or "")
    return td


def bits_of_spelled(sp, td):
    """bit width of a type given only as text (function return types), through the TU's typedefs"""
    s, seen = norm(sp), set()
    while s not in BUILTIN and s in td and s not in seen:
        seen.add(s)
        s = td[s]
    return BUILTIN.get(s)


def return_spelled(fd):
    q = fd.get("type", {}).get("qualType", "")
    i = q.find("(")
    return q[:i].strip() if i >= 0 else q.strip()


def callees(body):
    """names of the functions referenced from a body (callee of a CallExpr, or a function designator used
    any other way -- a superset of the direct calls)"""
    out = []
    for n in walk(body):
        if n["kind"] == "DeclRefExpr":
            rd = n.get("referencedDecl") or {}
            if rd.get("kind") == "FunctionDecl" and rd.get("name") and rd["name"] not in out:
                out.append(rd["name"])
    return out


def is_elem_load(e, want_bits):
    """e (an initializer / right-hand side) loads ONE element of the given width from memory"""
    e = strip(e)
    if e is None:
        return False
    if e["kind"] == "ArraySubscriptExpr" or (e["kind"] == "UnaryOperator" and e.get("opcode") == "*"):
        return bits_of_type(e.get("type")) == want_bits
    return False


def target_id(lhs):
    """id of the variable an lvalue designates: x, (x), *&x, *(&x)"""
    e = strip(lhs, casts=False)
    if e is None:
        return None
    if e["kind"] == "DeclRefExpr":
        return (e.get("referencedDecl") or {}).get("id")
    if e["kind"] == "UnaryOperator" and e.get("opcode") == "*":
        a = strip(kids(e)[0], casts=False) if kids(e) else None
        if a is not None and a["kind"] == "UnaryOperator" and a.get("opcode") == "&" and kids(a):
            d = strip(kids(a)[0], casts=False)
            if d is not None and d["kind"] == "DeclRefExpr":
                return (d.get("referencedDecl") or {}).get("id")
    return None


def local_roles(body):
    """{VarDecl id: role} for the integer locals of one function body"""
    decls = [n for n in walk(body) if n["kind"] == "VarDecl"]
    writes = {}          # id -> [("=", rhs) | ("other", None)]
    for n in walk(body):
        k = kids(n)
        if n["kind"] == "BinaryOperator" and n.get("opcode") == "=" and len(k) == 2:
            writes.setdefault(target_id(k[0]), []).append(("=", k[1]))
        elif n["kind"] == "CompoundAssignOperator" and k:
            writes.setdefault(target_id(k[0]), []).append(("other", None))
        elif n["kind"] == "UnaryOperator" and n.get("opcode") in ("++", "--", "&") and k:
            # taking the address (other than through the *&x idiom handled by target_id) or stepping it
            d = strip(k[0], casts=False)
            if d is not None and d["kind"] == "DeclRefExpr" and n.get("opcode") != "&":
                writes.setdefault((d.get("referencedDecl") or {}).get("id"), []).append(("other", None))
    roles = {}
    for v in decls:
        b = bits_of_type(v.get("type"))
        if b is None:
            continue
        init = kids(v)[0] if ("init" in v and kids(v)) else None
        role = "count"
        if desugared(v.get("type")) == "short" and init is not None and is_elem_load(init, 16):
            role = "sample"
        elif desugared(v.get("type")) == "unsigned char":
            ws = writes.get(v["id"], [])
            srcs = ([init] if init is not None else []) + [r for (_, r) in ws]
            if srcs and all(op == "=" for (op, _) in ws) and all(is_elem_load(s, 8) for s in srcs):
                role = "byte"
        roles[v["id"]] = role
    return roles


def narrowing(fname, body, roles):
    """[(function, source type, destination type, destination bits, line)]"""
    sample = {i for i, r in roles.items() if r == "sample"}
    excluded = set()     # ids of cast nodes that are part of a sample store

    def mark_chain(e):
        # the conversion(s) applied to the stored value: casts reachable through parens / implicit casts only
        while e is not None and e["kind"] in ("ParenExpr", "ImplicitCastExpr"):
            if e["kind"] == "ImplicitCastExpr":
                excluded.add(e["id"])
            k = kids(e)
            e = k[0] if k else None

    for n in walk(body):
        k = kids(n)
        if n["kind"] == "VarDecl" and n.get("id") in sample:
            for m in walk(n):
                if m is not n:
                    excluded.add(m.get("id"))
        elif n["kind"] == "BinaryOperator" and n.get("opcode") == "=" and len(k) == 2 and target_id(k[0]) in sample:
            mark_chain(k[1])
    out = []
    for n in walk(body):
        k = kids(n)
        if n["kind"] in ("ImplicitCastExpr", "CStyleCastExpr") and n.get("castKind") == "IntegralCast" and k:
            if n["id"] in excluded:
                continue
            db, sb = bits_of_type(n.get("type")), bits_of_type(k[0].get("type"), enum32=True)
            if db is not None and sb is not None and db < 32 and db < sb:
                out.append((fname, k[0]["type"]["qualType"], n["type"]["qualType"], db, line_of(n)))
        elif n["kind"] == "CompoundAssignOperator" and k:
            # x op= y computes in computeResultType and converts back to typeof(x) with no cast node
            if target_id(k[0]) in sample:
                continue
            db = bits_of_type(n.get("type"))
            cr = n.get("computeResultType")
            sb = bits_of_type(cr, enum32=True)
            if db is not None and sb is not None and db < 32 and db < sb:
                out.append((fname, cr["qualType"], n["type"]["qualType"], db, line_of(n)))
    return out


def collect():
    """{"decls": [(function, kind, name, type, bits, role, line)], "casts": [(function, src, dst, bits, line)],
        "fields": {field: (type, bits)}, "closure": [names]}"""
    ast, main = parse_tu()
    td = typedef_table(ast)
    defs, protos, fe_s = {}, {}, None
    for n in ast.get("inner", []):
        if n.get("kind") == "FunctionDecl" and "name" in n:
            if body_of(n) is not None:
                loc = eff_loc(n.get("loc"))
                if "includedFrom" not in loc and loc.get("file") == main:
                    defs[n["name"]] = n
            else:
                protos.setdefault(n["name"], n)
        elif n.get("kind") == "RecordDecl" and n.get("name") == "fe_s" and n.get("completeDefinition"):
            fe_s = n
    # closure over the call graph inside this TU
    closure, todo = [], list(ROOTS)
    while todo:
        f = todo.pop(0)
        if f in closure or f not in defs:
            continue
        closure.append(f)
        todo.extend(callees(body_of(defs[f])))
    missing = [f for f in EXPECTED if f not in closure]
    if missing:
        raise vlib.BuildError(f"{SRC}: expected front-end function(s) not found / not reachable from "
                              f"{ROOTS}: {missing}")
    decls, casts, ext = [], [], []
    for f in closure:
        fd = defs[f]
        body = body_of(fd)
        rs = return_spelled(fd)
        rb = bits_of_spelled(rs, td) if "*" not in rs else None
        if rb is not None:
            decls.append((f, "return", "", rs, rb, "count", line_of(fd)))
        for i, p in enumerate(c for c in kids(fd) if c["kind"] == "ParmVarDecl"):
            b = bits_of_type(p.get("type"))
            if b is not None:
                decls.append((f, "param", p.get("name", f"#{i}"), p["type"]["qualType"], b, "count", line_of(p)))
        roles = local_roles(body)
        for v in walk(body):
            if v["kind"] == "VarDecl" and v.get("id") in roles:
                decls.append((f, "local", v.get("name", ""), v["type"]["qualType"], bits_of_type(v["type"]),
                              roles[v["id"]], line_of(v)))
        casts.extend(narrowing(f, body, roles))
        for g in callees(body):
            if g not in defs and g.startswith("fe_") and g not in ext:
                ext.append(g)
    for g in ext:
        pd = protos.get(g)
        if pd is None:
            raise vlib.BuildError(f"{SRC}: no prototype of called function {g} in the AST")
        rs = return_spelled(pd)
        rb = bits_of_spelled(rs, td) if "*" not in rs else None
        if rb is not None:
            decls.append((g, "callee-return", "", rs, rb, "count", line_of(pd)))
        for i, p in enumerate(c for c in kids(pd) if c["kind"] == "ParmVarDecl"):
            b = bits_of_type(p.get("type"))
            if b is not None:
                decls.append((g, "callee-param", p.get("name", f"#{i}"), p["type"]["qualType"], b, "count",
                              line_of(p)))
    # stable order: function name, kind, declaration order (python's sort is stable)
    decls.sort(key=lambda d: (d[0], KIND_ORDER[d[1]]))
    casts.sort(key=lambda c: (c[0],))
    if fe_s is None:
        raise vlib.BuildError("struct fe_s not found in the AST of " + SRC)
    fields = {}
    for c in kids(fe_s):
        if c["kind"] == "FieldDecl" and c.get("name") in FIELDS:
            fields[c["name"]] = (c["type"]["qualType"], bits_of_type(c.get("type")))
    bad = [f for f in FIELDS if f not in fields or fields[f][1] is None]
    if bad:
        raise vlib.BuildError(f"fe_s field(s) missing or not of integer type: {bad} ({fields})")
    return {"decls": decls, "casts": casts, "fields": fields, "closure": closure}


# ---------------------------------------------------------------- rendering

def q(s):
    return '"' + s.replace("\\", "\\\\").replace('"', '\\"') + '"'


def render(rec):
    rows = [f"  ({q(f)}, {q(k)}, {q(n)}, {q(t)}, {b}, {q(r)})" for (f, k, n, t, b, r, _) in rec["decls"]]
    ty = "List (String × String × String × String × Nat × String)"
    doc = ("/-- (function, kind, name, C type as spelled, bits, role) of every integer declaration in the functions "
           "reachable from\nfe_process / fe_process_int16 / fe_process_float32 / fe_end inside src/fe_interface.c, "
           "and of the integer parameters of the fe_* functions they call -/\n")
    out = ["-- GENERATED by tools/gen_fewidths.py from src/fe_interface.c, include/soundswallower/fe.h "
           "(clang-14 JSON AST) — do not edit\n", "namespace SSVerif.Generated\n"]
    if len(rows) <= 100:
        out.append(doc + f"def feIntDecls : {ty} := [\n" + ",\n".join(rows) + ("\n" if rows else "") + "]\n")
    else:
        parts = [rows[i:i + 80] for i in range(0, len(rows), 80)]
        for i, p in enumerate(parts):
            out.append(f"def feIntDecls{i} : {ty} := [\n" + ",\n".join(p) + "\n]\n")
        out.append(doc + f"def feIntDecls : {ty} := " + " ++ ".join(f"feIntDecls{i}" for i in range(len(parts)))
                   + "\n")
    out.append("/-- (function, source C type, destination C type, destination bits) of every integer conversion to a "
               "type narrower than 32 bits in those functions, other than storing one audio sample -/\n")
    crows = [f"  ({q(f)}, {q(s)}, {q(d)}, {b})" for (f, s, d, b, _) in rec["casts"]]
    if crows:
        out.append("def feNarrowingCasts : List (String × String × String × Nat) := [\n" + ",\n".join(crows)
                   + "\n]\n")
    else:
        out.append("def feNarrowingCasts : List (String × String × String × Nat) := []\n")
    fl = rec["fields"]
    out.append("/-- bits of the fe_t fields the sample bookkeeping uses -/\n")
    out.append(f"def feFrameShiftBits : Nat := {fl['frame_shift'][1]}\n")
    out.append(f"def feFrameSizeBits : Nat := {fl['frame_size'][1]}\n")
    out.append(f"def feNumOverflowSampsBits : Nat := {fl['num_overflow_samps'][1]}\n")
    out.append("end SSVerif.Generated\n")
    return "".join(out)


def gen_fe_widths():
    import gen_consts as g
    return g.write_if_changed(g.GEN / "FeWidths.lean", render(collect()))


def dump():
    rec = collect()
    print("closure:", ", ".join(rec["closure"]))
    for d in rec["decls"]:
        print("decl ", d)
    for c in rec["casts"]:
        print("cast ", c)
    for f, v in rec["fields"].items():
        print("field", f, v)
    narrow = [d for d in rec["decls"] if d[5] == "count" and d[4] < 32]
    print(f"{len(rec['decls'])} decls, {len(rec['casts'])} narrowing casts, {len(narrow)} narrow count decls")
    for d in narrow:
        print("NARROW COUNT", d)


if __name__ == "__main__":
    if "--dump" in sys.argv[1:]:
        dump()
    elif "--text" in sys.argv[1:]:
        sys.stdout.write(render(collect()))
    else:
        print(gen_fe_widths())
