"""Generated API surface of the public headers (C09): every function prototype (and function-like macro) that
`include/soundswallower/*.h` exports under the prefixes named by property C09's quantifier (decoder_*, seg_iter_*,
hyp_iter_*, alignment_*, lattice_*, config_*) or belonging to the lattice accessors of lattice.h (latnode_*,
latlink_*, ps_latnode_*, ps_latlink_*, astar_*), with arity and parameter kinds.  Regenerated from the CURRENT
headers on every run into

* `lean/SSVerif/Generated/ApiSurface.lean` : an enumeration `ApiName` (one constructor per exported function) and its
  signature table; the hand-written classification of `Model/ProtocolApi.lean` matches on ALL constructors, so a new,
  renamed or removed public function no longer compiles / breaks `C09_api_total`;
* `harness/gen_c09_api.h` : one counting wrapper macro per function (`#define f(...) (vf_api_hit(ID), f(__VA_ARGS__))`),
  so that the harness reports which API functions every executed call really reached.
"""
import re
import vlib

PREFIX = re.compile(r"^(decoder_|seg_iter_|hyp_iter_|alignment_|lattice_|config_|latnode_|latlink_|ps_latnode_|ps_latlink_|astar_)")
# object types whose pointers are handles of the protocol (valid object pointers of the quantifier)
SCALARS = {"int", "int32", "int16", "int64", "uint32", "uint16", "uint8", "long", "size_t", "double", "float", "float32",
           "float64", "char", "config_type_t", "unsigned", "short"}


def strip_comments(txt):
    """-> (text with comments blanked, list of (start, end, is_doc) of comments)"""
    spans = []

    def repl(m):
        spans.append((m.start(), m.end(), m.group(0).startswith("/**")))
        return re.sub(r"[^\n]", " ", m.group(0))
    out = re.sub(r"/\*.*?\*/", repl, txt, flags=re.S)
    out = re.sub(r"//[^\n]*", lambda m: " " * len(m.group(0)), out)
    return out, spans


def blank_braces(txt):
    """blank the bodies of struct / enum / union definitions and inline functions (nested braces), keep `extern "C" {`"""
    out = list(txt)
    depth, i, n = 0, 0, len(txt)
    start = None
    while i < n:
        ch = txt[i]
        if ch == "{":
            # the linkage block is transparent
            if depth == 0 and re.search(r'extern\s+"C"\s*$', txt[max(0, i - 20):i]):
                out[i] = " "
                i += 1
                continue
            if depth == 0:
                start = i
            depth += 1
        elif ch == "}":
            if depth > 0:
                depth -= 1
                if depth == 0:
                    for j in range(start, i + 1):
                        if out[j] != "\n":
                            out[j] = " "
            else:
                out[i] = " "     # closing brace of the linkage block
        i += 1
    return "".join(out)


def param_kind(p):
    """kind of one parameter / return type (C text without the name)"""
    p = p.strip()
    if p in ("void", ""):
        return ("void", "")
    if "(" in p:
        return ("fnptr", "")
    stars = p.count("*")
    base = re.sub(r"\b(const|struct|unsigned|signed|register)\b", " ", p.replace("*", " "))
    base = " ".join(base.split()) or "int"
    base = base.split()[0]
    if "unsigned" in p and base in ("int", "long", "char", "short"):
        base = "u" + base
    if stars == 0:
        return ("val", base)
    if base == "char":
        return ("cstr", "") if stars == 1 and "const" in p else (("str", "") if stars == 1 else ("out", "char*"))
    if base == "void":
        return ("buf", "void")
    if base in SCALARS or base.lstrip("u") in SCALARS:
        return ("out", base) if stars == 1 else ("out", base + "*")
    if stars >= 2:
        return ("objOut", base)
    return ("obj", base)


def split_params(s):
    parts, depth, cur = [], 0, ""
    for ch in s:
        if ch == "(":
            depth += 1
        elif ch == ")":
            depth -= 1
        if ch == "," and depth == 0:
            parts.append(cur)
            cur = ""
        else:
            cur += ch
    if cur.strip():
        parts.append(cur)
    return parts


def drop_name(p):
    """remove the parameter name from a declarator (`const char *name` -> `const char *`)"""
    p = p.strip()
    if "(" in p:
        return p
    m = re.match(r"^(.*?)([A-Za-z_]\w*)\s*(\[\s*\])?$", p, re.S)
    if not m:
        return p
    head = m.group(1).strip()
    words = [w for w in head.replace("*", " ").split() if w not in ("const", "struct", "unsigned", "signed", "register")]
    if not words and "unsigned" not in head.split():
        return p            # no type word left: the trailing identifier IS the type (`config_t *` has no name)
    return head + (" *" if m.group(3) else "")


def scan_headers():
    """-> (functions, macros): functions = list of dicts name/header/ret/params/documented, sorted by (header, position)"""
    inc = vlib.REPO / "include" / "soundswallower"
    fns, macros, seen = [], [], set()
    for h in sorted(inc.glob("*.h")):
        raw = h.read_text(errors="replace")
        for m in re.finditer(r"^[ \t]*#[ \t]*define[ \t]+([A-Za-z_]\w*)\(([^)]*)\)", raw, re.M):
            if PREFIX.match(m.group(1)):
                macros.append((m.group(1), h.name, len(split_params(m.group(2)))))
        txt, spans = strip_comments(raw)
        # preprocessor lines (with continuations) are blanked
        txt = re.sub(r"^[ \t]*#(?:[^\n\\]|\\\n|\\.)*", lambda m: re.sub(r"[^\n]", " ", m.group(0)), txt, flags=re.M)
        txt = blank_braces(txt)
        pos = 0
        for stmt in txt.split(";"):
            start = pos
            pos += len(stmt) + 1
            s = stmt.strip()
            m = re.match(r"^(?:extern\s+)?(?:SOUNDSWALLOWER_EXPORT\s+)?([\w\s\*]+?)\b([A-Za-z_]\w*)\s*\((.*)\)\s*$", s, re.S)
            if not m or "typedef" in m.group(1).split():
                continue
            name = m.group(2)
            if not PREFIX.match(name) or name in seen:
                continue
            seen.add(name)
            # documented = the nearest comment that ends before the prototype is a doc comment with nothing but
            # white space in between
            first = start + (len(stmt) - len(stmt.lstrip()))
            doc = False
            for a, b, isdoc in spans:
                if b <= first and not raw[b:first].strip():
                    doc = isdoc
            params = [param_kind(drop_name(p)) for p in split_params(m.group(3))]
            if params == [("void", "")]:
                params = []
            fns.append({"name": name, "header": h.name, "ret": param_kind(m.group(1)), "params": params, "documented": doc})
    if len(fns) < 40:
        raise vlib.BuildError(f"only {len(fns)} public API prototypes found in {inc}: the header scanner no longer fits")
    return fns, macros


def lean_kind(k):
    tag, t = k
    if tag in ("void", "cstr", "str", "fnptr"):
        return f".{tag}"
    return f'(.{tag} "{t}")'


def gen_api_surface():
    import gen_consts as g
    fns, macros = scan_headers()
    L = ["-- GENERATED by tools/gen_apisurface.py from include/soundswallower/*.h — do not edit",
         "namespace SSVerif.Generated.ApiSurface",
         "/-- kind of a parameter / return value: a handle (`obj`), a handle returned through a pointer (`objOut`), a",
         "NUL-terminated `const char *` (`cstr`), a writable `char *` (`str`), a scalar output pointer (`out`), a data",
         "buffer (`buf`), a scalar (`val`), a function pointer, nothing -/",
         "inductive PKind | obj (t : String) | objOut (t : String) | cstr | str | out (t : String) | buf (t : String)",
         "  | val (t : String) | fnptr | void",
         "  deriving DecidableEq, Repr",
         "",
         "/-- the exported functions (one constructor per prototype found in the current headers) -/",
         "inductive ApiName"]
    for i in range(0, len(fns), 6):
        L.append("  | " + " | ".join(f["name"] for f in fns[i:i + 6]))
    L += ["  deriving DecidableEq, Repr", "",
          "structure Sig where", "  header : String", "  ret : PKind", "  params : List PKind",
          "  /-- the prototype carries a documentation comment -/", "  documented : Bool", "  deriving Repr", ""]
    for i in range(0, len(fns), 64):
        L.append(f"def apiNames{i // 64} : List ApiName := [" + ", ".join("." + f["name"] for f in fns[i:i + 64]) + "]")
    L.append("def ApiName.all : List ApiName := " + " ++ ".join(f"apiNames{i // 64}" for i in range(0, len(fns), 64)))
    L += ["", "def ApiName.str : ApiName → String"]
    for f in fns:
        L.append(f'  | .{f["name"]} => "{f["name"]}"')
    L += ["", "def sig : ApiName → Sig"]
    for f in fns:
        ps = ", ".join(lean_kind(p) for p in f["params"])
        L.append(f'  | .{f["name"]} => ⟨"{f["header"]}", {lean_kind(f["ret"]).strip("()") if f["ret"][0] in ("void", "cstr", "str", "fnptr") else lean_kind(f["ret"])}, [{ps}], {"true" if f["documented"] else "false"}⟩')
    L += ["", "/-- function-like macros under the same prefixes: (name, header, arity) -/",
          "def apiMacros : List (String × String × Nat) := ["
          + ", ".join(f'("{n}", "{h}", {a})' for n, h, a in macros) + "]",
          "end SSVerif.Generated.ApiSurface", ""]
    ch1 = g.write_if_changed(g.GEN / "ApiSurface.lean", "\n".join(L))
    H = ["/* GENERATED by tools/gen_apisurface.py from include/soundswallower/*.h - do not edit.",
         " * Counting wrappers: include AFTER the library headers.  A function-like macro is not expanded inside its own",
         " * expansion, so `f(...)` still calls the library's f. */",
         "#ifndef VF_GEN_C09_API_H", "#define VF_GEN_C09_API_H",
         f"#define VF_API_N {len(fns)}",
         "static unsigned long vf_api_count[VF_API_N];", "static unsigned char vf_api_seen[VF_API_N];",
         "static inline void vf_api_hit(int id) { vf_api_count[id]++; vf_api_seen[id] = 1; }",
         "static const char *const vf_api_name[VF_API_N] = {"]
    H += [f'    "{f["name"]}",' for f in fns]
    H.append("};")
    for i, f in enumerate(fns):
        H.append(f'#define {f["name"]}(...) (vf_api_hit({i}), {f["name"]}(__VA_ARGS__))')
    H += ["#endif", ""]
    ch2 = g.write_if_changed(vlib.HARNESS / "gen_c09_api.h", "\n".join(H))
    return ch1 or ch2
