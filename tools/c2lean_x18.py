#!/usr/bin/env python3
"""c2lean_x18 — additive extension of tools/c2lean.py for `hmm_vit_eval_anytopo` (property C18).

New node kind: an assignment used as a value, `(x = e)`, in two positions:

  * unguarded (not under `&&`, `||`, `?:`), e.g. `if ((ctx->st_sen_scr[0] = a + b) < W) …`:
    the right-hand side is bound to a fresh name `asgN` in front of the statement, its side conditions are checked,
    the store is performed (also in front of the statement), and the value of the expression is `asgN` (C: the value
    of the left operand after the assignment; the conversion to the left type is clang's ImplicitCastExpr inside `e`);
  * as (part of) the right operand of `&&`, target an integer LOCAL, e.g.
    `if (tp > T && ((newscr = s + tp) > scr)) …`: the guard `G` (left operand) is bound to a Bool `grdN`, the right-hand
    side to `asgN`, its side conditions are checked under `G →`, and the local becomes `if G then asgN else <old value>`.

In both cases the assigned object must not have been read earlier in the same full expression (it would have to see the
OLD value, which hoisting would break) and must not be read later in it except through the value of the assignment
itself; both are reported as outside the subset.  Everything else is c2lean.FnXlate unchanged.
"""
import sys
from pathlib import Path
sys.path.insert(0, str(Path(__file__).resolve().parent))
import c2lean
from c2lean import parse_type


class FnXlate18(c2lean.FnXlate):

    def begin_expr(self):
        super().begin_expr()
        self.x_reads = set()      # keys of objects read so far in this full expression
        self.x_guards = []        # Bool names of the enclosing `&&` left operands
        self.x_noassign = 0       # > 0: inside `||` right operand or `?:` branch

    def _key(self, lv):
        return ("v", lv.var["decl"]["id"]) if lv.var is not None else ("f", lv.fam, tuple(lv.idx))

    def read(self, lv, node):
        r = super().read(lv, node)
        self.x_reads.add(self._key(lv))
        if lv.var is None:
            self.x_reads.add(("F", lv.fam))
        return r

    def _has_assign(self, n):
        if not isinstance(n, dict):
            return False
        if n.get("kind") == "BinaryOperator" and n.get("opcode") == "=":
            return True
        return any(self._has_assign(c) for c in n.get("inner", []))

    def rv(self, n):
        m = self.skip(n)
        k = m.get("kind")
        if k == "BinaryOperator" and m.get("opcode") == "=":
            return self.assign_value(m)
        if k == "ConditionalOperator" and self._has_assign(m):
            self.err(m, "assignment inside `?:`")
        return super().rv(n)

    def cond(self, n):
        m = self.skip(n)
        if m.get("kind") == "BinaryOperator" and m.get("opcode") in ("&&", "||") and self._has_assign(m["inner"][1]):
            if m["opcode"] == "||":
                self.err(m, "assignment in the right operand of `||`")
            a, ca = self.cond(m["inner"][0])
            self.ntmp += 1
            g = f"grd{self.ntmp}"
            # the left operand is sequenced before the right one: bind its value now (its own side conditions first)
            for c in ca:
                self.pre.append(("chk", " → ".join([f"{x} = true" for x in self.x_guards] + [c])))
            self.pre.append(("let", g, f"decide {a}"))
            save = self.guarded
            self.guarded = True
            self.x_guards.append(g)
            b, cb = self.cond(m["inner"][1])
            self.x_guards.pop()
            self.guarded = save
            return f"({g} = true ∧ {b})", [f"{g} = true → {x}" for x in cb]
        return super().cond(n)

    def assign_value(self, n):
        lhs, rhs = n["inner"]
        lt = parse_type(lhs.get("type"))
        if lt.kind != "int":
            self.err(n, "non-integer assignment inside an expression")
        if self.guarded and not self.x_guards:
            self.err(n, "assignment under `||` / `?:`")
        e = self.rv(rhs)
        lv = self.lvalue(lhs)
        key = self._key(lv)
        if key in self.x_reads or (lv.var is None and ("F", lv.fam) in self.x_reads):
            self.err(n, "object assigned inside an expression that read it before")
        if key in self.pre_mod:
            self.err(n, "object modified twice in one expression")
        self.ntmp += 1
        t = f"asg{self.ntmp}"
        gpre = [f"{g} = true" for g in self.x_guards]
        for c in e.conds:
            self.pre.append(("chk", " → ".join(gpre + [c])))
        self.pre.append(("let", t, e.term))
        if self.x_guards:
            if lv.var is None or lv.var["kind"] != "int":
                self.err(n, "assignment to memory under `&&`")
            g = " ∧ ".join(gpre)
            self.pre.append(("assign", lv, f"if {g} then {t} else {lv.var['name']}", n))
        else:
            self.pre.append(("assign", lv, t, n))
        self.pre_mod.add(key)           # a later read of the object in this expression is rejected by read()
        return self.E(t, [], lt)

    def mutated_vars(self, n, acc, in_decl=False):
        return super().mutated_vars(n, acc, in_decl)
